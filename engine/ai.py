"""E-AI: forward abstract interpreter over the MIR facts.

Context-sensitive by inlining (the crate has no recursion; a cycle fails
closed), heap-free except for Box (modelled inline), relational through linear
facts over value atoms (engine/dom.py).  Nothing here executes repository code.
"""
import heapq
import time
from collections import Counter

from .cfg import CFG
from .canon import canonicalize, instantiate
from .dom import (atom_key, _ATOM_RANGE, value_atoms, value_refs, BOT, INF, ArrV, BotV, BoxV, ClosureV, CursorV, EnumV, FnV, IntV, Joiner, Lin,
                  OpaqueV, RefV, State, StructV, TopV, V, atom, gc_state, states_equal, summarise,
                  ty_range, _smash)
from .mir import ConstArg, Ty, _strip_generics

STD_ENUMS = {
    "std::option::Option": ["None", "Some"],
    "std::result::Result": ["Ok", "Err"],
    "std::ops::ControlFlow": ["Continue", "Break"],
}

UNROLL_K = 10
WIDEN_AFTER = 3
MAX_VISITS = 60


# Preconditions a callee relies on without testing them: (argument index, lower bound, description).
# LzCircularBuffer computes `% dict_size` (last_or) and relies on every construction passing dict_size >= 1.
PRECONDITIONS = {
    "decode::lzbuffer::LzCircularBuffer::from_stream": [(1, 1, "dict_size >= 1 (the window computes `% dict_size`)")],
}


class AnalysisError(Exception):
    pass


class Obligation:
    __slots__ = ("fn", "bb", "kind", "desc", "span", "verdict", "how", "ctx")

    def __init__(self, fn, bb, kind, desc, span, verdict, how, ctx):
        self.fn = fn
        self.bb = bb
        self.kind = kind
        self.desc = desc
        self.span = span
        self.verdict = verdict   # 'safe' | 'unknown' | 'fail'
        self.how = how
        self.ctx = ctx


class Run:
    """One tabulated analysis of a function on a canonical input."""
    __slots__ = ("name", "obls", "children", "ret", "out", "idx", "calls", "wloops", "visited", "defk")

    def __init__(self, name, idx):
        self.name = name
        self.idx = idx
        self.defk = None
        self.calls = {}
        self.wloops = set()
        self.visited = set()
        self.obls = {}
        self.children = {}
        self.ret = None
        self.out = None


class Frame:
    __slots__ = ("body", "subst", "fid", "cfg", "unroll", "depth", "ictx", "run", "thr")

    def __init__(self, body, subst, fid, cfg, unroll, depth, ictx, run=None, thr=None):
        self.run = run
        self.thr = thr
        self.body = body
        self.subst = subst
        self.fid = fid
        self.cfg = cfg
        self.unroll = unroll   # bb -> loop header for unrollable loops
        self.depth = depth
        self.ictx = ictx


def const_int(x):
    return IntV(Lin.const(int(x)))


UNIT = StructV(None, ())


class Interp:
    def __init__(self, facts, models=None):
        self.facts = facts
        self.cfgs = {}
        self.obl = {}
        self.unmodelled = Counter()
        self.models = models or {}
        self.io_models = {}
        self.observers = []
        self.loopfree = {}
        self.impl_index = {}
        for im in facts.impls:
            if im["trait"]:
                st = im["self_ty"]
                key = (im["trait"], st.get("def") or st.get("s"))
                self.impl_index[key] = {it["name"]: it["def"] for it in im["items"]}
        self.adt_discr = {}
        for a in facts.adts.values():
            if a["kind"] == "Enum":
                self.adt_discr[a["name"]] = {v["index"]: v["discr"] for v in a["variants"]}
        thr = {0, 1, -1}
        for b in facts.bodies:
            for blk in b.blocks:
                for s in blk.stmts:
                    if s.rv is not None:
                        for o in s.rv.operands():
                            c = o.const_int()
                            if c is not None and abs(c) < (1 << 65):
                                thr.update((c, c - 1, c + 1))
                for o in blk.term.args:
                    c = o.const_int()
                    if c is not None and abs(c) < (1 << 65):
                        thr.update((c, c - 1, c + 1))
        for bits in (8, 16, 32, 63, 64):
            thr.update(((1 << bits) - 1, 1 << bits))
        # array lengths that occur in any type are natural bounds of cursors and indices
        def ty_lens(ty, depth=0):
            if depth > 6 or ty is None:
                return
            if ty.k == "array" and isinstance(ty.len, int):
                thr.update((ty.len, ty.len - 1))
            for sub in ([ty.to, ty.elem] + list(ty.elems) + [a for a in ty.args if isinstance(a, Ty)]):
                if sub is not None:
                    ty_lens(sub, depth + 1)
        for b in facts.bodies:
            for l in b.locals:
                ty_lens(l.ty)
        self.thresholds = sorted(thr)
        self.callstack = []
        self.assumed = Counter()
        self.counter_fields = set()   # (adt name, field name) under A-COUNTER
        self.stats = Counter()
        self.max_depth = 40
        self.memo = {}
        self.site_ids = {}
        self.debug_heads = None
        self.gc_mark = {}
        self.prof = {}
        self.profn = {}
        self.debug_bb = None
        self.cache = {}
        self.runs_stack = []
        self.roots_runs = []
        self.thr_cache = {}

    # ------------------------------------------------------------- set-up
    def cfg(self, body):
        c = self.cfgs.get(body.defk)
        if c is None:
            c = CFG(body)
            self.cfgs[body.defk] = c
        return c

    def body_thresholds(self, body):
        r = self.thr_cache.get(body.defk)
        if r is not None:
            return r
        thr = {0, 1, -1}
        for blk in body.blocks:
            ops = []
            for s in blk.stmts:
                if s.rv is not None:
                    ops.extend(s.rv.operands())
            ops.extend(blk.term.args)
            for o in ops:
                c = o.const_int()
                if c is not None and abs(c) < (1 << 65):
                    thr.update((c, c - 1, c + 1))
        for bits in (8, 16, 32, 63, 64):
            thr.update(((1 << bits) - 1,))
        r = sorted(thr)
        self.thr_cache[body.defk] = r
        return r

    def collect_obligations(self, roots=None):
        """Obligations of every analysis reachable from the final root runs."""
        seen = set()
        out = []
        st = list(roots if roots is not None else self.roots_runs)
        while st:
            r = st.pop()
            if id(r) in seen:
                continue
            seen.add(id(r))
            out.extend(r.obls.values())
            st.extend(r.children.values())
        return out

    def body_loopfree(self, body, seen=None):
        """No loop in this body or any crate-local callee (transitively)."""
        r = self.loopfree.get(body.defk)
        if r is not None:
            return r
        seen = seen or set()
        if body.defk in seen:
            return False
        seen.add(body.defk)
        ok = not self.cfg(body).loops()
        if ok:
            for blk in body.calls():
                cal = blk.term.callee
                if cal is None:
                    continue
                t = cal.target()
                if t.local:
                    cb = self.facts.by_def.get(t.defk)
                    if cb is not None and not self.body_loopfree(cb, seen):
                        ok = False
                        break
                elif cal.trait and cal.local:
                    # unresolved call of a crate trait method: every implementor
                    for (tr, _), items in self.impl_index.items():
                        if tr == cal.trait and cal.method in items:
                            cb = self.facts.by_def.get(items[cal.method])
                            if cb is not None and not self.body_loopfree(cb, seen):
                                ok = False
                                break
                    if not ok:
                        break
        self.loopfree[body.defk] = ok
        return ok

    def unrollable(self, body):
        """bb -> header for innermost loops whose calls are loop-free."""
        cfg = self.cfg(body)
        loops = cfg.loops()
        res = {}
        for h, blocks, _ in loops:
            inner = any(h2 != h and h2 in blocks for h2, _, _ in loops)
            if inner:
                continue
            ok = True
            for b in blocks:
                t = body.blocks[b].term
                if t.k == "call" and t.callee is not None:
                    tg = t.callee.target()
                    if tg.local:
                        cb = self.facts.by_def.get(tg.defk)
                        if cb is not None and not self.body_loopfree(cb):
                            ok = False
                            break
                    elif t.callee.trait and t.callee.local:
                        for (tr, _), items in self.impl_index.items():
                            if tr == t.callee.trait and t.callee.method in items:
                                cb = self.facts.by_def.get(items[t.callee.method])
                                if cb is not None and not self.body_loopfree(cb):
                                    ok = False
                        if not ok:
                            break
            if ok:
                for b in blocks:
                    res[b] = h
        return res

    # ------------------------------------------------------------- types
    def subst_ty(self, ty, subst):
        """Substitute generic parameters in a Ty (returns a Ty)."""
        if not subst:
            return ty
        if ty.k == "param":
            r = subst.get(ty.name)
            return r if isinstance(r, Ty) else ty
        j = self._subst_json(ty.raw, subst)
        return ty if j is ty.raw else Ty(j)

    def _subst_json(self, j, subst):
        k = j.get("k")
        if k == "param":
            r = subst.get(j["name"])
            if isinstance(r, Ty):
                return r.raw
            return j
        if k == "const" and "val" in j and "ty" not in j:
            v = j["val"]
            if isinstance(v, dict) and "param" in v:
                r = subst.get(v["param"])
                if isinstance(r, int):
                    return {"k": "const", "val": r}
            return j
        changed = False
        out = dict(j)
        for key in ("to", "elem"):
            if key in j:
                n = self._subst_json(j[key], subst)
                if n is not j[key]:
                    out[key] = n
                    changed = True
        for key in ("args", "elems"):
            if key in j:
                ns = [self._subst_json(x, subst) for x in j[key]]
                if any(a is not b for a, b in zip(ns, j[key])):
                    out[key] = ns
                    changed = True
        if k == "array" and isinstance(j.get("len"), dict) and "param" in j["len"]:
            r = subst.get(j["len"]["param"])
            if isinstance(r, int):
                out["len"] = r
                changed = True
        if changed:
            out["s"] = j.get("s", "") + "'"
            return out
        return j

    def const_param(self, v, subst):
        if isinstance(v, int):
            return v
        if isinstance(v, dict) and "param" in v:
            r = subst.get(v["param"])
            if isinstance(r, int):
                return r
        return None

    # ------------------------------------------------------------- top values
    def mk_top(self, ty, key, st, subst=None, depth=0):
        """A most general value of type ty (atoms named after key)."""
        ty = self.subst_ty(ty, subst) if subst else ty
        k = ty.k
        if k in ("uint", "int", "bool", "char"):
            lo, hi = ty_range(ty)
            return IntV(Lin.var(st.fresh(("top", key), lo, hi)))
        if depth > 7:
            return TopV(ty)
        if k == "tuple":
            return StructV(None, [self.mk_top(e, key + (i,), st, None, depth + 1)
                                  for i, e in enumerate(ty.elems)])
        if k == "array":
            n = self.const_param(ty.len, subst or {})
            if n is None:
                return TopV(ty)
            if n <= 8:
                return ArrV("array", const_int(n), None,
                            tuple(self.mk_top(ty.elem, key + ("i", i), st, None, depth + 1)
                                  for i in range(n)))
            return ArrV("array", const_int(n), self.mk_top(ty.elem, key + ("e",), st, None, depth + 1))
        if k in ("ref", "ptr"):
            to = ty.to
            root = ("X", key)
            if to.k in ("slice", "str"):
                ln = IntV(Lin.var(st.fresh(("top", key, "slen"), 0, (1 << 63) - 1)))
                el = self.mk_top(to.elem, key + ("e",), st, None, depth + 1) if to.k == "slice" else TopV()
                st.store[root] = ArrV("array", ln, el)
                return RefV([(root, ())], ln)
            st.store[root] = self.mk_top(to, key + ("*",), st, None, depth + 1)
            return RefV([(root, ())])
        if k == "adt":
            name = ty.name
            if name in STD_ENUMS:
                if name == "std::option::Option":
                    return EnumV(name, {0: (), 1: (self.mk_top(ty.args[0], key + (1,), st, None, depth + 1),)})
                if name == "std::result::Result":
                    return EnumV(name, {0: (self.mk_top(ty.args[0], key + (0,), st, None, depth + 1),),
                                        1: (self.mk_top(ty.args[1], key + (1,), st, None, depth + 1),)})
                return EnumV(name, {0: (self.mk_top(ty.args[1], key + (0,), st, None, depth + 1),),
                                    1: (self.mk_top(ty.args[0], key + (1,), st, None, depth + 1),)})
            if name == "std::vec::Vec":
                ln = IntV(Lin.var(st.fresh(("top", key, "len"), 0, (1 << 63) - 1)))
                return ArrV("vec", ln, self.mk_top(ty.args[0], key + ("e",), st, None, depth + 1))
            if name == "std::io::Cursor":
                pos = IntV(Lin.var(st.fresh(("top", key, "pos"), 0, (1 << 64) - 1)))
                return CursorV(self.mk_top(ty.args[0], key + ("cin",), st, None, depth + 1), pos)
            if name == "std::boxed::Box":
                return BoxV(self.mk_top(ty.args[0], key + ("box",), st, None, depth + 1))
            adt = self.facts.adts.get(ty.defk)
            if adt is None:
                return OpaqueV(ty.s)
            asub = {}
            gi = 0
            params = [g for g in adt["generics"] if g["kind"] != "Lifetime"]
            for g, a in zip(params, ty.args):
                if isinstance(a, ConstArg):
                    v = self.const_param(a.val, subst or {})
                    if v is not None:
                        asub[g["name"]] = v
                else:
                    asub[g["name"]] = a
            if adt["kind"] == "Enum":
                vs = {}
                for v in adt["variants"]:
                    vs[v["index"]] = tuple(self.mk_top(Ty(f["ty"]), key + (v["index"], i), st, asub, depth + 1)
                                           for i, f in enumerate(v["fields"]))
                return EnumV(name, vs)
            v = adt["variants"][0]
            return StructV(name, [self.mk_top(Ty(f["ty"]), key + (i,), st, asub, depth + 1)
                                  for i, f in enumerate(v["fields"])])
        if k == "closure":
            return TopV(ty)
        if k == "never":
            return BOT
        return OpaqueV(ty.s)

    # ------------------------------------------------------------- paths
    def read_path(self, st, path):
        root, projs = path
        v = st.store.get(root)
        if v is None:
            return TopV() if root[0] == "X" else BOT
        return self.nav(st, v, projs)

    def nav(self, st, v, projs):
        for p in projs:
            v = self.nav1(st, v, p)
            if isinstance(v, (BotV,)):
                return v
        return v

    def nav1(self, st, v, p):
        k = p[0]
        if isinstance(v, (TopV, OpaqueV)):
            return TopV()
        if k == "f":
            if isinstance(v, (StructV, ClosureV)):
                return v.fields[p[1]] if p[1] < len(v.fields) else TopV()
            if isinstance(v, RefV):
                return v          # Box / Unique / NonNull wrappers are transparent
            if isinstance(v, BoxV):
                return v
            return TopV()
        if k == "v":
            if isinstance(v, EnumV):
                fs = v.variants.get(p[1])
                if fs is None:
                    return BOT
                return StructV(None, fs)
            return TopV()
        if k == "e":
            if isinstance(v, ArrV):
                if v.elems is not None:
                    return _smash(st, v.elems, ("smash", id(v) % 1000003))
                return v.elem
            return TopV()
        if k == "i":
            if isinstance(v, ArrV):
                if v.elems is not None:
                    return v.elems[p[1]] if p[1] < len(v.elems) else BOT
                return v.elem
            return TopV()
        if k == "box":
            if isinstance(v, BoxV):
                return v.inner
            return TopV()
        if k == "cin":
            return v.inner if isinstance(v, CursorV) else TopV()
        if k == "cpos":
            return v.pos if isinstance(v, CursorV) else TopV()
        if k == "sub":
            return v
        return TopV()

    def write_path(self, st, path, val, weak=False, key=None):
        root, projs = path
        if root[0] == "X" and root not in st.store:
            return
        old = st.store.get(root, BOT)
        if any(p[0] == "e" for p in projs):
            weak = True
        st.store[root] = self.upd(st, old, projs, val, weak, key or ("w", root))

    def upd(self, st, v, projs, val, weak, key):
        if not projs:
            if weak and not isinstance(v, BotV):
                return summarise(st, v, val, key)
            return val
        p = projs[0]
        rest = projs[1:]
        k = p[0]
        if isinstance(v, (TopV, OpaqueV)):
            return v
        if k == "f":
            if isinstance(v, StructV) and p[1] < len(v.fields):
                fs = list(v.fields)
                fs[p[1]] = self.upd(st, fs[p[1]], rest, val, weak, key + (p[1],))
                return StructV(v.name, fs)
            if isinstance(v, ClosureV) and p[1] < len(v.fields):
                fs = list(v.fields)
                fs[p[1]] = self.upd(st, fs[p[1]], rest, val, weak, key + (p[1],))
                return ClosureV(v.defk, fs)
            return v if not isinstance(v, BotV) else TopV()
        if k == "v":
            if isinstance(v, EnumV):
                fs = v.variants.get(p[1])
                if fs is None:
                    return v
                if rest and rest[0][0] == "f":
                    i = rest[0][1]
                    nf = list(fs)
                    if i < len(nf):
                        nf[i] = self.upd(st, nf[i], rest[1:], val, weak or len(v.variants) > 1 and False,
                                         key + (p[1], i))
                    vs = dict(v.variants)
                    vs[p[1]] = tuple(nf)
                    return EnumV(v.name, vs, v.guards)
                return v
            return v if not isinstance(v, BotV) else TopV()
        if k == "e":
            if isinstance(v, ArrV):
                if v.elems is not None:
                    ne = tuple(self.upd(st, e, rest, val, True, key + ("i", i)) for i, e in enumerate(v.elems))
                    return ArrV(v.kind, v.length, None, ne)
                return ArrV(v.kind, v.length, self.upd(st, v.elem, rest, val, True, key + ("e",)))
            return v
        if k == "i":
            if isinstance(v, ArrV):
                if v.elems is not None:
                    ne = list(v.elems)
                    if p[1] < len(ne):
                        ne[p[1]] = self.upd(st, ne[p[1]], rest, val, weak, key + ("i", p[1]))
                    return ArrV(v.kind, v.length, None, tuple(ne))
                return ArrV(v.kind, v.length, self.upd(st, v.elem, rest, val, True, key + ("e",)))
            return v
        if k == "box":
            if isinstance(v, BoxV):
                return BoxV(self.upd(st, v.inner, rest, val, weak, key + ("box",)))
            return v
        if k == "cin":
            if isinstance(v, CursorV):
                return CursorV(self.upd(st, v.inner, rest, val, weak, key + ("cin",)), v.pos)
            return v
        if k == "cpos":
            if isinstance(v, CursorV):
                return CursorV(v.inner, self.upd(st, v.pos, rest, val, weak, key + ("cpos",)))
            return v
        if k == "sub":
            return self.upd(st, v, rest, val, True, key)
        return v

    def eval_place(self, fr, st, place):
        """-> (list of paths, slen or None)."""
        paths = [(("L", fr.fid, place.local), ())]
        slen = None
        for p in place.proj:
            k = p[0]
            slen_next = None
            if k == "deref":
                np_ = []
                for path in paths:
                    v = self.read_path(st, path)
                    if isinstance(v, RefV):
                        np_.extend(v.paths)
                        if v.slen is not None:
                            slen_next = v.slen if len(paths) == 1 else None
                    elif isinstance(v, BoxV):
                        np_.append((path[0], path[1] + (("box",),)))
                    else:
                        np_.append((("X", ("deref", fr.fid, place.local)), ()))
                paths = np_
            elif k == "field":
                paths = [(r, pr + (("f", p[1]),)) for r, pr in paths]
            elif k == "downcast":
                paths = [(r, pr + (("v", p[1]),)) for r, pr in paths]
            elif k == "index":
                iv = self.read_path(st, (("L", fr.fid, p[1]), ()))
                c = st.const_of(iv.lin) if isinstance(iv, IntV) else None
                np_ = []
                for r, pr in paths:
                    v = self.read_path(st, (r, pr))
                    if c is not None and isinstance(v, ArrV) and v.elems is not None and ("sub",) not in pr:
                        np_.append((r, pr + (("i", c),)))
                    else:
                        np_.append((r, pr + (("e",),)))
                paths = np_
            elif k == "constindex":
                np_ = []
                for r, pr in paths:
                    v = self.read_path(st, (r, pr))
                    if not p[2] and isinstance(v, ArrV) and v.elems is not None and ("sub",) not in pr:
                        np_.append((r, pr + (("i", p[1]),)))
                    else:
                        np_.append((r, pr + (("e",),)))
                paths = np_
            elif k == "subslice":
                pass
            slen = slen_next
        return paths, slen

    def read_place(self, fr, st, place, site=None):
        paths, slen = self.eval_place(fr, st, place)
        v = BOT
        for i, path in enumerate(paths):
            x = self.read_path(st, path)
            v = x if i == 0 else summarise(st, v, x, ("rd", fr.fid, site, place.local))
        ty = place.ty
        if isinstance(v, (TopV, OpaqueV)) and ty.is_int():
            lo, hi = ty_range(ty)
            v = IntV(Lin.var(st.fresh(("rdtop", fr.fid, site, place.key()), lo, hi)))
        elif isinstance(v, TopV) and ty.k in ("adt", "tuple", "array") and not place.proj:
            pass
        if isinstance(v, IntV) and self.counter_fields and place.proj and place.proj[-1][0] == "field":
            # A-COUNTER: byte counters stay below 2^63
            pr = place.proj[-1]
            if (pr[4], pr[2]) in self.counter_fields:
                st.assume(Lin.const((1 << 63) - 1).sub(v.lin))
                self.assumed[(pr[4], pr[2])] += 1
        return v

    def write_place(self, fr, st, place, val, site=None):
        if isinstance(val, IntV) and val.rng is None and place.ty.is_int():
            val = IntV(val.lin, val.cond, ty_range(place.ty))
        paths, _ = self.eval_place(fr, st, place)
        weak = len(paths) != 1
        for path in paths:
            self.write_path(st, path, val, weak, ("w", fr.fid, site, place.local))

    # ------------------------------------------------------------- operands
    def eval_operand(self, fr, st, op, site=None):
        if op.k in ("copy", "move"):
            pl = op.place
            if op.k == "copy" and pl.ty.k == "adt" and pl.ty.name == "std::boxed::Box":
                paths, _ = self.eval_place(fr, st, pl)
                return RefV([(r, pr + (("box",),)) for r, pr in paths])
            return self.read_place(fr, st, pl, site)
        # constants
        ty = op.ty
        if op.uneval and op.uneval.get("promoted") is not None:
            r = self.eval_promoted(fr, st, "%s::promoted[%d]" % (op.uneval["def"], op.uneval["promoted"]))
            if r is not None:
                return r
        if ty.is_int():
            v = op.val
            if isinstance(v, bool):
                v = int(v)
            if isinstance(v, int):
                return const_int(v)
            u = op.uneval
            if u and "def" in u:
                args = []
                for a in u.get("args", []):
                    if a.get("k") == "const":
                        args.append(self.const_param(a["val"], fr.subst))
                    else:
                        args.append(None)
                r = self.facts.assoc_const(u["def"], args)
                if r is not None:
                    return const_int(r)
            if u and "tyconst" in u:
                r = self.const_param(u["tyconst"], fr.subst)
                if r is not None:
                    return const_int(r)
            lo, hi = ty_range(ty)
            return IntV(Lin.var(st.fresh(("cst", fr.fid, site, op.s), lo, hi)))
        if ty.k == "fndef":
            return FnV(ty.defk, ty.args)
        if ty.k == "tuple" and not ty.elems:
            return UNIT
        if isinstance(op.val, dict) and "bytes" in op.val:
            n = len(op.val["bytes"])
            root = ("K", op.s[:40], n)
            if root not in st.store:
                st.store[root] = ArrV("array", const_int(n), IntV(Lin.var(st.fresh(("kb", root), 0, 255))))
            return RefV([(root, ())], const_int(n))
        if ty.k == "ref" and ty.to.k == "array":
            n = self.const_param(ty.to.len, fr.subst)
            root = ("K", op.s[:40], n)
            if root not in st.store and n is not None:
                st.store[root] = ArrV("array", const_int(n), IntV(Lin.var(st.fresh(("kb", root), 0, 255))))
            return RefV([(root, ())])
        if isinstance(op.val, dict) and op.val.get("zst"):
            return UNIT
        if ty.k == "adt":
            adt = self.facts.adts.get(ty.defk)
            if adt is not None and adt["kind"] == "Struct" and not adt["variants"][0]["fields"]:
                return StructV(ty.name, ())
        return TopV(ty)

    def eval_promoted(self, fr, st, defk):
        b = self.facts.by_def.get(defk)
        if b is None:
            return None
        pfid = fr.fid + ((defk,),)
        pfr = Frame(b, fr.subst, pfid, self.cfg(b), {}, fr.depth, (), fr.run, fr.thr)
        bb = 0
        for _ in range(len(b.blocks) + 1):
            blk = b.blocks[bb]
            for i, s in enumerate(blk.stmts):
                if s.k == "assign":
                    v = self.eval_rvalue(pfr, st, s.rv, s.place.ty, (pfid, bb, i))
                    self.write_place(pfr, st, s.place, v, (bb, i))
            if blk.term.k == "return":
                return st.store.get(("L", pfid, 0))
            if blk.term.k == "goto":
                bb = blk.term.target
                continue
            return None
        return None

    # ------------------------------------------------------------- ints
    def viv(self, st, v):
        """Interval of an integer value, clamped to its declared type range."""
        lo, hi = st.iv(v.lin)
        if v.rng is not None:
            return (max(lo, v.rng[0]), min(hi, v.rng[1]))
        return (lo, hi)

    def as_int(self, st, v, ty, key):
        if isinstance(v, IntV):
            return v
        lo, hi = ty_range(ty) if ty is not None and ty.is_int() else (-INF, INF)
        return IntV(Lin.var(st.fresh(("asint", key), lo, hi)))

    def fresh_int(self, st, key, lo, hi, rng=None):
        return Lin.var(st.fresh(key, lo, hi, rng))

    def fit(self, st, lin, ty, key):
        """Value of mathematical form lin stored in integer type ty (wraps)."""
        lo, hi = st.iv(lin)
        tl, th = ty_range(ty)
        if lo >= tl and hi <= th:
            return lin
        return self.fresh_int(st, key, tl, th)

    def binop(self, fr, st, op, a, b, ty_a, dest_ty, key):
        """-> value.  a, b are values; ty_a the operand type."""
        checked = op.endswith("WithOverflow")
        base = op[:-12] if checked else op
        base = base.replace("Unchecked", "")
        if base in ("Eq", "Ne", "Lt", "Le", "Gt", "Ge"):
            if not (isinstance(a, IntV) and isinstance(b, IntV)):
                return IntV(self.fresh_int(st, key, 0, 1))
            la, lb = a.lin, b.lin
            cond = (base.lower(), la, lb)
            if base in ("Eq", "Ne"):
                for x, y in ((a, b), (b, a)):
                    if x.cond is not None and x.cond[0] == "discr":
                        cy = st.const_of(y.lin)
                        if cy is not None:
                            cond = ("deq", x.cond[1], x.cond[2], cy, base == "Ne", la, lb)
                            break
            t = self.prove_cond(st, cond, True)
            if t:
                return IntV(Lin.const(1), cond)
            if self.prove_cond(st, cond, False):
                return IntV(Lin.const(0), cond)
            return IntV(self.fresh_int(st, key, 0, 1), cond)
        if not (isinstance(a, IntV) and isinstance(b, IntV)):
            if base in ("BitAnd", "BitOr", "BitXor") and ty_a is not None and ty_a.k == "bool":
                return IntV(self.fresh_int(st, key, 0, 1))
            if ty_a is not None and ty_a.is_int():
                a = self.as_int(st, a, ty_a, key + ("a",))
                b = self.as_int(st, b, ty_a if base not in ("Shl", "Shr") else None, key + ("b",))
            else:
                return TopV()
        la, lb = a.lin, b.lin
        tl, th = ty_range(ty_a) if ty_a is not None else (-INF, INF)
        res = None
        if base == "Add":
            res = la.add(lb)
        elif base == "Sub":
            res = la.sub(lb)
        elif base == "Mul":
            ca, cb = st.const_of(la), st.const_of(lb)
            if cb is not None:
                res = la.scale(cb)
            elif ca is not None:
                res = lb.scale(ca)
            else:
                (al, ah), (bl, bh) = self.viv(st, a), self.viv(st, b)
                prods = [x * y for x in (al, ah) for y in (bl, bh)
                         if not (x in (INF, -INF) and y == 0) and not (y in (INF, -INF) and x == 0)]
                lo, hi = (min(prods), max(prods)) if prods else (-INF, INF)
                m = st.fresh(key + ("mul",), lo, hi, (-INF, INF))
                res = Lin.var(m)
                st.defs[m] = ("mul", la, lb)
                # lemma: a*b <= a*K <= Y + c  when  b <= K and a >= 0 and  Y - K*a + c >= 0
                if al >= 0 and bl >= 0:
                    for (x, xo, xoh) in ((la, lb, bh), (lb, la, ah)):
                        sg = x.single()
                        if sg is None or sg[1] != 1 or sg[2] != 0:
                            continue
                        xa = sg[0]
                        for f in list(st.facts):
                            kx = f.d.get(xa)
                            if kx is not None and kx < 0 and xoh <= -kx:
                                rest = Lin({q: v for q, v in f.d.items() if q != xa}, f.c)
                                st.assume(rest.sub(res))
        elif base in ("Div", "Rem"):
            cb = st.const_of(lb)
            (al, ah) = self.viv(st, a)
            if cb is not None and cb > 0 and al >= 0:
                q = st.fresh(key + ("q",), al // cb, ah // cb if ah != INF else INF, (-INF, INF))
                r = st.fresh(key + ("r",), 0, min(cb - 1, ah), (-INF, INF))
                st.assume_eq(la.sub(Lin({q: cb, r: 1}, 0)))
                res = Lin.var(q) if base == "Div" else Lin.var(r)
            elif base == "Rem" and al >= 0:
                bl, bh = self.viv(st, b)
                if bl >= 0:
                    r = st.fresh(key + ("r",), 0, max(0, min(ah, bh - 1 if bh != INF else INF)), (-INF, INF))
                    res = Lin.var(r)
                    st.assume(lb.sub(res).addc(-1)) if bl >= 1 else None
                    st.assume(la.sub(res))
                else:
                    res = self.fresh_int(st, key, tl, th)
            elif base == "Div" and al >= 0:
                bl, bh = self.viv(st, b)
                if bl >= 1:
                    q = st.fresh(key + ("q",), al // bh if bh != INF else 0, ah // bl if ah != INF else INF,
                                 (-INF, INF))
                    res = Lin.var(q)
                    st.assume(la.sub(res))
                else:
                    res = self.fresh_int(st, key, tl, th)
            else:
                res = self.fresh_int(st, key, tl, th)
            return IntV(res)
        elif base in ("BitAnd", "BitOr", "BitXor"):
            if ty_a is not None and ty_a.k == "bool":
                ca, cb = st.const_of(la), st.const_of(lb)
                if ca is not None and cb is not None:
                    v = {"BitAnd": ca & cb, "BitOr": ca | cb, "BitXor": ca ^ cb}[base]
                    return const_int(v)
                if base == "BitAnd" and (ca == 0 or cb == 0):
                    return const_int(0)
                if base == "BitAnd" and ca == 1:
                    return b
                if base == "BitAnd" and cb == 1:
                    return a
                if base == "BitOr" and (ca == 1 or cb == 1):
                    return const_int(1)
                return IntV(self.fresh_int(st, key, 0, 1))
            return IntV(self.bitop(st, base, a, b, tl, th, key))
        elif base == "Shl":
            (al, ah) = self.viv(st, a)
            kb = st.const_of(lb)
            if kb is not None and 0 <= kb < 128 and al >= 0 and ah * (1 << kb) <= th:
                res = la.scale(1 << kb)
            else:
                bl, bh = self.viv(st, b)
                if al >= 0 and 0 <= bl and bh < 128 and ah * (1 << bh) <= th:
                    res = self.fresh_int(st, key, al << bl, ah << bh, (tl, th))
                    st.defs[next(iter(res.d))] = ("shl", la, lb)
                else:
                    res = self.fresh_int(st, key, tl, th)
            return IntV(res)
        elif base == "Shr":
            (al, ah) = self.viv(st, a)
            kb = st.const_of(lb)
            if kb is not None and 0 <= kb < 128 and al >= 0:
                if kb == 0:
                    return IntV(la)
                q = st.fresh(key + ("shr",), al >> kb, ah >> kb if ah != INF else INF, (tl, th))
                res = Lin.var(q)
                st.assume(la.sub(res.scale(1 << kb)))
                st.assume(res.scale(1 << kb).addc((1 << kb) - 1).sub(la))
            else:
                bl, bh = self.viv(st, b)
                if al >= 0 and 0 <= bl and bh < 128:
                    res = self.fresh_int(st, key, al >> bh, ah >> bl if ah != INF else INF, (tl, th))
                    st.defs[next(iter(res.d))] = ("shr", la, lb)
                    st.assume(la.sub(res))
                else:
                    res = self.fresh_int(st, key, tl, th)
            return IntV(res)
        else:
            return IntV(self.fresh_int(st, key, tl, th)) if ty_a is not None and ty_a.is_int() else TopV()
        if checked:
            lo, hi = st.iv(res)
            if lo >= tl and hi <= th:
                flag = const_int(0)
            elif self.prove(st, res.addc(-tl)) and self.prove(st, Lin.const(th).sub(res)):
                flag = const_int(0)
            elif hi < tl or lo > th:
                flag = const_int(1)
            else:
                flag = IntV(self.fresh_int(st, key + ("ovf",), 0, 1), ("outrange", res, tl, th))
            return StructV(None, (IntV(res), flag))
        return IntV(self.fit(st, res, ty_a, key + ("wrap",)) if ty_a is not None else res)

    def bitop(self, st, base, a, b, tl, th, key):
        la, lb = a.lin, b.lin
        (al, ah), (bl, bh) = self.viv(st, a), self.viv(st, b)
        if al < 0 or bl < 0:
            return self.fresh_int(st, key, tl, th)
        ca, cb = st.const_of(la), st.const_of(lb)
        if ca is not None and cb is not None:
            return Lin.const({"BitAnd": ca & cb, "BitOr": ca | cb, "BitXor": ca ^ cb}[base])
        if base == "BitAnd":
            for (x, xc, y, yh) in ((la, ca, lb, bh), (lb, cb, la, ah)):
                if xc is not None:
                    # mask
                    if (xc & (xc + 1)) == 0 and yh <= xc:
                        return y
                    if (xc & (xc + 1)) == 0 and yh != INF:
                        # low mask: y = (xc+1)*q + r
                        q = st.fresh(key + ("q",), 0, yh // (xc + 1), (-INF, INF))
                        r = st.fresh(key + ("r",), 0, xc, (-INF, INF))
                        st.assume_eq(y.sub(Lin({q: xc + 1, r: 1}, 0)))
                        st.defs[r] = ("and", x, y)
                        return Lin.var(r)
            hi = min(ah, bh)
            r = self.fresh_int(st, key, 0, hi, (tl, th))
            st.defs[next(iter(r.d))] = ("and", la, lb)
            st.assume(la.sub(r))
            st.assume(lb.sub(r))
            return r
        # Or / Xor: disjoint bit ranges => plain addition
        for (x, y, yh) in ((la, lb, bh), (lb, la, ah)):
            s = x.pow2_div()
            if yh != INF and s < 64 and yh < (1 << s) or (s >= 64 and x.is_const() and x.c == 0):
                return x.add(y)
        def bl_(v):
            return 0 if v == 0 else (int(v).bit_length() if v != INF else None)
        na, nb = bl_(ah), bl_(bh)
        if na is None or nb is None:
            return self.fresh_int(st, key, tl, th)
        hi = (1 << max(na, nb)) - 1
        r = self.fresh_int(st, key, 0, min(hi, th), (tl, th))
        st.defs[next(iter(r.d))] = ("or" if base == "BitOr" else "xor", la, lb)
        if base == "BitOr":
            st.assume(r.sub(la))
            st.assume(r.sub(lb))
            st.assume(la.add(lb).sub(r))
        else:
            # |a ^ b - a| <= b'  where b' = 2^bitlen(b)-1
            for (x, m) in ((la, (1 << nb) - 1), (lb, (1 << na) - 1)):
                st.assume(r.sub(x).addc(m))
                st.assume(x.sub(r).addc(m))
        return r

    # ------------------------------------------------------------- conditions
    def prove(self, st, lin):
        return st.prove(lin)

    def cond_lins(self, cond, truth):
        """Linear facts (>= 0) equivalent to cond == truth, or None when not
        expressible as a conjunction; second result: disequalities."""
        op = cond[0]
        if op == "deq":
            eq = truth != cond[4]
            a, b = cond[5], cond[6]
            if eq:
                return ([a.sub(b), b.sub(a)], [])
            return ([], [a.sub(b)])
        if op == "not":
            return self.cond_lins(cond[1], not truth)
        if op in ("lt", "le", "gt", "ge", "eq", "ne"):
            a, b = cond[1], cond[2]
            if op == "gt":
                op, a, b = "lt", b, a
            elif op == "ge":
                op, a, b = "le", b, a
            if op == "lt":
                return ([b.sub(a).addc(-1)], []) if truth else ([a.sub(b)], [])
            if op == "le":
                return ([b.sub(a)], []) if truth else ([a.sub(b).addc(-1)], [])
            if (op == "eq") == truth:
                return ([a.sub(b), b.sub(a)], [])
            return ([], [a.sub(b)])
        if op == "outrange":
            _, lin, lo, hi = cond
            if not truth:
                return ([lin.addc(-lo), Lin.const(hi).sub(lin)], [])
            return None
        return None

    def prove_cond(self, st, cond, truth, cases=False):
        r = self.cond_lins(cond, truth)
        if r is None:
            return False
        ge, ne = r
        for l in ge:
            if not (st.prove(l) or (cases and st.prove_cases(l))):
                return False
        for l in ne:
            if not (st.prove(l.addc(-1)) or st.prove(l.neg().addc(-1))):
                return False
        return True

    def assume_cond(self, st, cond, truth):
        if cond[0] == "deq":
            eq = truth != cond[4]
            idx = self.idx_of_discr(cond[2], cond[3])
            paths = list(cond[1])
            if idx is not None:
                if eq:
                    if not self.restrict_enum(st, paths, {idx}):
                        return False
                else:
                    vals = [self.read_path(st, p) for p in paths]
                    keep = set()
                    for x in vals:
                        if isinstance(x, EnumV):
                            keep |= set(x.variants) - {idx}
                        else:
                            keep = None
                            break
                    if keep is not None and not (keep and self.restrict_enum(st, paths, keep)):
                        return False
        r = self.cond_lins(cond, truth)
        if r is None:
            return True
        ge, ne = r
        for l in ge:
            if not st.assume(l):
                return False
        for l in ne:
            if not st.assume_ne(l):
                return False
        return True

    def assume_bool(self, st, v, truth):
        """Assume boolean value v == truth. False if infeasible."""
        if not isinstance(v, IntV):
            return True
        if not st.assume_eq(v.lin.addc(-1 if truth else 0)):
            return False
        if v.cond is not None and v.cond[0] != "discr":
            return self.assume_cond(st, v.cond, truth)
        return True

    # ------------------------------------------------------------- enums
    def discr_val(self, name, idx):
        m = self.adt_discr.get(name)
        if m is None:
            return idx
        return m.get(idx, idx)

    def idx_of_discr(self, name, val):
        m = self.adt_discr.get(name)
        if m is None:
            return val
        for i, d in m.items():
            if d == val:
                return i
        return None

    def restrict_enum(self, st, paths, keep):
        """Restrict the enum at paths to variant indices in `keep`.
        Returns False if infeasible."""
        vals = [self.read_path(st, p) for p in paths]
        feasible = False
        for v in vals:
            if isinstance(v, EnumV):
                if any(i in v.variants for i in keep):
                    feasible = True
            else:
                feasible = True
        if not feasible:
            return False
        if len(paths) == 1 and isinstance(vals[0], EnumV):
            v = vals[0]
            nv = {i: f for i, f in v.variants.items() if i in keep}
            if len(nv) != len(v.variants):
                ng = {i: g for i, g in v.guards.items() if i in nv}
                self.write_path(st, paths[0], EnumV(v.name, nv, ng), False)
            if len(nv) == 1:
                (i,) = nv.keys()
                for g in v.guards.get(i, ()):
                    if not st.assume(g):
                        return False
        return True

    # ------------------------------------------------------------- obligations
    def record(self, fr, bb, idx, kind, desc, span, verdict, how=""):
        key = (bb, idx, fr.ictx)
        fr.run.obls[key] = Obligation(fr.body.name, bb, kind, desc, span, verdict, how, fr.fid)

    # ------------------------------------------------------------- analysis
    def analyze(self, body, subst, fid, st, args, depth=0, site=None):
        """Analyse one invocation.  Returns (ret value, out state) or (BOT, None)
        if the function cannot return."""
        if depth > self.max_depth:
            raise AnalysisError("call depth exceeded (recursion?) at %s" % body.name)
        if body.defk in self.callstack:
            raise AnalysisError("recursion introduced — analyser needs a fixpoint it does not have: %s"
                                % body.name)
        self.callstack.append(body.defk)
        try:
            key0, cst, cargs, rn = canonicalize(st, args, self.read_path, value_refs, value_atoms)
            ckey = (body.defk, tuple(sorted((k, v if isinstance(v, int) else v.s) for k, v in subst.items())), key0)
            run = self.cache.get(ckey)
            if run is None:
                idx = len(self.cache)
                run = Run(body.name, idx)
                run.defk = body.defk
                self.cache[ckey] = run
                cfid = (("canon", body.defk, idx),)
                saved = {c: _ATOM_RANGE.get(c) for c in rn.am.values()}
                for x, c in rn.am.items():
                    pass
                self.runs_stack.append(run)
                _t0 = time.time()
                try:
                    rv, out = self._analyze(body, subst, cfid, cst, cargs, depth, run)
                finally:
                    self.runs_stack.pop()
                    self.prof[body.name] = self.prof.get(body.name, 0.0) + (time.time() - _t0)
                    self.profn[body.name] = max(self.profn.get(body.name, 0), len(cst.atoms) + len(cst.facts))
                run.ret, run.out = rv, out
                for c, r in saved.items():
                    if r is not None:
                        _ATOM_RANGE[c] = r
            else:
                self.stats["memo_hit"] += 1
            if self.runs_stack:
                self.runs_stack[-1].children[site if site is not None else fid[-1]] = run
            else:
                self.roots_runs.append(run)
            if run.out is None:
                return BOT, None
            sid = self.site_ids.get(fid)
            if sid is None:
                sid = len(self.site_ids)
                self.site_ids[fid] = sid
            rv, out = instantiate(run.out, run.ret, rn, sid)
            m = st.copy()
            if out.created:
                cr = out.created
                m.facts = {f for f in m.facts if f.d.keys().isdisjoint(cr)}
                for a in cr:
                    m.atoms.pop(a, None)
            m.atoms.update(out.atoms)
            m.facts |= out.facts
            m.created |= out.created
            if out.created:
                for a in out.created:
                    m.defs.pop(a, None)
            m.defs.update(out.defs)
            for r, v in out.store.items():
                if r[0] == "P":
                    cur = self.read_path(m, (r[1], r[2]))
                    if cur is v:
                        continue
                    self.write_path(m, (r[1], r[2]), v, False, ("wb", sid, r[1], r[2]))
                elif m.store.get(r) is v:
                    continue
                else:
                    m.store[r] = v
            if len(m.atoms) > 1500:
                gc_state(m, [rv] + list(args))
            return rv, m
        finally:
            self.callstack.pop()

    def debug_diff(self, body, node, n, a, b):
        import sys
        msgs = []
        nroots = 0
        for r in sorted(set(a.store) | set(b.store), key=repr):
            va, vb = a.store.get(r), b.store.get(r)
            if va != vb:
                nroots += 1
                if len(msgs) < 4:
                    msgs.append("  root %s: %s -> %s" % (repr(r)[-60:], repr(va)[:150], repr(vb)[:150]))
        used = set()
        for v in b.store.values():
            value_atoms(v, used)
        na = 0
        for x in sorted(used):
            if a.aiv(x) != b.aiv(x):
                na += 1
                if na <= 6:
                    msgs.append("  atom a%d %s: %r -> %r" % (x, repr(atom_key(x))[-90:], a.aiv(x), b.aiv(x)))
        sys.stderr.write("HEAD %s %r visit %d roots-changed %d atoms-changed %d facts -%d +%d\n%s\n" % (
            body.name[-30:], node, n, nroots, na, len(a.facts - b.facts), len(b.facts - a.facts), "\n".join(msgs)))

    def localize(self, st, args):
        """The part of the state a callee can reach from its arguments."""
        roots = set()
        atoms = set()
        work = list(args)
        seen_vals = 0
        while work:
            v = work.pop()
            for r in value_refs(v):
                root = r[0]
                if root not in roots:
                    roots.add(root)
                    x = st.store.get(root)
                    if x is not None:
                        work.append(x)
            value_atoms(v, atoms)
        store = {r: st.store[r] for r in roots if r in st.store}
        ats = {a: st.atoms[a] for a in atoms if a in st.atoms}
        facts = {f for f in st.facts if all(a in atoms for a in f.d)}
        return State(store, ats, facts, set())

    def _analyze(self, body, subst, fid, st0, args, depth, run):
        self.stats["analyze"] += 1
        cfg = self.cfg(body)
        fr = Frame(body, subst, fid, cfg, self.unrollable(body), depth, (), run, self.thresholds)
        st = st0.copy()
        for i, a in enumerate(args):
            st.store[("L", fid, i + 1)] = a
        rpo = {b: i for i, b in enumerate(cfg._rpo())}
        heads = cfg.loop_headers()
        edge_out = {}          # (src_node, dst_node) -> State
        preds = {}             # node -> set of src nodes
        last_in = {}
        visits = Counter()
        entry = (0, None)
        edge_out[(None, entry)] = st
        preds[entry] = {None}
        heap = [(0, 0, entry)]
        queued = {entry}
        seq = 0
        rets = []
        ret_nodes = {}
        while heap:
            _, _, node = heapq.heappop(heap)
            queued.discard(node)
            bb, k = node
            ins = [edge_out[(p, node)] for p in preds.get(node, ()) if (p, node) in edge_out]
            if not ins:
                continue
            if body.blocks[bb].term.k == "return" and len(ins) > 1 and not body.blocks[bb].stmts:
                # keep the exit classes apart: one return state per incoming edge
                for key_ in [x for x in ret_nodes if isinstance(x, tuple) and len(x) == 3 and x[0] == "edge" and x[1] == node]:
                    del ret_nodes[key_]
                for p_ in sorted((p for p in preds.get(node, ()) if (p, node) in edge_out), key=str):
                    ret_nodes[("edge", node, p_)] = edge_out[(p_, node)]
                run.visited.add(bb)
                continue
            cur = ins[0]
            nkey = (fid, node)
            for j, s2 in enumerate(ins[1:]):
                cur = Joiner((nkey, j), cur, s2, False, fr.thr, bb in heads).run()
            visits[node] += 1
            if bb in heads and (k is None or k == "w"):
                prev = last_in.get(node)
                if prev is not None:
                    widen = True
                    cur0 = cur
                    cur = Joiner((nkey, "h"), prev, cur, widen, fr.thr, True).run()
                    if self.debug_heads:
                        used = set()
                        for v in cur.store.values():
                            value_atoms(v, used)
                        for x in used:
                            if x in prev.atoms:
                                o, n = prev.aiv(x), cur.aiv(x)
                                if n[0] > o[0] or n[1] < o[1]:
                                    import sys
                                    sys.stderr.write("SHRINK a%d %s prev %r cur0 %r new %r\n" % (x, repr(atom_key(x))[-80:], o, cur0.aiv(x) if x in cur0.atoms else None, n))
                                    break
                    if visits[node] > MAX_VISITS:
                        cur.facts = set()
            if len(ins) > 1 or bb in heads:
                gc_state(cur)
            prev = last_in.get(node)
            if prev is not None and states_equal(prev, cur):
                continue
            if self.debug_heads and bb in heads and prev is not None and self.debug_heads in body.name:
                self.debug_diff(body, node, visits[node], prev, cur)
            if visits[node] > MAX_VISITS * 2:
                raise AnalysisError("no convergence in %s bb%d" % (body.name, bb))
            last_in[node] = cur
            run.visited.add(bb)
            if k == "w":
                run.wloops.add(fr.unroll.get(bb))
            outs = self.exec_block(fr, cur.copy(), bb, k)
            for (tbb, tst) in outs:
                if tbb == "return":
                    ret_nodes[node] = tst
                    continue
                tnode = self.next_node(fr, bb, k, tbb)
                edge_out[(node, tnode)] = tst
                preds.setdefault(tnode, set()).add(node)
                if tnode not in queued:
                    queued.add(tnode)
                    seq += 1
                    heapq.heappush(heap, (rpo.get(tbb, 1 << 30), seq, tnode))
            # edges that became infeasible must be withdrawn
            live = {self.next_node(fr, bb, k, t) for t, _ in outs if t != "return"}
            for (p, n) in list(edge_out):
                if p == node and n not in live:
                    del edge_out[(p, n)]
                    if n not in queued:
                        queued.add(n)
                        seq += 1
                        heapq.heappush(heap, (rpo.get(n[0], 1 << 30), seq, n))
            if not any(t == "return" for t, _ in outs):
                ret_nodes.pop(node, None)
        rets = [s for _, s in sorted(ret_nodes.items(), key=lambda x: str(x[0]))]
        if not rets:
            return BOT, None
        # join return states per exit class first (Ok / Err, Some / None), then
        # across classes; facts that hold in one class only become guards of
        # that variant of the returned value
        R0 = ("L", fid, 0)
        classes = {}
        for s in rets:
            v = s.store.get(R0)
            k = tuple(sorted(v.variants)) if isinstance(v, EnumV) else None
            classes.setdefault(k, []).append(s)
        parts = []
        for k in sorted(classes, key=str):
            o = classes[k][0]
            for j, s2 in enumerate(classes[k][1:]):
                o = Joiner(((fid, "retc", k), j), o, s2, False, fr.thr).run()
            parts.append((k, o))
        out = parts[0][1]
        extra_guards = {}
        for j, (k2, s2) in enumerate(parts[1:]):
            jn = Joiner(((fid, "ret"), j), out, s2, False, fr.thr)
            k1 = parts[0][0] if j == 0 else None
            out = jn.run()
            if k1 is not None and len(k1) == 1 and jn.only1:
                extra_guards.setdefault(k1[0], []).extend(jn.only1)
            if k2 is not None and len(k2) == 1 and jn.only2:
                extra_guards.setdefault(k2[0], []).extend(jn.only2)
        rv = out.store.get(R0, UNIT)
        if extra_guards and isinstance(rv, EnumV):
            gs = dict(rv.guards)
            for vi, lst in extra_guards.items():
                if vi in rv.variants:
                    gs[vi] = tuple(gs.get(vi, ())) + tuple(lst[:12])
            rv = EnumV(rv.name, rv.variants, gs)
            out.store[R0] = rv
        # drop the callee's locals
        for r in [r for r in out.store if r[0] == "L" and r[1] == fid]:
            del out.store[r]
        # drop roots created by the callee that nothing returned can reach
        keep = set()
        work = [rv]
        for r, v in out.store.items():
            if len(r) > 1 and r[1] == "canon":
                keep.add(r)
                work.append(v)
        while work:
            v = work.pop()
            for p in value_refs(v):
                if p[0] not in keep:
                    keep.add(p[0])
                    x = out.store.get(p[0])
                    if x is not None:
                        work.append(x)
        for r in [r for r in out.store if r not in keep]:
            del out.store[r]
        gc_state(out, [rv])
        for ob in self.observers:
            ob.on_return(self, fr, rv, out)
        return rv, out

    def next_node(self, fr, bb, k, tbb):
        h_src = fr.unroll.get(bb)
        h_dst = fr.unroll.get(tbb)
        if h_dst is None:
            return (tbb, None)
        if h_src != h_dst:
            return (tbb, 0)        # entering the loop
        if tbb == h_dst and fr.cfg.dominates(tbb, bb):
            # back edge
            if k == "w":
                return (tbb, "w")
            return (tbb, k + 1 if k + 1 < UNROLL_K else "w")
        return (tbb, k)

    # ------------------------------------------------------------- blocks
    def exec_block(self, fr, st, bb, k):
        blk = fr.body.blocks[bb]
        fr.ictx = k
        if self.debug_bb and self.debug_bb[0] in fr.body.name and bb in self.debug_bb[1]:
            import sys
            sys.stderr.write("STATE %s bb%d k=%r run=%d\n" % (fr.body.name[-40:], bb, k, fr.run.idx))
            for r, v in sorted(st.store.items(), key=repr):
                sys.stderr.write("   %s = %s\n" % (repr(r)[-40:], repr(v)[:300]))
            used = set()
            for v in st.store.values():
                value_atoms(v, used)
            sys.stderr.write("   atoms %s\n" % ", ".join("a%d:%r" % (a, st.aiv(a)) for a in sorted(used))[:1500])
            sys.stderr.write("   facts %s\n" % "; ".join(repr(f) for f in st.facts)[:1500])
        for i, s in enumerate(blk.stmts):
            if s.k == "assign":
                v = self.eval_rvalue(fr, st, s.rv, s.place.ty, (fr.fid, bb, i, k))
                if isinstance(v, BotV) and s.rv.k != "use":
                    pass
                if s.place.local == 0 and not s.place.proj and self.observers:
                    for ob in self.observers:
                        h = getattr(ob, "on_ret_assign", None)
                        if h is not None:
                            h(self, fr, bb, v, st)
                self.write_place(fr, st, s.place, v, (bb, i))
            elif s.k == "setdiscr":
                pass
        return self.exec_term(fr, st, bb, blk.term, k)

    def eval_rvalue(self, fr, st, rv, dty, key):
        k = rv.k
        if k == "use":
            return self.eval_operand(fr, st, rv.op, key)
        if k == "binop":
            a = self.eval_operand(fr, st, rv.a, key + ("a",))
            b = self.eval_operand(fr, st, rv.b, key + ("b",))
            return self.binop(fr, st, rv.binop, a, b, rv.a.ty, dty, ("bin",) + key)
        if k == "unop":
            a = self.eval_operand(fr, st, rv.a, key)
            if rv.unop == "Not":
                if isinstance(a, IntV):
                    if rv.a.ty.k == "bool":
                        return IntV(Lin.const(1).sub(a.lin), ("not", a.cond) if a.cond else None)
                    tl, th = ty_range(rv.a.ty)
                    if tl == 0:
                        return IntV(Lin.const(th).sub(a.lin))
                return self.as_int(st, TopV(), dty, key)
            if rv.unop == "Neg":
                if isinstance(a, IntV):
                    return IntV(self.fit(st, a.lin.neg(), dty, ("neg",) + key))
                return TopV()
            if rv.unop == "PtrMetadata":
                if isinstance(a, RefV):
                    if a.slen is not None:
                        return a.slen
                    if len(a.paths) == 1:
                        v = self.read_path(st, next(iter(a.paths)))
                        if isinstance(v, ArrV):
                            return v.length
                return IntV(self.fresh_int(st, ("meta",) + key, 0, (1 << 63) - 1))
            return TopV()
        if k == "ref" or k == "rawptr":
            paths, slen = self.eval_place(fr, st, rv.place)
            pty = rv.place.ty
            if pty.k in ("slice", "str"):
                return RefV(paths, slen if slen is not None else
                            IntV(self.fresh_int(st, ("slen",) + key, 0, (1 << 63) - 1)))
            return RefV(paths)
        if k == "cast":
            v = self.eval_operand(fr, st, rv.op, key)
            ck = rv.cast_kind
            if ck == "IntToInt":
                if isinstance(v, IntV):
                    lin = self.fit(st, v.lin, rv.ty, ("cast",) + key)
                    return IntV(lin, v.cond if lin is v.lin else None)
                return self.as_int(st, v, rv.ty, ("cast",) + key)
            if ck.startswith("PointerCoercion(Unsize"):
                if isinstance(v, RefV) and v.slen is None:
                    sty = rv.op.ty
                    inner = sty.to if sty.k in ("ref", "ptr") else None
                    if inner is not None and inner.k == "array":
                        n = self.const_param(inner.len, fr.subst)
                        if n is not None:
                            return RefV(v.paths, const_int(n))
                    if len(v.paths) == 1:
                        t = self.read_path(st, next(iter(v.paths)))
                        if isinstance(t, ArrV):
                            return RefV(v.paths, t.length)
                return v
            return v
        if k == "discriminant":
            paths, _ = self.eval_place(fr, st, rv.place)
            vs = [self.read_path(st, p) for p in paths]
            name = rv.place.ty.name if rv.place.ty.k == "adt" else None
            cond = ("discr", tuple(paths), name)
            if len(vs) == 1 and isinstance(vs[0], EnumV) and len(vs[0].variants) == 1:
                (i,) = vs[0].variants.keys()
                return IntV(Lin.const(self.discr_val(vs[0].name, i)), cond)
            lo, hi = ty_range(dty)
            ds = []
            for v in vs:
                if isinstance(v, EnumV):
                    ds.extend(self.discr_val(v.name, i) for i in v.variants)
                else:
                    ds = None
                    break
            if ds:
                lo, hi = min(ds), max(ds)
            elif name in self.adt_discr:
                dd = list(self.adt_discr[name].values())
                lo, hi = min(dd), max(dd)
            elif name in STD_ENUMS:
                lo, hi = 0, 1
            return IntV(self.fresh_int(st, ("discr",) + key, lo, hi), cond)
        if k == "aggregate":
            ops = [self.eval_operand(fr, st, o, key + (i,)) for i, o in enumerate(rv.ops)]
            if rv.agg == "tuple":
                return StructV(None, ops)
            if rv.agg == "array":
                n = len(ops)
                if rv.ty is not None and rv.ty.is_int():
                    er = ty_range(rv.ty)
                    ops = [IntV(o.lin, o.cond, er) if isinstance(o, IntV) and o.rng is None else o for o in ops]
                if n <= 8:
                    return ArrV("array", const_int(n), None, tuple(ops))
                return ArrV("array", const_int(n), _smash(st, ops, ("agg",) + key))
            if rv.agg == "adt":
                adt = self.facts.adts.get(rv.adt)
                if adt is not None:
                    fl = adt["variants"][rv.variant]["fields"] if rv.variant < len(adt["variants"]) else []
                    for i, f in enumerate(fl):
                        if i < len(ops) and isinstance(ops[i], IntV) and ops[i].rng is None:
                            fk = f["ty"].get("k")
                            if fk in ("uint", "int", "bool", "char"):
                                ops[i] = IntV(ops[i].lin, ops[i].cond, ty_range(Ty(f["ty"])))
                is_enum = (adt is not None and adt["kind"] == "Enum") or rv.adt_name in STD_ENUMS
                if is_enum:
                    return EnumV(rv.adt_name, {rv.variant: tuple(ops)})
                return StructV(rv.adt_name, ops)
            if rv.agg == "closure":
                return ClosureV(rv.closure, ops)
            return TopV()
        if k == "repeat":
            v = self.eval_operand(fr, st, rv.op, key)
            if isinstance(v, IntV) and v.rng is None and dty is not None and dty.k == "array" and dty.elem.is_int():
                v = IntV(v.lin, v.cond, ty_range(dty.elem))
            n = self.const_param(rv.count, fr.subst)
            if n is None:
                return ArrV("array", IntV(self.fresh_int(st, ("rep",) + key, 0, (1 << 63) - 1)), v)
            if n <= 8:
                return ArrV("array", const_int(n), None, tuple([v] * n))
            return ArrV("array", const_int(n), v)
        return TopV()

    # ------------------------------------------------------------- terminators
    def exec_term(self, fr, st, bb, t, k):
        tk = t.k
        if tk == "goto":
            return [(t.target, st)]
        if tk == "return":
            return [("return", st)]
        if tk in ("unreachable", "resume", "terminate"):
            return []
        if tk == "drop":
            return [(t.target, st)]
        if tk == "switch":
            return self.exec_switch(fr, st, bb, t, k)
        if tk == "assert":
            return self.exec_assert(fr, st, bb, t, k)
        if tk == "call":
            return self.exec_call(fr, st, bb, t, k)
        raise AnalysisError("unsupported terminator %s in %s" % (tk, fr.body.name))

    def exec_switch(self, fr, st, bb, t, k):
        v = self.eval_operand(fr, st, t.discr, (fr.fid, bb, "sw", k))
        outs = []
        is_bool = t.discr.ty.k == "bool"
        discr = isinstance(v, IntV) and v.cond is not None and v.cond[0] == "discr"
        for ob in self.observers:
            ob.on_switch(self, fr, bb, t, v, st)
        if not isinstance(v, IntV):
            for _, tb in t.targets:
                outs.append((tb, st.copy()))
            outs.append((t.otherwise, st))
            return self._merge_outs(fr, bb, outs)
        seen_vals = []
        for val, tb in t.targets:
            s2 = st.copy()
            ok = s2.assume_eq(v.lin.addc(-val))
            if ok and discr:
                idx = self.idx_of_discr(v.cond[2], val)
                ok = idx is not None and self.restrict_enum(s2, list(v.cond[1]), {idx})
            elif ok and is_bool and v.cond is not None:
                ok = self.assume_cond(s2, v.cond, bool(val))
            if ok:
                outs.append((tb, s2))
            seen_vals.append(val)
        s2 = st
        ok = True
        for val in seen_vals:
            ok = s2.assume_ne(v.lin.addc(-val))
            if not ok:
                break
        # repeat exclusion so that interior values adjacent to the bounds go too
        if ok:
            for _ in range(len(seen_vals)):
                for val in seen_vals:
                    if not s2.assume_ne(v.lin.addc(-val)):
                        ok = False
                        break
                if not ok:
                    break
        if ok and discr:
            excl = {self.idx_of_discr(v.cond[2], val) for val in seen_vals}
            vals = [self.read_path(s2, p) for p in v.cond[1]]
            keep = set()
            for x in vals:
                if isinstance(x, EnumV):
                    keep |= set(x.variants) - excl
                else:
                    keep = None
                    break
            if keep is not None:
                ok = bool(keep) and self.restrict_enum(s2, list(v.cond[1]), keep)
        elif ok and is_bool and v.cond is not None and seen_vals == [0]:
            ok = self.assume_cond(s2, v.cond, True)
        if ok:
            outs.append((t.otherwise, s2))
        return self._merge_outs(fr, bb, outs)

    def _merge_outs(self, fr, bb, outs):
        """Several edges to the same target: join them."""
        res = {}
        order = []
        for tb, s in outs:
            if tb in res:
                res[tb] = Joiner(((fr.fid, bb, tb), "m"), res[tb], s, False, fr.thr).run()
            else:
                res[tb] = s
                order.append(tb)
        return [(tb, res[tb]) for tb in order]

    def explain(self, st, v):
        """Human-readable reason material for an undischarged obligation."""
        if not isinstance(v, IntV):
            return "condition value %r" % (v,)
        s = "cond=%r" % (v.cond,)
        ats = set(v.lin.d)
        if v.cond:
            for x in v.cond[1:]:
                if isinstance(x, Lin):
                    ats.update(x.d)
        s += " atoms={%s}" % ", ".join("a%d:%r" % (a, st.aiv(a)) for a in sorted(ats))
        rel = [f for f in st.facts if not ats.isdisjoint(f.d.keys())]
        s += " facts=[%s]" % "; ".join(repr(f) for f in rel[:8])
        return s[:700]

    def exec_assert(self, fr, st, bb, t, k):
        v = self.eval_operand(fr, st, t.cond, (fr.fid, bb, "as", k))
        exp = t.expected
        kind = t.msg["kind"]
        desc = kind + (":" + t.msg["op"] if "op" in t.msg else "")
        verdict = "unknown"
        how = ""
        if isinstance(v, IntV):
            c = st.const_of(v.lin)
            if c is not None:
                verdict = "safe" if bool(c) == exp else "fail"
                how = "interval"
            elif v.cond is not None and v.cond[0] != "discr" and self.prove_cond(st, v.cond, exp):
                verdict = "safe"
                how = "relational"
            elif v.cond is not None and v.cond[0] != "discr" and self.prove_cond(st, v.cond, exp, cases=True):
                verdict = "safe"
                how = "cases"
        if verdict == "unknown":
            how = self.explain(st, v)
        self.record(fr, bb, "assert", kind, desc, t.span, verdict, how)
        for ob in self.observers:
            ob.on_assert(self, fr, bb, t, v, st, verdict)
        if verdict == "fail":
            return []
        if not self.assume_bool(st, v, exp):
            return []
        return [(t.target, st)]

    # ------------------------------------------------------------- calls
    def callee_subst(self, fr, body, target):
        params = [g for g in body.generics if g["kind"] != "Lifetime"]
        sub = {}
        for g, a in zip(params, target.args):
            if isinstance(a, ConstArg):
                v = self.const_param(a.val, fr.subst)
                if v is not None:
                    sub[g["name"]] = v
            else:
                sub[g["name"]] = self.subst_ty(a, fr.subst)
        return sub

    def resolve(self, fr, cal):
        """-> list of (body, subst) for crate-local targets, or None."""
        t = cal.target()
        if t.local:
            b = self.facts.by_def.get(t.defk)
            if b is not None and not (cal.resolved is None and cal.trait and b.blocks is None):
                # unresolved trait method declared in the crate has no body unless default
                if cal.resolved is not None or not cal.trait:
                    return [(b, self.callee_subst(fr, b, t))]
        if cal.trait and cal.resolved is None and cal.args:
            self_ty = cal.args[0]
            if isinstance(self_ty, Ty):
                sty = self.subst_ty(self_ty, fr.subst)
                # peel references: `&mut R` implements Read by delegation
                peeled = sty
                while peeled.k == "ref":
                    peeled = peeled.to
                if peeled.k == "adt":
                    items = self.impl_index.get((cal.trait, peeled.defk))
                    if items and cal.method in items:
                        b = self.facts.by_def.get(items[cal.method])
                        if b is not None:
                            params = [g for g in b.generics if g["kind"] != "Lifetime"]
                            adt = self.facts.adts.get(peeled.defk)
                            sub = {}
                            if adt is not None:
                                aps = [g for g in adt["generics"] if g["kind"] != "Lifetime"]
                                for g, a in zip(aps, peeled.args):
                                    if isinstance(a, ConstArg):
                                        v = self.const_param(a.val, fr.subst)
                                        if v is not None:
                                            sub[g["name"]] = v
                                    else:
                                        sub[g["name"]] = a
                            # method-level generics: the remaining callee args by position
                            own = [g for g in params if g["name"] not in sub]
                            rest = cal.args[1 + (len(cal.args) - 1 - len(own)):] if own else []
                            for g, a in zip(own, rest):
                                if isinstance(a, Ty):
                                    sub[g["name"]] = self.subst_ty(a, fr.subst)
                            return [(b, sub)]
                elif peeled.k == "param" and cal.local:
                    res = []
                    for (tr, sdef), items in sorted(self.impl_index.items(), key=str):
                        if tr == cal.trait and cal.method in items:
                            b = self.facts.by_def.get(items[cal.method])
                            if b is not None:
                                res.append((b, dict(fr.subst)))
                    if res:
                        return res
        return None

    def exec_call(self, fr, st, bb, t, k):
        cal = t.callee
        key = (fr.fid, bb, "call", k)
        args = [self.eval_operand(fr, st, a, key + (i,)) for i, a in enumerate(t.args)]
        for ob in self.observers:
            ob.on_call(self, fr, bb, t, args, st)
        if cal is None:
            fv = self.eval_operand(fr, st, t.func, key)
            self.unmodelled["<indirect>"] += 1
            ret = self.mk_top(t.dest.ty, key + ("ret",), st, fr.subst)
            self.havoc_args(fr, st, t, args, key)
            return self.finish_call(fr, st, bb, t, ret, k)
        name = _strip_generics(cal.name)
        tname = _strip_generics(cal.target().name)
        ck = (fr.body.name, bb, tname)
        ints = []
        for a in args:
            if isinstance(a, IntV):
                ints.append(self.viv(st, a))
            else:
                ints.append(None)
        old_ci = fr.run.calls.get(ck)
        if old_ci is None or old_ci.get("k") == k:
            fr.run.calls[ck] = {"ints": ints, "n": 1, "k": k}
        else:
            mi = []
            for x, y in zip(old_ci["ints"], ints):
                mi.append(None if x is None or y is None else (min(x[0], y[0]), max(x[1], y[1])))
            fr.run.calls[ck] = {"ints": mi, "n": old_ci["n"] + 1, "k": None}
        # 0. declared preconditions of crate-local callees (obligations, not assumptions)
        for (ai_, lo_, what) in PRECONDITIONS.get(tname, ()):
            iv = ints[ai_] if ai_ < len(ints) else None
            if iv is not None and iv[0] >= lo_:
                self.record(fr, bb, "pre", "Precondition", what, t.span, "safe", "interval")
            else:
                self.record(fr, bb, "pre", "Precondition", what, t.span, "unknown",
                            "argument %d of %s has range %r" % (ai_, tname, iv))
        # 1. models (by resolved name first, then by declared name)
        m = self.models.get(tname) or self.models.get(name)
        if m is not None:
            r = m(self, fr, st, bb, t, args, key)
            if r is not None:
                if r == "diverge":
                    return []
                ret, st2 = r
                if st2 is None:
                    return []
                return self.finish_call(fr, st2, bb, t, ret, k)
        # 2. crate-local bodies
        targets = self.resolve(fr, cal)
        if targets:
            outs = []
            for (b, sub) in targets:
                fid = fr.fid + ((b.defk, bb, k),)
                rv, so = self.analyze(b, sub, fid, st, args, fr.depth + 1)
                if so is not None:
                    outs.append((rv, so))
            if not outs:
                return []
            rv, so = outs[0]
            for j, (rv2, so2) in enumerate(outs[1:]):
                tmp = ("T", fr.fid, bb, "retjoin")
                so.store[tmp] = rv
                so2.store[tmp] = rv2
                so = Joiner(((fr.fid, bb, "impls"), j), so, so2, False, fr.thr).run()
                rv = so.store.pop(tmp)
            return self.finish_call(fr, so, bb, t, rv, k)
        # 3. io trait calls on opaque / std readers and writers
        m = self.io_models.get(name)
        if m is not None:
            r = m(self, fr, st, bb, t, args, key)
            if r is not None:
                ret, st2 = r
                if st2 is None:
                    return []
                return self.finish_call(fr, st2, bb, t, ret, k)
        # 4. unmodelled external (known total functions are not reported; everything else fails closed in C07.R1)
        from .models import TOTAL_EXTERNALS
        if tname in TOTAL_EXTERNALS or name in TOTAL_EXTERNALS or _strip_generics(cal.name) in TOTAL_EXTERNALS or \
                tname.startswith(("core::fmt::rt::Argument", "std::fmt::Arguments", "core::fmt::Arguments")):
            self.stats["total_external"] = self.stats.get("total_external", 0) + 1
        else:
            self.unmodelled[tname] += 1
        if t.target is None:
            self.record(fr, bb, "call", "DivergingCall", "call to %s never returns" % tname, t.span,
                        "fail", "")
            return []
        ret = self.mk_top(t.dest.ty, key + ("ret",), st, fr.subst)
        self.havoc_args(fr, st, t, args, key)
        return self.finish_call(fr, st, bb, t, ret, k)

    def havoc_args(self, fr, st, t, args, key):
        for i, (a, op) in enumerate(zip(args, t.args)):
            ty = self.subst_ty(op.ty, fr.subst)
            if ty.k == "ref" and ty.mut and isinstance(a, RefV):
                for p in a.paths:
                    if p[0] in st.store or p[0][0] != "X":
                        nv = self.mk_top(ty.to, key + ("hv", i), st, fr.subst) if ty.to.k not in ("slice", "str") else None
                        if nv is None:
                            old = self.read_path(st, p)
                            if isinstance(old, ArrV):
                                nv = ArrV(old.kind, old.length, self.mk_top(ty.to.elem, key + ("hv", i, "e"), st, fr.subst)
                                          if ty.to.k == "slice" else TopV())
                            else:
                                nv = TopV()
                        self.write_path(st, p, nv, len(a.paths) > 1, key + ("hvw", i))

    def finish_call(self, fr, st, bb, t, ret, k):
        if t.target is None:
            return []
        if isinstance(ret, BotV):
            return []
        self.write_place(fr, st, t.dest, ret, (bb, "ret"))
        return [(t.target, st)]

    # ------------------------------------------------------------- closures
    def call_closure(self, fr, st, cv, args, key, bb=0):
        """Invoke closure value cv with argument values (tuple-unpacked)."""
        if not isinstance(cv, ClosureV):
            return None
        b = self.facts.by_def.get(cv.defk)
        if b is None:
            return None
        root = ("T", key, "closure")
        st.store[root] = cv
        fid = fr.fid + ((b.defk, bb, "cl"),)
        selfarg = cv
        lt = b.locals[1].ty if len(b.locals) > 1 else None
        if lt is not None and lt.k == "ref":
            selfarg = RefV([(root, ())])
        rv, so = self.analyze(b, dict(fr.subst), fid, st, [selfarg] + list(args), fr.depth + 1)
        if so is not None:
            so.store.pop(root, None)
        return rv, so


class Observer:
    def on_call(self, ai, fr, bb, term, args, st):
        pass

    def on_return(self, ai, fr, rv, st):
        pass

    def on_assert(self, ai, fr, bb, term, v, st, verdict):
        pass

    def on_switch(self, ai, fr, bb, term, v, st):
        pass
