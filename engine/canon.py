"""Canonical renaming of abstract states, used to tabulate callee analyses.

A callee invocation is analysed on the part of the state reachable from its
arguments, with atoms and roots renamed to canonical names (in order of first
occurrence).  Two invocations with the same canonical input share one analysis;
the cached result is renamed back into the caller's names (atoms and roots
created inside the callee get names unique to the call site).
"""
from .dom import (ArrV, BotV, BoxV, ClosureV, CursorV, EnumV, FnV, IntV, Lin, OpaqueV, RefV, State,
                  StructV, TopV, atom, atom_range, _ATOM_RANGE)


class Renamer:
    """Applies an atom map and a root map to values.  Unknown atoms / roots are
    handled by the `new_atom` / `new_root` callbacks."""

    def __init__(self, new_atom, new_root):
        self.am = {}
        self.rm = {}
        self.new_atom = new_atom
        self.new_root = new_root
        self.pm = {}        # root -> list of materialised prefixes (forward direction)
        self.inv = None     # canonical root -> original (backward direction)
        self.memo = {}      # id(result) -> (result, source) for compound values
        self.origin = None  # memo of the forward renamer (used backward)

    def a(self, x):
        r = self.am.get(x)
        if r is None:
            r = self.new_atom(x)
            self.am[x] = r
        return r

    def root(self, r):
        x = self.rm.get(r)
        if x is None:
            x = self.new_root(r)
            self.rm[r] = x
        return x

    def lin(self, l):
        if not l.d:
            return l
        return Lin({self.a(x): k for x, k in l.d.items()}, l.c)

    def path(self, p):
        root, projs = p
        if self.inv is not None:
            r = self.inv.get(root)
            if r is not None:
                if r[0] == "P":
                    return (r[1], r[2] + projs)
                return (r, projs)
            return (self.root(root), projs)
        for prefix in self.pm.get(root, ()):
            n = len(prefix)
            if projs[:n] == prefix:
                if n == 0:
                    return (self.root(root), projs)
                return (self.root(("P", root, prefix)), projs[n:])
        return (self.root(root), projs)

    def cond(self, c):
        if c is None:
            return None
        if c[0] == "discr":
            return ("discr", tuple(self.path(p) for p in c[1]), c[2])
        if c[0] == "not":
            return ("not", self.cond(c[1]))
        if c[0] == "deq":
            return ("deq", tuple(self.path(p) for p in c[1]), c[2], c[3], c[4], self.lin(c[5]), self.lin(c[6]))
        return tuple(self.lin(x) if isinstance(x, Lin) else x for x in c)

    def val(self, v):
        if isinstance(v, IntV):
            if not v.lin.d and v.cond is None:
                return v
            return IntV(self.lin(v.lin), self.cond(v.cond), v.rng)
        if self.origin is not None:
            e = self.origin.get(id(v))
            if e is not None and e[0] is v:
                return e[1]
        r = self.val1(v)
        if r is not v:
            self.memo[id(r)] = (r, v)
        return r

    def val1(self, v):
        if isinstance(v, StructV):
            return StructV(v.name, [self.val(f) for f in v.fields])
        if isinstance(v, EnumV):
            return EnumV(v.name, {i: tuple(self.val(f) for f in fs) for i, fs in v.variants.items()},
                         {i: tuple(self.lin(g) for g in gs) for i, gs in v.guards.items()})
        if isinstance(v, ArrV):
            return ArrV(v.kind, self.val(v.length), self.val(v.elem) if v.elems is None else None,
                        tuple(self.val(e) for e in v.elems) if v.elems is not None else None)
        if isinstance(v, RefV):
            return RefV([self.path(p) for p in v.paths],
                        self.val(v.slen) if v.slen is not None else None)
        if isinstance(v, BoxV):
            return BoxV(self.val(v.inner))
        if isinstance(v, CursorV):
            return CursorV(self.val(v.inner), self.val(v.pos))
        if isinstance(v, ClosureV):
            return ClosureV(v.defk, [self.val(f) for f in v.fields])
        return v


def fp(v):
    """Hashable fingerprint of a (canonically named) value."""
    if isinstance(v, IntV):
        return ("i", fp_lin(v.lin), fp_cond(v.cond), v.rng)
    if isinstance(v, StructV):
        return ("s", v.name, tuple(fp(f) for f in v.fields))
    if isinstance(v, EnumV):
        return ("e", v.name, tuple((i, tuple(fp(f) for f in fs)) for i, fs in sorted(v.variants.items())),
                tuple((i, tuple(fp_lin(g) for g in gs)) for i, gs in sorted(v.guards.items())))
    if isinstance(v, ArrV):
        return ("a", v.kind, fp(v.length), fp(v.elem) if v.elems is None else None,
                tuple(fp(e) for e in v.elems) if v.elems is not None else None)
    if isinstance(v, RefV):
        return ("r", tuple(sorted(v.paths, key=repr)), fp(v.slen) if v.slen is not None else None)
    if isinstance(v, BoxV):
        return ("b", fp(v.inner))
    if isinstance(v, CursorV):
        return ("c", fp(v.inner), fp(v.pos))
    if isinstance(v, ClosureV):
        return ("cl", v.defk, tuple(fp(f) for f in v.fields))
    if isinstance(v, FnV):
        return ("fn", v.defk)
    if isinstance(v, BotV):
        return ("bot",)
    if isinstance(v, TopV):
        return ("top",)
    if isinstance(v, OpaqueV):
        return ("op",)
    return ("?", repr(v))


def fp_lin(l):
    return (tuple(sorted(l.d.items())), l.c)


def fp_cond(c):
    if c is None:
        return None
    if c[0] == "not":
        return ("not", fp_cond(c[1]))
    return tuple(fp_lin(x) if isinstance(x, Lin) else x for x in c)


def _conflict(p, q):
    """Two non-prefix-related paths that diverge inside one array with a
    summarised step overlap: return their common prefix, else None."""
    n = min(len(p), len(q))
    for i in range(n):
        if p[i] != q[i]:
            a, b = p[i][0], q[i][0]
            if a in ("e", "i") and b in ("e", "i") and (a == "e" or b == "e"):
                return p[:i]
            return None
    return None


def materialise(st, args, read_path, value_refs):
    """Paths reachable from the arguments, reduced to a set of disjoint
    sub-objects: dict root -> list of prefixes."""
    seen = set()
    work = []
    for a in args:
        work.extend(value_refs(a))
    allp = []
    while work:
        p = work.pop()
        if p in seen:
            continue
        seen.add(p)
        root = p[0]
        if root not in st.store:
            continue
        allp.append(p)
        v = read_path(st, p)
        work.extend(value_refs(v))
    by_root = {}
    for root, projs in allp:
        by_root.setdefault(root, []).append(projs)
    res = {}
    for root, plist in by_root.items():
        plist = sorted(set(plist), key=len)
        changed = True
        while changed:
            changed = False
            kept = []
            for p in plist:
                if any(p[:len(q)] == q for q in kept):
                    continue
                kept.append(p)
            plist = kept
            for i in range(len(plist)):
                for j in range(i + 1, len(plist)):
                    c = _conflict(plist[i], plist[j])
                    if c is not None:
                        plist = sorted(set([x for k, x in enumerate(plist) if k not in (i, j)] + [c]), key=len)
                        changed = True
                        break
                if changed:
                    break
        res[root] = plist
    return res


def canonicalize(st, args, read_path, value_refs, value_atoms):
    """-> (key, canonical state, canonical args, renamer)."""
    counter = [0, 0]

    def new_atom(x):
        i = counter[0]
        counter[0] += 1
        a = atom(("c", i))
        _ATOM_RANGE[a] = atom_range(x)
        return a

    def new_root(r):
        i = counter[1]
        counter[1] += 1
        tag = r[0] if r[0] in ("X", "K") else "R"
        return (tag, "canon", i)

    rn = Renamer(new_atom, new_root)
    rn.pm = materialise(st, args, read_path, value_refs)
    cargs = [rn.val(a) for a in args]
    cstore = {}
    done = set()
    while True:
        pending = [r for r in list(rn.rm) if r not in done]
        if not pending:
            break
        for r in pending:
            done.add(r)
            if r[0] == "P":
                v = read_path(st, (r[1], r[2]))
            elif r in st.store:
                v = st.store[r]
            else:
                continue
            cstore[rn.rm[r]] = rn.val(v)
    catoms = {}
    for x, c in rn.am.items():
        catoms[c] = st.aiv(x)
    cfacts = set()
    am = rn.am
    for f in st.facts:
        ok = True
        for x in f.d:
            if x not in am:
                ok = False
                break
        if ok:
            cfacts.add(rn.lin(f))
    cdefs = {}
    if st.defs:
        # definitions of visible atoms; their operand atoms become visible too
        work = [x for x in list(am) if x in st.defs]
        done_d = set()
        while work:
            x = work.pop()
            if x in done_d:
                continue
            done_d.add(x)
            op, la, lb = st.defs[x]
            for l in (la, lb):
                for y in l.d:
                    if y not in am:
                        rn.a(y)
                        catoms[rn.am[y]] = st.aiv(y)
                    if y in st.defs and y not in done_d:
                        work.append(y)
            cdefs[rn.am[x]] = (op, rn.lin(la), rn.lin(lb))
    cst = State(cstore, catoms, cfacts, set(), cdefs)
    key = (tuple(fp(a) for a in cargs),
           tuple((r, fp(v)) for r, v in cstore.items()),
           tuple(sorted((c, iv, atom_range(c)) for c, iv in catoms.items())),
           frozenset(fp_lin(f) for f in cfacts),
           tuple(sorted((c, d[0], fp_lin(d[1]), fp_lin(d[2])) for c, d in cdefs.items())))
    return key, cst, cargs, rn


def instantiate(out, rv, rn, site):
    """Rename a canonical result back into the caller's names."""
    inv_a = {c: x for x, c in rn.am.items()}
    inv_r = {c: r for r, c in rn.rm.items()}

    def new_atom(c):
        if c in inv_a:
            return inv_a[c]
        a = atom(("i", site, c))
        _ATOM_RANGE[a] = atom_range(c)
        return a

    def new_root(c):
        if c in inv_r:
            return inv_r[c]
        return (c[0], ("inst", site, c))

    back = Renamer(new_atom, new_root)
    back.inv = inv_r
    back.origin = rn.memo
    store = {back.root(r): back.val(v) for r, v in out.store.items()}
    atoms = {back.a(c): iv for c, iv in out.atoms.items()}
    facts = {back.lin(f) for f in out.facts}
    created = {back.a(c) for c in out.created}
    # everything that is not an input atom was created by the callee
    for c, x in back.am.items():
        if c not in inv_a:
            created.add(x)
    defs = {back.a(c): (d[0], back.lin(d[1]), back.lin(d[2])) for c, d in out.defs.items()}
    return back.val(rv), State(store, atoms, facts, created, defs)
