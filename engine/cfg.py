"""E-CFG: control-flow graph queries over one MIR body.

Unwind edges and cleanup blocks are ignored: panics are a separate obligation
class (C07.R1), so the graph is the panic-free control flow.
"""


class CFG:
    def __init__(self, body):
        self.body = body
        n = len(body.blocks)
        self.n = n
        self.succ = [[] for _ in range(n)]
        self.pred = [[] for _ in range(n)]
        for b in body.blocks:
            if b.cleanup:
                continue
            for s in b.term.successors():
                if body.blocks[s].cleanup:
                    continue
                if s not in self.succ[b.idx]:
                    self.succ[b.idx].append(s)
                    self.pred[s].append(b.idx)
        self.reach = self.reachable_from(0)
        self.returns = [b.idx for b in body.blocks
                        if b.term.k == "return" and not b.cleanup and b.idx in self.reach]
        self._dom = None
        self._loops = None

    # ------------------------------------------------------------ basics
    def reachable_from(self, src, avoid=(), succ=None):
        """Blocks reachable from src (src included unless avoided) without
        entering any block in `avoid`."""
        succ = succ or self.succ
        avoid = set(avoid)
        if src in avoid:
            return set()
        seen = {src}
        st = [src]
        while st:
            x = st.pop()
            for y in succ[x]:
                if y not in seen and y not in avoid:
                    seen.add(y)
                    st.append(y)
        return seen

    def reaching(self, dst, avoid=()):
        """Blocks from which dst is reachable (dst included)."""
        return self.reachable_from(dst, avoid, self.pred)

    def edge_reachable(self, src, dst, avoid=()):
        """Blocks reachable after taking the edge src->dst."""
        return self.reachable_from(dst, avoid)

    # ------------------------------------------------------------ dominators
    def dominators(self):
        if self._dom is not None:
            return self._dom
        order = self._rpo()
        idx = {b: i for i, b in enumerate(order)}
        idom = {0: 0}
        changed = True
        while changed:
            changed = False
            for b in order[1:]:
                ps = [p for p in self.pred[b] if p in idom]
                if not ps:
                    continue
                new = ps[0]
                for p in ps[1:]:
                    new = self._intersect(idom, idx, p, new)
                if idom.get(b) != new:
                    idom[b] = new
                    changed = True
        self._dom = idom
        return idom

    @staticmethod
    def _intersect(idom, idx, a, b):
        while a != b:
            while idx[a] > idx[b]:
                a = idom[a]
            while idx[b] > idx[a]:
                b = idom[b]
        return a

    def _rpo(self):
        seen = set()
        out = []
        st = [(0, iter(self.succ[0]))]
        seen.add(0)
        while st:
            x, it = st[-1]
            adv = False
            for y in it:
                if y not in seen:
                    seen.add(y)
                    st.append((y, iter(self.succ[y])))
                    adv = True
                    break
            if not adv:
                out.append(x)
                st.pop()
        out.reverse()
        return out

    def dominates(self, a, b):
        """a dominates b (reflexive)."""
        idom = self.dominators()
        if b not in idom:
            return False
        x = b
        while True:
            if x == a:
                return True
            if x == 0:
                return False
            x = idom[x]

    # ------------------------------------------------------------ loops
    def loops(self):
        """Natural loops: list of (header, body set, back-edge sources)."""
        if self._loops is not None:
            return self._loops
        heads = {}
        for t in self.reach:
            for h in self.succ[t]:
                if self.dominates(h, t):
                    heads.setdefault(h, []).append(t)
        res = []
        for h, tails in heads.items():
            body = {h}
            st = list(tails)
            while st:
                x = st.pop()
                if x not in body:
                    body.add(x)
                    st.extend(self.pred[x])
            res.append((h, body, tails))
        res.sort(key=lambda l: len(l[1]))
        self._loops = res
        return res

    def loop_blocks_of(self, b):
        s = set()
        for h, blocks, _ in self.loops():
            if b in blocks:
                s |= blocks
        return s

    def loop_headers(self):
        return {h for h, _, _ in self.loops()}

    # ------------------------------------------------------------ path rules
    def must_pass(self, src, dsts, via):
        """True iff every path from src to any block of dsts passes through a
        block of `via` (via blocks themselves count even if src is one)."""
        if src in via:
            return True
        r = self.reachable_from(src, avoid=via)
        return not (r & set(dsts))

    def some_path(self, src, dsts, avoid=()):
        r = self.reachable_from(src, avoid=avoid)
        return bool(r & set(dsts))
