"""E-AI abstract domain.

Integers are *linear forms over value atoms*; every atom has an interval in the
state, and the state carries a set of linear facts (form >= 0).  Atoms name
run-time values (not locations), so stores never invalidate facts; at control
flow joins differing values get a fresh, deterministically named atom and the
facts are re-established Houdini-style (a candidate is kept iff it is provable
in both incoming states).  All arithmetic on forms is over mathematical
integers; machine wrap-around is handled where an operation is interpreted.
"""

INF = float("inf")

# ----------------------------------------------------------------- atoms ---

_ATOM_IDS = {}
_ATOM_KEYS = []
_ATOM_RANGE = {}
_WIDEN_COUNT = {}
_DEBUG_WIDEN = int(__import__('os').environ.get('DEBUG_WIDEN', '0'))


def atom(key, rng=None):
    """Deterministic atom id for a descriptive key."""
    i = _ATOM_IDS.get(key)
    if i is None:
        i = len(_ATOM_KEYS)
        _ATOM_IDS[key] = i
        _ATOM_KEYS.append(key)
    if rng is not None:
        _ATOM_RANGE[i] = rng
    return i


def atom_key(i):
    return _ATOM_KEYS[i]


def atom_range(i):
    return _ATOM_RANGE.get(i, (-INF, INF))


def reset_atoms():
    _ATOM_IDS.clear()
    del _ATOM_KEYS[:]
    _ATOM_RANGE.clear()
    _WIDEN_COUNT.clear()


def ty_range(ty):
    """(min, max) of an integer-like MIR type."""
    if ty.k == "bool":
        return (0, 1)
    if ty.k == "char":
        return (0, 0x10FFFF)
    if ty.k == "uint":
        return (0, (1 << ty.bits) - 1)
    if ty.k == "int":
        return (-(1 << (ty.bits - 1)), (1 << (ty.bits - 1)) - 1)
    return (-INF, INF)


# ------------------------------------------------------------------ Lin ----

class Lin:
    """Immutable linear form sum(coef*atom) + c."""
    __slots__ = ("d", "c", "_h")

    def __init__(self, d=None, c=0):
        self.d = d if d else {}
        self.c = c
        self._h = None

    @staticmethod
    def const(c):
        return Lin(None, c)

    @staticmethod
    def var(a, coef=1):
        return Lin({a: coef}, 0)

    def is_const(self):
        return not self.d

    def single(self):
        """(atom, coef, c) if the form has exactly one atom."""
        if len(self.d) == 1:
            for a, k in self.d.items():
                return (a, k, self.c)
        return None

    def add(self, o):
        d = dict(self.d)
        for a, k in o.d.items():
            v = d.get(a, 0) + k
            if v:
                d[a] = v
            else:
                d.pop(a, None)
        return Lin(d, self.c + o.c)

    def sub(self, o):
        d = dict(self.d)
        for a, k in o.d.items():
            v = d.get(a, 0) - k
            if v:
                d[a] = v
            else:
                d.pop(a, None)
        return Lin(d, self.c - o.c)

    def addc(self, c):
        return Lin(self.d, self.c + c)

    def scale(self, k):
        if k == 0:
            return Lin(None, 0)
        return Lin({a: v * k for a, v in self.d.items()}, self.c * k)

    def neg(self):
        return self.scale(-1)

    def atoms(self):
        return self.d.keys()

    def pow2_div(self):
        """Largest s such that every coefficient and the constant are
        divisible by 2**s (capped at 64)."""
        s = 64
        for v in list(self.d.values()) + ([self.c] if self.c else []):
            v = abs(v)
            t = 0
            while t < 64 and v % 2 == 0:
                v //= 2
                t += 1
            s = min(s, t)
        return s

    def subst(self, m):
        """Replace atoms by forms (dict atom -> Lin); atoms not in m stay."""
        r = Lin(None, self.c)
        for a, k in self.d.items():
            if a in m:
                r = r.add(m[a].scale(k))
            else:
                r = r.add(Lin({a: k}, 0))
        return r

    def __eq__(self, o):
        return isinstance(o, Lin) and self.c == o.c and self.d == o.d

    def __hash__(self):
        if self._h is None:
            self._h = hash((frozenset(self.d.items()), self.c))
        return self._h

    def __repr__(self):
        parts = []
        for a, k in sorted(self.d.items()):
            parts.append(("%d*" % k if k != 1 else "") + "a%d" % a)
        if self.c or not parts:
            parts.append(str(self.c))
        return "+".join(parts)


# --------------------------------------------------------------- values ----

class V:
    __slots__ = ()


class BotV(V):
    __slots__ = ()

    def __repr__(self):
        return "⊥"


BOT = BotV()


class TopV(V):
    """Unknown value of a (possibly unknown) type; expanded lazily."""
    __slots__ = ("ty",)

    def __init__(self, ty=None):
        self.ty = ty

    def __eq__(self, o):
        return isinstance(o, TopV)

    def __hash__(self):
        return 7

    def __repr__(self):
        return "⊤"


class IntV(V):
    """lin: the value as a linear form; cond: how a boolean was computed;
    rng: (min, max) of the declared type of the place the value lives in."""
    __slots__ = ("lin", "cond", "rng")

    def __init__(self, lin, cond=None, rng=None):
        self.lin = lin
        self.cond = cond
        self.rng = rng

    def __eq__(self, o):
        return isinstance(o, IntV) and self.lin == o.lin and self.cond == o.cond and self.rng == o.rng

    def __hash__(self):
        return hash(self.lin)

    def __repr__(self):
        return "i(%r%s)" % (self.lin, " ?" + str(self.cond[0]) if self.cond else "")


class StructV(V):
    __slots__ = ("name", "fields")

    def __init__(self, name, fields):
        self.name = name
        self.fields = tuple(fields)

    def __eq__(self, o):
        return isinstance(o, StructV) and self.name == o.name and self.fields == o.fields

    def __hash__(self):
        return hash((self.name, len(self.fields)))

    def __repr__(self):
        return "%s{%s}" % (self.name or "", ", ".join(map(repr, self.fields)))


class EnumV(V):
    """variants: dict index -> tuple of field values.  guards: dict index ->
    tuple of Lin (facts >= 0 that hold when the value is that variant)."""
    __slots__ = ("name", "variants", "guards")

    def __init__(self, name, variants, guards=None):
        self.name = name
        self.variants = variants
        self.guards = guards or {}

    def __eq__(self, o):
        return (isinstance(o, EnumV) and self.name == o.name and self.variants == o.variants
                and self.guards == o.guards)

    def __hash__(self):
        return hash((self.name, tuple(sorted(self.variants))))

    def __repr__(self):
        return "%s[%s]" % (self.name, " | ".join(
            "%d(%s)" % (i, ",".join(map(repr, f))) for i, f in sorted(self.variants.items())))


class ArrV(V):
    """Fixed arrays, Vec and slice contents.  length: IntV.  elems: tuple of
    values when tracked individually, else None and `elem` is the summary."""
    __slots__ = ("kind", "length", "elem", "elems")

    def __init__(self, kind, length, elem, elems=None):
        self.kind = kind        # 'array' | 'vec'
        self.length = length
        self.elem = elem
        self.elems = elems

    def __eq__(self, o):
        return (isinstance(o, ArrV) and self.kind == o.kind and self.length == o.length
                and self.elem == o.elem and self.elems == o.elems)

    def __hash__(self):
        return hash((self.kind, self.length))

    def __repr__(self):
        if self.elems is not None:
            return "[%s]" % ", ".join(map(repr, self.elems))
        return "%s[%r; %r]" % (self.kind, self.elem, self.length)


class RefV(V):
    """Reference / pointer / Box-alias.  paths: frozenset of (root, projs).
    slen: IntV length for slice references (fat pointers), else None."""
    __slots__ = ("paths", "slen")

    def __init__(self, paths, slen=None):
        self.paths = frozenset(paths)
        self.slen = slen

    def __eq__(self, o):
        return isinstance(o, RefV) and self.paths == o.paths and self.slen == o.slen

    def __hash__(self):
        return hash(self.paths)

    def __repr__(self):
        return "&%s%s" % ("|".join(str(p) for p in self.paths), "[len %r]" % self.slen if self.slen else "")


class BoxV(V):
    __slots__ = ("inner",)

    def __init__(self, inner):
        self.inner = inner

    def __eq__(self, o):
        return isinstance(o, BoxV) and self.inner == o.inner

    def __hash__(self):
        return 11

    def __repr__(self):
        return "Box(%r)" % (self.inner,)


class CursorV(V):
    """std::io::Cursor<T>: inner value and position."""
    __slots__ = ("inner", "pos")

    def __init__(self, inner, pos):
        self.inner = inner
        self.pos = pos

    def __eq__(self, o):
        return isinstance(o, CursorV) and self.inner == o.inner and self.pos == o.pos

    def __hash__(self):
        return 13

    def __repr__(self):
        return "Cursor(%r @%r)" % (self.inner, self.pos)


class OpaqueV(V):
    """An object we know nothing about (generic reader/writer, String, ...)."""
    __slots__ = ("tag",)

    def __init__(self, tag=""):
        self.tag = tag

    def __eq__(self, o):
        return isinstance(o, OpaqueV)

    def __hash__(self):
        return 17

    def __repr__(self):
        return "opaque(%s)" % self.tag


class FnV(V):
    __slots__ = ("defk", "args")

    def __init__(self, defk, args=()):
        self.defk = defk
        self.args = args

    def __eq__(self, o):
        return isinstance(o, FnV) and self.defk == o.defk

    def __hash__(self):
        return hash(self.defk)

    def __repr__(self):
        return "fn(%s)" % self.defk


class ClosureV(V):
    __slots__ = ("defk", "fields")

    def __init__(self, defk, fields):
        self.defk = defk
        self.fields = tuple(fields)

    def __eq__(self, o):
        return isinstance(o, ClosureV) and self.defk == o.defk and self.fields == o.fields

    def __hash__(self):
        return hash(self.defk)

    def __repr__(self):
        return "closure(%s)" % self.defk


# ---------------------------------------------------------------- state ----

class State:
    """store: root -> V ; atoms: atom -> (lo, hi) ; facts: set of Lin (>= 0)."""
    __slots__ = ("store", "atoms", "facts", "created", "defs", "_idx", "_nf")

    def __init__(self, store=None, atoms=None, facts=None, created=None, defs=None):
        self.store = store if store is not None else {}
        self.atoms = atoms if atoms is not None else {}
        self.facts = facts if facts is not None else set()
        self.created = created if created is not None else set()
        self.defs = defs if defs is not None else {}    # atom -> (op, Lin, Lin)
        self._idx = None
        self._nf = -1

    def fidx(self):
        """atom -> list of facts mentioning it (rebuilt when the fact set changed)."""
        if self._idx is None or self._nf != len(self.facts):
            idx = {}
            for f in self.facts:
                for a in f.d:
                    idx.setdefault(a, []).append(f)
            self._idx = idx
            self._nf = len(self.facts)
        return self._idx

    def copy(self):
        return State(dict(self.store), dict(self.atoms), set(self.facts), set(self.created), dict(self.defs))

    # ---- intervals
    def aiv(self, a):
        r = self.atoms.get(a)
        if r is None:
            return atom_range(a)
        return r

    def iv(self, lin):
        lo = hi = lin.c
        for a, k in lin.d.items():
            al, ah = self.aiv(a)
            if k > 0:
                lo += k * al
                hi += k * ah
            else:
                lo += k * ah
                hi += k * al
        return (lo, hi)

    def lb(self, lin):
        return self.iv(lin)[0]

    def iv2(self, lin):
        """Interval of lin tightened by single facts: for a fact g >= 0,
        lin >= lin - g and lin <= lin + g."""
        lo, hi = self.iv(lin)
        if lo == hi or not lin.d or not self.facts:
            return (lo, hi)
        idx = self.fidx()
        seen = set()
        for a in lin.d:
            for g in idx.get(a, ()):
                if id(g) in seen:
                    continue
                seen.add(id(g))
                l2 = self.iv(lin.sub(g))[0]
                if l2 > lo:
                    lo = l2
                h2 = self.iv(lin.add(g))[1]
                if h2 < hi:
                    hi = h2
        return (lo, hi)

    def const_of(self, lin):
        lo, hi = self.iv(lin)
        return lo if lo == hi else None

    # ---- atoms
    def fresh(self, key, lo, hi, rng=None):
        """Create (or re-create) the atom named key with interval [lo, hi].
        Re-creation kills every fact about the previous incarnation."""
        a = atom(key, rng if rng is not None else (lo, hi))
        if a in self.atoms:
            self.kill_atom(a)
        self.atoms[a] = (lo, hi)
        self.created.add(a)
        return a

    def kill_atom(self, a):
        self.atoms.pop(a, None)
        self.facts = {f for f in self.facts if a not in f.d}
        self.defs.pop(a, None)
        self._idx = None

    # ---- facts
    def prove(self, lin, depth=2):
        """Is lin >= 0 implied?"""
        if self.lb(lin) >= 0:
            return True
        if not lin.d or not self.facts:
            return False
        idx = self.fidx()
        rel = []
        seen = set()
        for a in lin.d:
            for f in idx.get(a, ()):
                if id(f) not in seen:
                    seen.add(id(f))
                    rel.append(f)
        if not rel:
            return False
        r1s = []
        for f in rel:
            r1 = lin.sub(f)
            if self.lb(r1) >= 0:
                return True
            r1s.append((f, r1))
        # scaled single fact (coefficient ratio)
        for f in rel:
            for a, k in f.d.items():
                ka = lin.d.get(a)
                if ka and k and ka % k == 0 and ka // k > 1:
                    if self.lb(lin.sub(f.scale(ka // k))) >= 0:
                        return True
        if depth >= 2:
            for f, r1 in r1s:
                seen2 = {id(f)}
                for a in r1.d:
                    for g in idx.get(a, ()):
                        if id(g) in seen2:
                            continue
                        seen2.add(id(g))
                        if self.lb(r1.sub(g)) >= 0:
                            return True
        return False

    def eval_def(self, d):
        """Interval of a defined (non-linear) atom from its operands."""
        op, la, lb = d
        (al, ah), (bl, bh) = self.iv(la), self.iv(lb)
        if al < 0 or bl < 0 or ah == INF or bh == INF:
            return None
        if op == "shl":
            if bh >= 128:
                return None
            return (al << bl, ah << bh)
        if op == "shr":
            if bh >= 128:
                return None
            return (al >> bh, ah >> bl)
        if op == "mul":
            return (al * bl, ah * bh)
        if op == "and":
            if al == ah and bl == bh:
                return (al & bl, al & bl)
            return (0, min(ah, bh))
        if op in ("or", "xor"):
            if al == ah and bl == bh:
                v = (al | bl) if op == "or" else (al ^ bl)
                return (v, v)
            n = max(int(ah).bit_length(), int(bh).bit_length())
            return (0, (1 << n) - 1)
        return None

    def settle(self, rel):
        """Tighten atoms in rel using definitions and facts (bounded rounds)."""
        idx = self.fidx()
        for _ in range(4):
            changed = False
            for a in rel:
                d = self.defs.get(a)
                if d is not None:
                    r = self.eval_def(d)
                    if r is not None:
                        lo, hi = self.aiv(a)
                        nlo, nhi = max(lo, r[0]), min(hi, r[1])
                        if nlo > nhi:
                            return False
                        if (nlo, nhi) != (lo, hi):
                            self.atoms[a] = (nlo, nhi)
                            changed = True
            seen = set()
            for a in rel:
                for f in idx.get(a, ()):
                    if id(f) in seen:
                        continue
                    seen.add(id(f))
                    before = [self.aiv(x) for x in f.d]
                    if not self._propagate(f, again=False):
                        return False
                    if before != [self.aiv(x) for x in f.d]:
                        changed = True
            if not changed:
                break
        return True

    def prove_cases(self, lin, budget=4096):
        """Prove lin >= 0 by enumerating the values of small-domain atoms the
        obligation depends on (through definitions and facts)."""
        if not lin.d:
            return lin.c >= 0
        idx = self.fidx()
        rel = set(lin.d)
        frontier = list(rel)
        for _ in range(4):
            nxt = []
            for a in frontier:
                d = self.defs.get(a)
                if d is not None:
                    for l in (d[1], d[2]):
                        for x in l.d:
                            if x not in rel:
                                rel.add(x)
                                nxt.append(x)
                for f in idx.get(a, ()):
                    if len(f.d) <= 10:
                        for x in f.d:
                            if x not in rel:
                                rel.add(x)
                                nxt.append(x)
            frontier = nxt
            if not frontier or len(rel) > 200:
                break
        cands = []
        for a in rel:
            lo, hi = self.aiv(a)
            if lo != -INF and hi != INF and 2 <= hi - lo + 1 <= 16:
                cands.append((hi - lo + 1, a))
        if not cands:
            return False
        cands.sort()
        chosen = []
        prod = 1
        for n, a in cands:
            if prod * n > budget:
                break
            prod *= n
            chosen.append(a)
        if not chosen:
            return False

        def rec(st, i):
            if i == len(chosen):
                if not st.settle(rel):
                    return True          # infeasible case
                return st.prove(lin)
            a = chosen[i]
            lo, hi = st.aiv(a)
            for v in range(int(lo), int(hi) + 1):
                s2 = State(st.store, dict(st.atoms), st.facts, st.created, st.defs)
                s2._idx, s2._nf = st._idx, st._nf
                s2.atoms[a] = (v, v)
                # cheap feasibility + propagation on facts touching a
                okk = True
                for f in idx.get(a, ()):
                    if not s2._propagate(f, again=False):
                        okk = False
                        break
                if not okk:
                    continue
                if not rec(s2, i + 1):
                    return False
            return True

        return rec(self, 0)

    def assume(self, lin):
        """Add lin >= 0.  Returns False if the state becomes infeasible."""
        lo, hi = self.iv(lin)
        if hi < 0:
            return False
        if lo >= 0:
            return True
        if lin.d:
            self.facts.add(lin)
            self._idx = None
        return self._propagate(lin)

    def _propagate(self, lin, again=True):
        changed = []
        for a, k in lin.d.items():
            # k*a >= -(c + sum others)  with others at their upper bound
            rest = Lin({b: kb for b, kb in lin.d.items() if b != a}, lin.c)
            rest_hi = self.iv2(rest)[1] if len(rest.d) > 1 else self.iv(rest)[1]
            if rest_hi == INF or rest_hi == -INF:
                continue
            al, ah = self.aiv(a)
            need = -rest_hi
            if k > 0:
                nl = -((-need) // k)  # ceil(need/k)
                if nl > al:
                    al = nl
                    changed.append(a)
            else:
                kk = -k
                nh = (-need) // kk  # floor(-need/kk)
                if nh < ah:
                    ah = nh
                    changed.append(a)
            if al > ah:
                return False
            self.atoms[a] = (al, ah)
        if again:
            idx = self.fidx()
            todo = []
            seen = {id(lin)}
            for a in (changed if changed else lin.d):
                for f in idx.get(a, ()):
                    if id(f) not in seen:
                        seen.add(id(f))
                        todo.append(f)
            for f in todo:
                if not self._propagate(f, again=False):
                    return False
        return True

    def assume_eq(self, lin):
        return self.assume(lin) and self.assume(lin.neg())

    def assume_ne(self, lin):
        """lin != 0: only boundary information can be used."""
        lo, hi = self.iv(lin)
        if lo == 0 and hi == 0:
            return False
        if lo >= 0 or self.prove(lin):
            return self.assume(lin.addc(-1))
        if hi <= 0 or self.prove(lin.neg()):
            return self.assume(lin.neg().addc(-1))
        return True


# --------------------------------------------------------- value helpers ---

def walk_ints(v, path=()):
    """Yield (path, IntV) for every integer inside v."""
    if isinstance(v, IntV):
        yield path, v
    elif isinstance(v, (StructV, ClosureV)):
        for i, f in enumerate(v.fields):
            yield from walk_ints(f, path + (("f", i),))
    elif isinstance(v, EnumV):
        for vi, fs in v.variants.items():
            for i, f in enumerate(fs):
                yield from walk_ints(f, path + (("v", vi), ("f", i)))
        for vi, gs in v.guards.items():
            for i, g in enumerate(gs):
                yield path + (("g", vi, i),), IntV(g)
    elif isinstance(v, ArrV):
        yield from walk_ints(v.length, path + (("len",),))
        if v.elems is not None:
            for i, e in enumerate(v.elems):
                yield from walk_ints(e, path + (("i", i),))
        else:
            yield from walk_ints(v.elem, path + (("e",),))
    elif isinstance(v, RefV):
        if v.slen is not None:
            yield from walk_ints(v.slen, path + (("slen",),))
    elif isinstance(v, BoxV):
        yield from walk_ints(v.inner, path + (("box",),))
    elif isinstance(v, CursorV):
        yield from walk_ints(v.inner, path + (("cin",),))
        yield from walk_ints(v.pos, path + (("cpos",),))


def value_atoms(v, out):
    for _, iv in walk_ints(v):
        out.update(iv.lin.d.keys())
        if iv.cond:
            for x in iv.cond[1:]:
                if isinstance(x, Lin):
                    out.update(x.d.keys())


def value_refs(v):
    """Yield every (root, projs) path referenced from inside v."""
    if isinstance(v, RefV):
        for p in v.paths:
            yield p
    elif isinstance(v, (StructV, ClosureV)):
        for f in v.fields:
            yield from value_refs(f)
    elif isinstance(v, EnumV):
        for fs in v.variants.values():
            for f in fs:
                yield from value_refs(f)
    elif isinstance(v, ArrV):
        if v.elems is not None:
            for e in v.elems:
                yield from value_refs(e)
        else:
            yield from value_refs(v.elem)
    elif isinstance(v, BoxV):
        yield from value_refs(v.inner)
    elif isinstance(v, CursorV):
        yield from value_refs(v.inner)


class Joiner:
    """Joins two states at a node with deterministic fresh atoms."""

    def __init__(self, node_key, s1, s2, widen=False, thresholds=None, diffs=False):
        self.diffs = diffs
        self.nk = node_key
        self.s1 = s1
        self.s2 = s2
        self.widen = widen
        self.thr = thresholds
        self.only1 = []     # candidate facts that hold in s1 only (over result atoms)
        self.only2 = []
        self.structs = []   # (value1, value2, joined) of structs seen at a loop-head join
        self.changed = []   # (alpha, lin1, lin2)
        self.kept = set()   # atoms kept identical
        self.out = State()

    def run(self):
        s1, s2 = self.s1, self.s2
        roots = set(s1.store) | set(s2.store)
        for r in roots:
            v1 = s1.store.get(r, BOT)
            v2 = s2.store.get(r, BOT)
            self.out.store[r] = self.jv(v1, v2, (r,))
        # atoms known to both states: join their intervals
        fresh_atoms = {a for a, _, _ in self.changed}
        a1, a2 = s1.atoms, s2.atoms
        oa = self.out.atoms
        for a, r1 in a1.items():
            if a in fresh_atoms:
                continue
            r2 = a2.get(a)
            if r2 is None:
                oa[a] = r1
            elif r1 == r2:
                oa[a] = r1
            else:
                lo, hi = min(r1[0], r2[0]), max(r1[1], r2[1])
                if self.widen:
                    lo, hi = self._widen(a, r1, (lo, hi))
                oa[a] = (lo, hi)
        for a, r2 in a2.items():
            if a not in a1 and a not in fresh_atoms:
                oa[a] = r2
        self._facts()
        self._defs()
        if self.diffs:
            self._diffs()
        if self.structs:
            self._templates()
        self.out.created = self.s1.created | self.s2.created | {a for a, _, _ in self.changed}
        return self.out

    def _defs(self):
        s1, s2, out = self.s1, self.s2, self.out
        if not s1.defs and not s2.defs:
            return
        fresh = {a for a, _, _ in self.changed}
        d1, d2 = s1.defs, s2.defs
        for a, d in d1.items():
            if a in fresh:
                continue
            e = d2.get(a)
            if e is None:
                if a not in s2.atoms:
                    out.defs[a] = d
            elif e == d:
                if fresh.isdisjoint(d[1].d.keys()) and fresh.isdisjoint(d[2].d.keys()):
                    out.defs[a] = d
        for a, d in d2.items():
            if a not in d1 and a not in fresh and a not in s1.atoms:
                out.defs[a] = d
        if not self.changed:
            return
        m1, m2 = {}, {}
        sub1, sub2 = {}, {}
        for al, l1, l2 in self.changed:
            sub1[al] = l1
            sub2[al] = l2
            for lin, m in ((l1, m1), (l2, m2)):
                sg = lin.single()
                if sg and sg[1] == 1:
                    m.setdefault(sg[0], Lin.var(al).addc(-sg[2]))

        def same(st, sub, x, y):
            """x (over fresh atoms) equals y (over fresh atoms) in input state st."""
            d = x.subst(sub).sub(y.subst(sub))
            return st.prove(d, 1) and st.prove(d.neg(), 1)

        for al, l1, l2 in self.changed:
            g1, g2 = l1.single(), l2.single()
            if not (g1 and g2 and g1[1] == g2[1] and g1[2] == g2[2] and g1[1] > 0):
                continue
            e1, e2 = d1.get(g1[0]), d2.get(g2[0])
            if e1 is None or e2 is None or e1[0] != e2[0]:
                continue
            x1 = (e1[1].subst(m1), e1[2].subst(m1))
            x2 = (e2[1].subst(m2), e2[2].subst(m2))
            uni = None
            if x1 == x2:
                uni = x1
            elif same(s1, sub1, x1[0], x2[0]) and same(s1, sub1, x1[1], x2[1]):
                uni = x2
            elif same(s2, sub2, x1[0], x2[0]) and same(s2, sub2, x1[1], x2[1]):
                uni = x1
            if uni is None:
                continue
            # the unified definition may only mention atoms that live in the result
            okk = True
            for l in uni:
                for x in l.d:
                    if x not in out.atoms and not (x in s1.atoms and x in s2.atoms):
                        okk = False
            if not okk:
                continue
            k, c = g1[1], g1[2]
            if k == 1 and c == 0:
                out.defs[al] = (e1[0], uni[0], uni[1])
            else:
                be = atom(("jd", al))
                r1, r2 = s1.aiv(g1[0]), s2.aiv(g2[0])
                out.atoms[be] = (min(r1[0], r2[0]), max(r1[1], r2[1]))
                _ATOM_RANGE[be] = (-INF, INF)
                out.defs[be] = (e1[0], uni[0], uni[1])
                eq = Lin({al: 1, be: -k}, -c)
                out.facts.add(eq)
                out.facts.add(eq.neg())

    @staticmethod
    def _intish(v):
        """Integer-like components of a struct field: the value itself, the
        ghost length of a Vec/array, the position of a Cursor."""
        if isinstance(v, IntV):
            return [v.lin]
        if isinstance(v, ArrV) and isinstance(v.length, IntV):
            return [v.length.lin]
        if isinstance(v, CursorV):
            out = []
            if isinstance(v.pos, IntV):
                out.append(v.pos.lin)
            if isinstance(v.inner, ArrV) and isinstance(v.inner.length, IntV):
                out.append(v.inner.length.lin)
            return out
        return []

    def _templates(self):
        """Relational object invariants: for the integer-like fields of a struct
        that changed at this join, keep f <= g and f < g when they hold on both
        sides (Houdini over a small template)."""
        s1, s2, out = self.s1, self.s2, self.out
        for a, b, r in self.structs:
            if isinstance(r, CursorV):
                fa, fb, fr_ = self._intish(a), self._intish(b), self._intish(r)
            else:
                fa = [x for f in a.fields for x in self._intish(f)]
                fb = [x for f in b.fields for x in self._intish(f)]
                fr_ = [x for f in r.fields for x in self._intish(f)]
            if not (len(fa) == len(fb) == len(fr_)) or len(fr_) < 2 or len(fr_) > 10:
                continue
            n = len(fr_)
            for i in range(n):
                for j in range(n):
                    if i == j:
                        continue
                    if fa[i] == fb[i] and fa[j] == fb[j]:
                        continue        # neither changed: ordinary fact handling
                    for c in (1, 0):
                        g = fr_[j].sub(fr_[i]).addc(-c)     # f_i + c <= f_j
                        if not g.d or out.lb(g) >= 0:
                            if out.lb(g) >= 0:
                                break
                            continue
                        g1 = fa[j].sub(fa[i]).addc(-c)
                        g2 = fb[j].sub(fb[i]).addc(-c)
                        p1, p2 = s1.prove(g1, 1), s2.prove(g2, 1)
                        if p1 and p2:
                            out.facts.add(g)
                            break
                        elif p1:
                            self.only1.append(g)
                        elif p2:
                            self.only2.append(g)

    def _diffs(self):
        """Induction variables that advance by the same constant step keep
        their pairwise differences across a loop-head join."""
        ch = self.changed
        if len(ch) < 2:
            return
        s1, s2, out = self.s1, self.s2, self.out
        groups = {}
        for al, l1, l2 in ch:
            d = l2.sub(l1)
            if d.d:
                continue
            if d.c != 0:
                groups.setdefault(d.c, []).append((al, l1, l2))
        for step, g in groups.items():
            if len(g) < 2 or len(g) > 12:
                continue
            for i in range(len(g)):
                ai, l1i, _ = g[i]
                for j in range(len(g)):
                    if i == j:
                        continue
                    aj, l1j, _ = g[j]
                    lo = s1.iv2(l1i.sub(l1j))[0]
                    if lo == -INF:
                        continue
                    f = Lin({ai: 1, aj: -1}, -lo)
                    if out.lb(f) < 0:
                        out.facts.add(f)

    def _widen(self, a, old, new):
        """Per-atom delayed widening with thresholds: an atom's bound may grow
        twice freely; the third growth goes to the next threshold that is at
        least 1.5x away, the fourth at least 16x, the fifth to the type bound."""
        lo, hi = new
        tl, th = atom_range(a)
        if hi > old[1]:
            n = _WIDEN_COUNT.get((self.nk, a, 1), 0) + 1
            _WIDEN_COUNT[(self.nk, a, 1)] = n
            if n >= 6 or old[1] == INF:
                hi = th
            elif n >= 3:
                if n == 3 or hi - old[1] <= 1:
                    want = hi
                else:
                    want = max(hi, int(old[1] * 2)) if n == 4 else max(hi, int(old[1] * 16))
                c = [t for t in self.thr if t >= want] if self.thr else []
                hi = min(c) if c else th
                hi = min(hi, th)
                if _DEBUG_WIDEN and hi == _DEBUG_WIDEN:
                    import sys
                    sys.stderr.write("WIDEN a%d %s nk=%s old=%r new=%r n=%d want=%r\n" % (a, repr(atom_key(a))[-100:], repr(self.nk)[-120:], old, new, n, want))
        if lo < old[0]:
            n = _WIDEN_COUNT.get((self.nk, a, 0), 0) + 1
            _WIDEN_COUNT[(self.nk, a, 0)] = n
            if n >= 6 or old[0] == -INF:
                lo = tl
            elif n >= 3:
                want = lo
                f = 1 if (n == 3 or old[0] - lo <= 1) else (2 if n == 4 else 16)
                if old[0] > 0:
                    want = min(lo, int(old[0] / f))
                elif old[0] < 0:
                    want = min(lo, int(old[0] * f))
                c = [t for t in self.thr if t <= want] if self.thr else []
                lo = max(c) if c else tl
                lo = max(lo, tl)
        return lo, hi

    def jint(self, a, b, path):
        if a.lin == b.lin:
            if a.cond == b.cond and a.rng == b.rng:
                return a
            return IntV(a.lin, a.cond if a.cond == b.cond else None, a.rng if a.rng == b.rng else None)
        l1, h1 = self.s1.iv2(a.lin)
        l2, h2 = self.s2.iv2(b.lin)
        rng = None
        ra, rb = a.rng, b.rng
        if ra is None:
            sg = a.lin.single()
            if sg and sg[1] == 1 and sg[2] == 0 and atom_range(sg[0])[0] != -INF:
                ra = atom_range(sg[0])
            elif not a.lin.d:
                ra = rb
        if rb is None:
            sg = b.lin.single()
            if sg and sg[1] == 1 and sg[2] == 0 and atom_range(sg[0])[0] != -INF:
                rb = atom_range(sg[0])
            elif not b.lin.d:
                rb = ra
        if ra is not None and rb is not None:
            rng = (min(ra[0], rb[0]), max(ra[1], rb[1]))
        if a.rng is not None:
            l1, h1 = max(l1, a.rng[0]), min(h1, a.rng[1])
        if b.rng is not None:
            l2, h2 = max(l2, b.rng[0]), min(h2, b.rng[1])
        lo, hi = min(l1, l2), max(h1, h2)
        key = ("j", self.nk, path)
        al = atom(key)
        if rng is not None:
            _ATOM_RANGE[al] = rng
        else:
            _ATOM_RANGE.setdefault(al, (-INF, INF))
        if self.widen:
            lo, hi = self._widen(al, (l1, h1), (lo, hi))
        self.out.atoms[al] = (lo, hi)
        self.changed.append((al, a.lin, b.lin))
        return IntV(Lin.var(al), None, rng)

    def jv(self, a, b, path):
        if a is b:
            return a
        if isinstance(a, BotV):
            return b
        if isinstance(b, BotV):
            return a
        if isinstance(a, TopV) or isinstance(b, TopV):
            return a if isinstance(a, TopV) else b
        ta, tb = type(a), type(b)
        if ta is not tb:
            return TopV()
        if ta is IntV:
            return self.jint(a, b, path)
        if ta is StructV:
            if a.name != b.name or len(a.fields) != len(b.fields):
                return TopV()
            r = StructV(a.name, [self.jv(x, y, path + (("f", i),))
                                 for i, (x, y) in enumerate(zip(a.fields, b.fields))])
            if a.name is not None:
                self.structs.append((a, b, r))
            return r
        if ta is ClosureV:
            if a.defk != b.defk or len(a.fields) != len(b.fields):
                return TopV()
            return ClosureV(a.defk, [self.jv(x, y, path + (("f", i),))
                                     for i, (x, y) in enumerate(zip(a.fields, b.fields))])
        if ta is EnumV:
            if a.name != b.name:
                return TopV()
            vs = {}
            gs = {}
            for vi in set(a.variants) | set(b.variants):
                fa = a.variants.get(vi)
                fb = b.variants.get(vi)
                if fa is None or fb is None:
                    f = fa if fa is not None else fb
                    vs[vi] = f
                    g = (a.guards if fa is not None else b.guards).get(vi)
                    if g:
                        gs[vi] = g
                elif len(fa) != len(fb):
                    vs[vi] = tuple(TopV() for _ in fa)
                else:
                    vs[vi] = tuple(self.jv(x, y, path + (("v", vi), ("f", i)))
                                   for i, (x, y) in enumerate(zip(fa, fb)))
                    ga, gb = a.guards.get(vi), b.guards.get(vi)
                    if ga and ga == gb:
                        gs[vi] = ga
            return EnumV(a.name, vs, gs)
        if ta is ArrV:
            if a.kind != b.kind:
                return TopV()
            ln = self.jv(a.length, b.length, path + (("len",),))
            if a.elems is not None and b.elems is not None and len(a.elems) == len(b.elems):
                return ArrV(a.kind, ln, None, tuple(self.jv(x, y, path + (("i", i),))
                                                   for i, (x, y) in enumerate(zip(a.elems, b.elems))))
            ea = a.elem if a.elems is None else None
            eb = b.elem if b.elems is None else None
            if ea is None:
                ea = BOT
                for i, x in enumerate(a.elems):
                    ea = x if isinstance(ea, BotV) else Joiner._merge_same(self, ea, x, path + (("ea", i),), 1)
            if eb is None:
                eb = BOT
                for i, x in enumerate(b.elems):
                    eb = x if isinstance(eb, BotV) else Joiner._merge_same(self, eb, x, path + (("eb", i),), 2)
            return ArrV(a.kind, ln, self.jv(ea, eb, path + (("e",),)))
        if ta is RefV:
            sl = None
            if a.slen is not None and b.slen is not None:
                sl = self.jv(a.slen, b.slen, path + (("slen",),))
            elif a.slen is not None or b.slen is not None:
                sl = None
            return RefV(a.paths | b.paths, sl)
        if ta is BoxV:
            return BoxV(self.jv(a.inner, b.inner, path + (("box",),)))
        if ta is CursorV:
            r = CursorV(self.jv(a.inner, b.inner, path + (("cin",),)),
                        self.jv(a.pos, b.pos, path + (("cpos",),)))
            self.structs.append((a, b, r))
            return r
        if ta is OpaqueV:
            return a
        if ta is FnV:
            return a if a == b else TopV()
        return TopV()

    def _merge_same(self, x, y, path, which):
        """Join two values that live in the SAME input state (summarising the
        elements of one array)."""
        st = self.s1 if which == 1 else self.s2
        return summarise(st, x, y, ("m", self.nk, path))

    # ---- facts
    def _facts(self):
        s1, s2, out = self.s1, self.s2, self.out
        if not s1.facts and not s2.facts:
            return
        fresh = {a for a, _, _ in self.changed}
        common = s1.facts & s2.facts
        a1, a2 = s1.atoms, s2.atoms
        for f in common:
            if fresh and not fresh.isdisjoint(f.d.keys()):
                continue
            self._add_fact(f)
        rest1 = s1.facts - common
        rest2 = s2.facts - common
        if not rest1 and not rest2 and not self.changed:
            return
        m1, m2 = {}, {}
        sub1, sub2 = {}, {}
        for al, l1, l2 in self.changed:
            sub1[al] = l1
            sub2[al] = l2
            for lin, m in ((l1, m1), (l2, m2)):
                sg = lin.single()
                if sg and sg[1] in (1, -1):
                    a, k, c = sg
                    if a not in m:
                        m[a] = Lin.var(al).addc(-c).scale(k)
        cands = set()
        for facts, m, mine, other in ((s1.facts if self.changed else rest1, m1, a1, a2),
                                      (s2.facts if self.changed else rest2, m2, a2, a1)):
            for f in facts:
                mapped = False
                ok = True
                for a in f.d:
                    if a in m:
                        mapped = True
                    elif a in fresh or a not in other:
                        ok = False
                        break
                if not ok:
                    continue
                if mapped:
                    mm = {a: m[a] for a in f.d if a in m}
                    g = f.subst(mm)
                    if g.d:
                        cands.add(g)
                    # the unmapped reading is a candidate too when its atoms live on both sides
                    if all((a in other and a not in fresh) for a in f.d) and f not in common:
                        cands.add(f)
                elif f not in common:
                    cands.add(f)
        for g in cands:
            if g in out.facts:
                continue
            if fresh.isdisjoint(g.d.keys()):
                p1, p2 = s1.prove(g, 1), s2.prove(g, 1)
            else:
                p1, p2 = s1.prove(g.subst(sub1), 1), s2.prove(g.subst(sub2), 1)
            if p1 and p2:
                self._add_fact(g)
            elif p1:
                self.only1.append(g)
            elif p2:
                self.only2.append(g)

    def _add_fact(self, g):
        if self.out.lb(g) >= 0:
            return
        self.out.facts.add(g)


def summarise(st, x, y, key):
    """Join two values inside one state (used to smash array elements)."""
    if x == y:
        return x
    if isinstance(x, BotV):
        return y
    if isinstance(y, BotV):
        return x
    if isinstance(x, IntV) and isinstance(y, IntV):
        l1, h1 = st.iv2(x.lin)
        l2, h2 = st.iv2(y.lin)
        rng = None
        if x.rng is not None and y.rng is not None:
            rng = (min(x.rng[0], y.rng[0]), max(x.rng[1], y.rng[1]))
        if x.rng is not None:
            l1, h1 = max(l1, x.rng[0]), min(h1, x.rng[1])
        if y.rng is not None:
            l2, h2 = max(l2, y.rng[0]), min(h2, y.rng[1])
        a = st.fresh(key, min(l1, l2), max(h1, h2), rng)
        return IntV(Lin.var(a), None, rng)
    if type(x) is not type(y):
        return TopV()
    if isinstance(x, StructV) and x.name == y.name and len(x.fields) == len(y.fields):
        return StructV(x.name, [summarise(st, a, b, key + (i,))
                                for i, (a, b) in enumerate(zip(x.fields, y.fields))])
    if isinstance(x, EnumV) and x.name == y.name:
        vs = {}
        for vi in set(x.variants) | set(y.variants):
            fa, fb = x.variants.get(vi), y.variants.get(vi)
            if fa is None or fb is None:
                vs[vi] = fa if fa is not None else fb
            else:
                vs[vi] = tuple(summarise(st, a, b, key + (vi, i)) for i, (a, b) in enumerate(zip(fa, fb)))
        return EnumV(x.name, vs)
    if isinstance(x, ArrV) and x.kind == y.kind:
        ex = x.elem if x.elems is None else _smash(st, x.elems, key + ("x",))
        ey = y.elem if y.elems is None else _smash(st, y.elems, key + ("y",))
        return ArrV(x.kind, summarise(st, x.length, y.length, key + ("len",)),
                    summarise(st, ex, ey, key + ("e",)))
    if isinstance(x, RefV):
        sl = None
        if x.slen is not None and y.slen is not None:
            sl = summarise(st, x.slen, y.slen, key + ("slen",))
        return RefV(x.paths | y.paths, sl)
    if isinstance(x, BoxV):
        return BoxV(summarise(st, x.inner, y.inner, key + ("box",)))
    if isinstance(x, CursorV):
        return CursorV(summarise(st, x.inner, y.inner, key + ("cin",)),
                       summarise(st, x.pos, y.pos, key + ("cpos",)))
    if isinstance(x, (OpaqueV,)):
        return x
    return TopV()


def _smash(st, elems, key):
    r = BOT
    for i, e in enumerate(elems):
        r = summarise(st, r, e, key + (i,))
    return r


def states_equal(a, b):
    """Fixpoint test: same store; same intervals for referenced atoms; same facts."""
    if a is None or b is None:
        return a is b
    if a.store.keys() != b.store.keys():
        return False
    for r, v in a.store.items():
        if v is not b.store[r] and v != b.store[r]:
            return False
    if a.facts != b.facts:
        return False
    used = set()
    for v in a.store.values():
        value_atoms(v, used)
    for f in a.facts:
        used.update(f.d.keys())
    for x in used:
        if a.aiv(x) != b.aiv(x):
            return False
    return True


def gc_state(st, extra=None):
    """Drop atoms and facts that no stored value references."""
    used = set()
    for v in st.store.values():
        value_atoms(v, used)
    if extra is not None:
        for v in extra:
            value_atoms(v, used)
    # facts: keep those whose atoms are all referenced
    st.facts = {f for f in st.facts if all(a in used for a in f.d)}
    st.atoms = {a: r for a, r in st.atoms.items() if a in used}
    if st.defs:
        keep = set(used)
        for a, d in st.defs.items():
            if a in used:
                keep.update(d[1].d.keys())
                keep.update(d[2].d.keys())
        st.defs = {a: d for a, d in st.defs.items() if a in keep}
    if st.created:
        st.created = st.created & used
    st._idx = None
    return st
