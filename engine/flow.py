"""Intraprocedural helpers for path rules: exit classes, definitions, terms.

Everything is keyed by MIR structure (callee paths, field names, constants and
data-flow provenance); source positions are used in reports only.
"""
from .cfg import CFG
from .mir import _strip_generics

_CFG = {}


def cfg(body):
    c = _CFG.get(id(body))
    if c is None:
        c = CFG(body)
        _CFG[id(body)] = c
    return c


def short(n):
    return _strip_generics(n) if n else n


def callee(term):
    if term.k != "call" or term.callee is None:
        return None
    return short(term.callee.target().name)


def declared(term):
    if term.k != "call" or term.callee is None:
        return None
    return short(term.callee.name)


def method(term):
    if term.k != "call" or term.callee is None:
        return None
    return term.callee.method


def is_try_branch(term):
    return term.k == "call" and (declared(term) or "").endswith("Try::branch")


def is_from_residual(term):
    return term.k == "call" and (declared(term) or "").endswith("FromResidual::from_residual")


# ------------------------------------------------------------- definitions

def defs_of(body):
    """local -> list of (bb, idx or 'call', node) definitions (whole-local
    assignments only)."""
    d = {}
    for b in body.blocks:
        if b.cleanup:
            continue
        for i, s in enumerate(b.stmts):
            if s.k == "assign":
                d.setdefault(s.place.local, []).append((b.idx, i, s))
        if b.term.k == "call":
            d.setdefault(b.term.dest.local, []).append((b.idx, "call", b.term))
    return d


class Terms:
    """Provenance terms of operands: follows single-definition locals (named
    or not) through copies, casts, checked-op tuples and `?`."""

    def __init__(self, body):
        self.body = body
        self.defs = defs_of(body)
        self.memo = {}

    def of_local(self, l, depth=0):
        if l in self.memo:
            return self.memo[l]
        if depth > 80:
            return ("deep",)
        ds = self.defs.get(l, [])
        if l <= self.body.arg_count and l != 0:
            r = ("arg", l, self.body.locals[l].name)
        elif len(ds) == 0:
            r = ("undef", l)
        elif len(ds) > 1:
            # several definitions: a phi of their terms (set)
            self.memo[l] = ("phi", l)
            parts = []
            for (bb, i, node) in ds:
                parts.append(self.of_def(bb, i, node, depth + 1))
            uniq = sorted(set(parts), key=repr)
            # copies of one definition (the duplicated `?` of a spliced helper) are one definition
            r = uniq[0] if (len(uniq) == 1 and getattr(self.body, "spliced", False)) else ("phi", tuple(uniq))
        else:
            bb, i, node = ds[0]
            self.memo[l] = ("rec", l)
            r = self.of_def(bb, i, node, depth + 1)
        self.memo[l] = r
        return r

    def of_def(self, bb, i, node, depth):
        if i == "call":
            t = node
            nm = callee(t) or "indirect"
            dn = declared(t)
            if is_try_branch(t):
                return ("try", self.of_operand(t.args[0], depth + 1))
            if nm.endswith("hint::must_use"):
                return self.of_operand(t.args[0], depth + 1)
            if (dn or "").endswith(("Into::into", "From::from")) and t.dest.ty.is_int() and t.args and t.args[0].ty.is_int():
                return ("cast", t.dest.ty.s, self.of_operand(t.args[0], depth + 1), t.args[0].ty.s)
            if (dn or "").endswith(("Into::into", "From::from")):
                return self.of_operand(t.args[0], depth + 1)
            return ("call", dn or nm, tuple(self.of_operand(a, depth + 1) for a in t.args), bb)
        s = node
        if s.place.proj:
            return ("partial", s.place.local)
        return self.of_rvalue(s.rv, depth)

    def of_rvalue(self, rv, depth):
        k = rv.k
        if k == "use":
            return self.of_operand(rv.op, depth + 1)
        if k == "cast":
            return ("cast", rv.ty.s, self.of_operand(rv.op, depth + 1), rv.op.ty.s)
        if k == "binop":
            return (rv.binop.replace("WithOverflow", ""), self.of_operand(rv.a, depth + 1),
                    self.of_operand(rv.b, depth + 1), rv.a.ty.s)
        if k == "unop":
            return (rv.unop, self.of_operand(rv.a, depth + 1))
        if k == "ref":
            return ("ref", self.of_place(rv.place, depth + 1))
        if k == "discriminant":
            return ("discr", self.of_place(rv.place, depth + 1))
        if k == "aggregate":
            tag = rv.adt_name + "::" + rv.variant_name if rv.agg == "adt" else rv.agg
            return ("agg", tag, tuple(self.of_operand(o, depth + 1) for o in rv.ops))
        if k == "repeat":
            return ("repeat", self.of_operand(rv.op, depth + 1), rv.count)
        return (k,)

    def of_place(self, pl, depth=0):
        base = self.of_local(pl.local, depth + 1)
        for p in pl.proj:
            if p[0] == "deref":
                # *&x is x (reborrows, and arguments bound by assignment when a helper is spliced into its caller)
                # (only in bodies that received spliced code: elsewhere the terms - which key rules/justified.json - stay as they were)
                base = base[1] if (getattr(self.body, "spliced", False) and isinstance(base, tuple) and len(base) == 2 and base[0] == "ref") \
                    else ("deref", base)
            elif p[0] == "field":
                # field 0 of a checked-op tuple / ControlFlow payload is transparent
                if isinstance(base, tuple) and base and base[0] in ("Add", "Sub", "Mul", "Shl", "Shr") and p[1] == 0:
                    continue
                if isinstance(base, tuple) and base and base[0] in ("okp", "errp") and p[1] == 0:
                    base = _payload(base[0][:-1], base[1])
                    continue
                base = ("field", p[2] if p[2] is not None else p[1], base)
            elif p[0] == "downcast":
                if isinstance(base, tuple) and base and base[0] == "try" and p[2] == "Continue":
                    base = ("okp", base[1])
                elif isinstance(base, tuple) and base and base[0] == "try" and p[2] == "Break":
                    base = ("errp", base[1])
                else:
                    base = ("as", p[2], base)
            elif p[0] == "index":
                base = ("index", base, self.of_local(p[1], depth + 1))
            elif p[0] == "constindex":
                base = ("index", base, p[1])
        return base

    def of_operand(self, op, depth=0):
        if op.is_const():
            c = op.const_int()
            if c is not None:
                return ("const", c)
            if isinstance(op.val, dict) and "bytes" in op.val:
                return ("bytes", tuple(op.val["bytes"]))
            if op.fn is not None:
                return ("fn", op.fn.name)
            return ("constval", op.s)
        return self.of_place(op.place, depth)


def _payload(which, x):
    """`ok(x)` / `err(x)`: the payload `?` extracts from x.  When x is visibly built as Ok(p) / Err(p) (the spliced-in body of
    a helper that returns a Result) the payload is p itself; alternatives of a phi that cannot be of that variant drop out."""
    want = "::Ok" if which == "ok" else "::Err"
    other = "::Err" if which == "ok" else "::Ok"

    def one(t):
        if isinstance(t, tuple) and t and t[0] == "agg" and isinstance(t[1], str) and t[1].endswith("Result" + want) and len(t[2]) == 1:
            return t[2][0]
        if isinstance(t, tuple) and t and t[0] == "agg" and isinstance(t[1], str) and t[1].endswith("Result" + other):
            return None
        if which == "ok" and isinstance(t, tuple) and t and t[0] == "call" and str(t[1]).endswith("from_residual"):
            return None
        return (which, t)

    if isinstance(x, tuple) and len(x) == 2 and x[0] == "phi" and isinstance(x[1], tuple) and x[1] and not isinstance(x[1][0], str):
        alts = [one(a) for a in x[1]]
        if any(isinstance(a, tuple) and a and a[0] == which for a in alts if a is not None):
            return (which, x)
        alts = [a for a in alts if a is not None]
        if len(alts) == 1:
            return alts[0]
        if alts:
            return ("phi", tuple(sorted(set(alts), key=repr)))
        return (which, x)
    r = one(x)
    return r if r is not None else (which, x)


class PosTerms(Terms):
    """Flow-sensitive variant: a local with several definitions is resolved to
    its nearest dominating definition when no other definition can reach the
    use without passing it (straight-line reassignment such as `pb /= 9`)."""

    def __init__(self, body):
        Terms.__init__(self, body)
        self.c = cfg(body)
        self.pos = None

    def at(self, bb, idx):
        self.pos = (bb, idx if idx is not None else 1 << 30)
        self.memo = {}
        return self

    def of_local(self, l, depth=0):
        ds = self.defs.get(l, [])
        is_arg = 1 <= l <= self.body.arg_count
        if len(ds) == 0 or (len(ds) == 1 and not is_arg) or self.pos is None or depth > 60:
            return Terms.of_local(self, l, depth)
        ub, ui = self.pos
        best = None
        for (bb, i, node) in ds:
            ii = (1 << 29) if i == "call" else i
            if bb == ub and ii < ui:
                dom = True
            elif bb != ub and self.c.dominates(bb, ub):
                dom = True
            else:
                dom = False
            if not dom:
                continue
            if best is None:
                best = (bb, i, node, ii)
            else:
                # later = dominated by the current best
                if (bb == best[0] and ii > best[3]) or (bb != best[0] and self.c.dominates(best[0], bb)):
                    best = (bb, i, node, ii)
        if best is None:
            return Terms.of_local(self, l, depth)
        # another definition reaching the use around `best` makes it ambiguous
        for (bb, i, node) in ds:
            if (bb, i) == (best[0], best[1]):
                continue
            ii = (1 << 29) if i == "call" else i
            before_best = (bb == best[0] and ii < best[3]) or (bb != best[0] and self.c.dominates(bb, best[0]))
            if before_best:
                continue
            if bb == ub and ii >= ui and not (self.c.reachable_from(bb) & {ub} and ub in self.c.loop_blocks_of(ub)):
                continue
            if ub in self.c.reachable_from(bb, avoid=[best[0]] if best[0] != bb else []) or bb == ub:
                return Terms.of_local(self, l, depth)
        saved = self.pos
        self.pos = (best[0], best[3])
        try:
            r = self.of_def(best[0], best[1], best[2], depth + 1)
        finally:
            self.pos = saved
        return r

    def of_def(self, bb, i, node, depth):
        saved = self.pos
        if self.pos is not None:
            self.pos = (bb, (1 << 29) if i == "call" else i)
        try:
            return Terms.of_def(self, bb, i, node, depth)
        finally:
            self.pos = saved


def term_atoms(t, out=None):
    """Leaves of a term: calls, args, constants."""
    if out is None:
        out = []
    if not isinstance(t, tuple) or not t:
        return out
    if t and t[0] in ("call", "arg", "const", "bytes", "constval", "fn", "undef"):
        out.append(t)
        if t[0] == "call":
            for a in t[2]:
                term_atoms(a, out)
        return out
    for x in (t[1:] if isinstance(t[0], str) else t):
        if isinstance(x, tuple):
            term_atoms(x, out)
    return out


def term_has(t, pred):
    if not isinstance(t, tuple) or not t:
        return False
    if not isinstance(t[0], str):
        # a plain tuple of terms (call arguments, aggregate operands)
        return any(term_has(x, pred) for x in t)
    try:
        if pred(t):
            return True
    except (IndexError, TypeError, AttributeError):
        pass
    for x in t[1:]:
        if isinstance(x, tuple) and term_has(x, pred):
            return True
    return False


def show(t, depth=0):
    if not isinstance(t, tuple):
        return str(t)
    if t and not isinstance(t[0], str):
        return ",".join(show(x, depth + 1) for x in t)
    if depth > 8:
        return "…"
    if not t:
        return "()"
    h = t[0]
    if h == "const":
        return str(t[1])
    if h == "arg":
        return "arg:%s" % (t[2] or t[1])
    if h == "call":
        return "%s(%s)" % (t[1].split("::")[-1], ",".join(show(a, depth + 1) for a in t[2]))
    if h == "cast":
        return "%s as %s" % (show(t[2], depth + 1), t[1])
    if h in ("phi", "rec") and len(t) == 2 and isinstance(t[1], int):
        return "loopvar"
    if h in ("Add", "Sub", "Mul", "Shl", "Shr", "BitAnd", "BitOr", "BitXor", "Eq", "Ne", "Lt", "Le", "Gt", "Ge", "Div", "Rem"):
        return "%s(%s,%s)" % (h, show(t[1], depth + 1), show(t[2], depth + 1))
    return "%s(%s)" % (h, ",".join(show(x, depth + 1) for x in t[1:]))


# ------------------------------------------------------------- exit classes

def ret_sources(body):
    """Classify every assignment to the return place: -> dict bb -> 'ok' | 'err'
    | 'any' (call result) | 'other'.  Only Result-returning bodies are
    meaningful; Option/bool bodies get 'other'."""
    res = {}
    for b in body.blocks:
        if b.cleanup:
            continue
        for s in b.stmts:
            if s.k == "assign" and s.place.local == 0 and not s.place.proj:
                rv = s.rv
                if rv.k == "aggregate" and rv.agg == "adt" and rv.adt_name == "std::result::Result":
                    res[b.idx] = "ok" if rv.variant == 0 else "err"
                elif rv.k == "use" and not rv.op.is_const():
                    res[b.idx] = "any"
                else:
                    res[b.idx] = "other"
        t = b.term
        if t.k == "call" and t.dest.local == 0 and not t.dest.proj:
            if is_from_residual(t):
                res[b.idx] = "err"
            else:
                res[b.idx] = "any"
    return res


def ok_blocks(body):
    return [b for b, k in ret_sources(body).items() if k in ("ok", "any", "other")]


def err_blocks(body):
    return [b for b, k in ret_sources(body).items() if k == "err"]


def reaches_ok(body, start, avoid=()):
    """Can a block that may produce an Ok (or unknown) return value be reached
    from `start` without entering `avoid`?"""
    c = cfg(body)
    r = c.reachable_from(start, avoid=avoid)
    return bool(r & set(ok_blocks(body)))


def only_err_from(body, start):
    """Every path from `start` ends in an Err assignment (no Ok/unknown source
    reachable) and the function's Return is reached only through them."""
    return not reaches_ok(body, start)


def switch_on(body, bb):
    t = body.blocks[bb].term
    return t if t.k == "switch" else None


def calls_in(body, pred):
    out = []
    for b in body.blocks:
        if b.cleanup or b.term.k != "call":
            continue
        if pred(b.term):
            out.append(b.idx)
    return out


def find_body(facts, pred):
    return [b for b in facts.bodies if pred(b)]


def ret_ty(body):
    return body.locals[0].ty
