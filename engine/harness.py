"""Entry harnesses for E-AI: most general clients of the public API.

Free public functions are analysed with most general arguments.  For a public
type the harness computes the object invariant as a fixpoint:
constructors' results joined with the post-state of every &self / &mut self
method started in the invariant; by-value (consuming) methods are analysed from
the invariant.  Entry points are discovered from the reachability facts, so a
new `pub fn` joins automatically.
"""
import hashlib
import os
import pickle
import sys
import time
from collections import Counter

from .ai import Interp, Obligation, Run
from .dom import (BOT, ArrV, BotV, EnumV, IntV, Joiner, Lin, RefV, State, StructV, TopV, gc_state,
                  reset_atoms, states_equal)
from .mir import Facts, Ty, _strip_generics
from .models import build_models, io_trait_models

COUNTER_FIELDS = {
    ("decode::lzbuffer::LzAccumBuffer", "len"),
    ("decode::lzbuffer::LzCircularBuffer", "len"),
    ("decode::util::CountBufRead", "count"),
    ("encode::util::CountWrite", "count"),
}

HARNESS_TRAITS = {"std::io::Write", "std::default::Default"}
SKIP_TRAITS_PREFIX = ("std::fmt::", "std::clone::", "std::cmp::", "std::marker::", "std::convert::",
                      "std::error::", "std::hash::")


def new_interp(facts):
    ai = Interp(facts, build_models())
    ai.io_models = io_trait_models()
    ai.counter_fields = set(COUNTER_FIELDS)
    return ai


def self_kind(body):
    """'none' | 'ref' | 'mut' | 'value' for the receiver of an associated fn."""
    if body.arg_count == 0 or body.self_ty is None:
        return "none"
    t = body.locals[1].ty
    n = body.locals[1].name
    if n != "self":
        return "none"
    if t.k == "ref":
        return "mut" if t.mut else "ref"
    return "value"


def discover(facts):
    """-> (free fns, {type name: {'ctors':[], 'methods':[], 'consumers':[]}})."""
    free = []
    types = {}
    for b in facts.bodies:
        if b.kind not in ("Fn", "AssocFn") or not b.reachable:
            continue
        if getattr(b, "promoted", None):
            continue
        if b.trait:
            if b.trait not in HARNESS_TRAITS:
                continue
        if b.kind == "Fn":
            free.append(b)
            continue
        st = b.self_ty
        if st is None or st.k != "adt" or st.defk not in facts.adts:
            continue
        adt = facts.adts[st.defk]
        if adt["kind"] == "Enum" and not adt["variants"]:
            continue
        slot = types.setdefault(st.name, {"ty": st, "ctors": [], "methods": [], "consumers": []})
        sk = self_kind(b)
        if sk == "none":
            slot["ctors"].append(b)
        elif sk == "value":
            slot["consumers"].append(b)
        else:
            slot["methods"].append(b)
    return free, types


def payload_of(v, type_name):
    """Extract values of ADT `type_name` from a constructor result
    (T, Result<T,_>, Option<T>)."""
    if isinstance(v, StructV) and v.name == type_name:
        return v
    if isinstance(v, EnumV):
        if v.name == type_name:
            return v
        if v.name == "std::result::Result" and 0 in v.variants:
            return payload_of(v.variants[0][0], type_name)
        if v.name == "std::option::Option" and 1 in v.variants:
            return payload_of(v.variants[1][0], type_name)
    return None


class EntryResult:
    """Picklable summary of one entry analysis."""

    def __init__(self, name):
        self.name = name
        self.obligations = []     # dicts
        self.calls = {}           # (fn, bb, callee) -> info
        self.unmodelled = {}
        self.assumed = {}
        self.stats = {}
        self.wall = 0.0
        self.error = None
        self.returns = {}         # entry fn -> repr of return value variants
        self.visited = {}         # fn name -> set of visited blocks (union over contexts)
        self.wloops = {}          # fn name -> set of loop headers whose unrolling overflowed


def obligation_dict(o):
    return {"fn": o.fn, "bb": o.bb, "kind": o.kind, "desc": o.desc, "file": o.span.file,
            "line": o.span.line, "col": o.span.col, "macro": o.span.macro, "verdict": o.verdict,
            "how": o.how}


def collect(ai, roots, res=None):
    seen = set()
    obls = []
    calls = {}
    st = list(roots)
    while st:
        r = st.pop()
        if id(r) in seen:
            continue
        seen.add(id(r))
        obls.extend(r.obls.values())
        if res is not None:
            res.visited.setdefault(r.name, set()).update(r.visited)
            res.wloops.setdefault(r.name, set()).update(x for x in r.wloops if x is not None)
        for k, v in getattr(r, "calls", {}).items():
            old = calls.get(k)
            if old is None:
                calls[k] = v
            else:
                calls[k] = merge_call_info(old, v)
        st.extend(r.children.values())
    return obls, calls


def merge_call_info(a, b):
    ints = []
    for x, y in zip(a["ints"], b["ints"]):
        if x is None or y is None:
            ints.append(None)
        else:
            ints.append((min(x[0], y[0]), max(x[1], y[1])))
    return {"ints": ints, "n": a["n"] + b["n"]}


def run_free(ai, body):
    st = State()
    args = [ai.mk_top(body.locals[i + 1].ty, ("arg", body.defk, i), st, {}) for i in range(body.arg_count)]
    mark = len(ai.roots_runs)
    rv, so = ai.analyze(body, {}, ((body.defk, 0, None),), st, args)
    return ai.roots_runs[mark:], rv


def run_type(ai, tname, slot, log=None):
    """Most general client of one public type."""
    roots = []
    H = ("H", "obj", tname)
    inv = None     # State with store {H: value}

    def absorb(val, so, tag):
        nonlocal inv
        if val is None or so is None:
            return False
        s = State({H: val}, dict(so.atoms), set(so.facts), set(), dict(so.defs))
        # keep whatever the object references
        work = [val]
        from .dom import value_refs
        seenr = set()
        while work:
            v = work.pop()
            for p in value_refs(v):
                if p[0] not in seenr and p[0] in so.store:
                    seenr.add(p[0])
                    s.store[p[0]] = so.store[p[0]]
                    work.append(so.store[p[0]])
        gc_state(s)
        if inv is None:
            inv = s
            return True
        absorb.n += 1
        new = Joiner((("mgc", tname), "h"), inv, s, True, ai.thresholds, True).run()
        gc_state(new)
        if states_equal(inv, new):
            return False
        inv = new
        return True

    absorb.n = 0
    for c in slot["ctors"]:
        st = State()
        args = [ai.mk_top(c.locals[i + 1].ty, ("arg", c.defk, i), st, {}) for i in range(c.arg_count)]
        mark = len(ai.roots_runs)
        rv, so = ai.analyze(c, {}, ((c.defk, 0, "ctor"),), st, args)
        roots.extend(ai.roots_runs[mark:])
        if so is None:
            continue
        # the constructor's success variant carries the facts of its exit class (e.g. dict_size != 0)
        if isinstance(rv, EnumV) and rv.name in ("std::result::Result", "std::option::Option"):
            vi = 0 if rv.name == "std::result::Result" else 1
            dead = False
            for g in getattr(rv, "guards", {}).get(vi, ()):
                if not so.assume(g):
                    dead = True
            if dead:
                continue
        absorb(payload_of(rv, tname), so, c.name)
    if inv is None:
        return roots
    final_method_roots = {}
    for rnd in range(40):
        changed = False
        for m in slot["methods"]:
            st = inv.copy()
            args = [RefV([(H, ())])]
            for i in range(1, m.arg_count):
                args.append(ai.mk_top(m.locals[i + 1].ty, ("arg", m.defk, i), st, {}))
            mark = len(ai.roots_runs)
            rv, so = ai.analyze(m, {}, ((m.defk, 0, "m"),), st, args)
            final_method_roots[m.defk] = ai.roots_runs[mark:]
            if so is None:
                continue
            if absorb(so.store.get(H), so, m.name):
                changed = True
        if not changed:
            break
    else:
        raise RuntimeError("object invariant of %s did not converge" % tname)
    for rs in final_method_roots.values():
        roots.extend(rs)
    for m in slot["consumers"]:
        st = inv.copy()
        args = [st.store[H]]
        for i in range(1, m.arg_count):
            args.append(ai.mk_top(m.locals[i + 1].ty, ("arg", m.defk, i), st, {}))
        mark = len(ai.roots_runs)
        rv, so = ai.analyze(m, {}, ((m.defk, 0, "c"),), st, args)
        roots.extend(ai.roots_runs[mark:])
    return roots


def analyse_entry(facts_path, kind, name):
    """Worker: analyse one entry (free fn or public type). Returns EntryResult."""
    t0 = time.time()
    res = EntryResult(name)
    try:
        reset_atoms()
        facts = Facts(facts_path)
        ai = new_interp(facts)
        free, types = discover(facts)
        if kind == "fn":
            b = facts.by_def[name]
            roots, rv = run_free(ai, b)
        else:
            roots = run_type(ai, name, types[name])
        obls, calls = collect(ai, roots, res)
        res.obligations = [obligation_dict(o) for o in obls]
        res.calls = calls
        res.unmodelled = dict(ai.unmodelled)
        res.assumed = {"%s.%s" % k: v for k, v in ai.assumed.items()}
        res.stats = dict(ai.stats)
        res.stats["cache"] = len(ai.cache)
    except Exception as e:  # noqa
        import traceback
        res.error = "%s: %s\n%s" % (type(e).__name__, e, traceback.format_exc()[-1500:])
    res.wall = time.time() - t0
    return res


def entries_of(facts, decode_only=True):
    free, types = discover(facts)
    out = []
    for b in free:
        out.append(("fn", b.defk, b.name))
    for tname in sorted(types):
        out.append(("type", tname, tname))
    return out
