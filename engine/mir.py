"""Loader and light object model for the JSON facts written by tools/lzfacts.

Nothing here runs repository code: it is a reader for the type-checked program
(MIR at mir-opt-level 0 with overflow checks) as dumped by the driver.
"""
import json, os


class Ty:
    __slots__ = ("k", "s", "bits", "signed", "ptr", "defk", "name", "args", "to", "mut", "elem",
                 "len", "elems", "raw")

    def __init__(self, j):
        self.raw = j
        self.k = j["k"]
        self.s = j.get("s", "")
        self.bits = j.get("bits")
        self.signed = self.k == "int"
        self.ptr = j.get("ptr", False)
        self.defk = j.get("def")
        self.name = j.get("name")
        self.args = [mk_garg(a) for a in j.get("args", [])] if "args" in j else []
        self.to = Ty(j["to"]) if "to" in j else None
        self.mut = j.get("mut", False)
        self.elem = Ty(j["elem"]) if "elem" in j else None
        self.len = j.get("len")
        self.elems = [Ty(e) for e in j.get("elems", [])]
        if self.k == "bool":
            self.bits = 1
        if self.k == "char":
            self.bits = 32

    def is_int(self):
        return self.k in ("int", "uint", "bool", "char")

    def is_adt(self, name=None):
        if self.k != "adt":
            return False
        return name is None or self.name == name

    def __repr__(self):
        return self.s


class ConstArg:
    __slots__ = ("val",)

    def __init__(self, j):
        self.val = j["val"]

    def __repr__(self):
        return "const %r" % (self.val,)


def mk_garg(j):
    if j.get("k") == "const" and "val" in j and "ty" not in j:
        return ConstArg(j)
    return Ty(j)


class Span:
    __slots__ = ("file", "line", "col", "exp", "macro")

    def __init__(self, j):
        self.file = j["file"]
        self.line = j["line"]
        self.col = j["col"]
        self.exp = j["exp"]
        self.macro = j.get("macro")

    def __repr__(self):
        return "%s:%d" % (self.file, self.line)

    def loc(self):
        return "%s:%d:%d" % (self.file, self.line, self.col)


class Place:
    __slots__ = ("local", "proj", "ty", "_key")

    def __init__(self, j):
        self.local = j["local"]
        pr = []
        for e in j["proj"]:
            k = e["k"]
            if k == "deref":
                pr.append(("deref",))
            elif k == "field":
                pr.append(("field", e["i"], e.get("name"), Ty(e["ty"]), e.get("parent")))
            elif k == "index":
                pr.append(("index", e["local"]))
            elif k == "constindex":
                pr.append(("constindex", e["offset"], e["from_end"], e["min_length"]))
            elif k == "subslice":
                pr.append(("subslice", e["from"], e["to"], e["from_end"]))
            elif k == "downcast":
                pr.append(("downcast", e["variant"], e.get("name")))
            else:
                pr.append((k,))
        self.proj = tuple(pr)
        self.ty = Ty(j["ty"])
        self._key = None

    def is_local(self):
        return not self.proj

    def key(self):
        if self._key is None:
            self._key = (self.local, tuple((p[0],) + tuple(x for x in p[1:3] if not isinstance(x, Ty))
                                           for p in self.proj))
        return self._key

    def __repr__(self):
        s = "_%d" % self.local
        for p in self.proj:
            if p[0] == "deref":
                s = "(*%s)" % s
            elif p[0] == "field":
                s = "%s.%s" % (s, p[2] if p[2] is not None else p[1])
            elif p[0] == "index":
                s = "%s[_%d]" % (s, p[1])
            elif p[0] == "constindex":
                s = "%s[%s%d]" % (s, "-" if p[2] else "", p[1])
            elif p[0] == "downcast":
                s = "(%s as %s)" % (s, p[2] if p[2] is not None else p[1])
            elif p[0] == "subslice":
                s = "%s[%d..%s%d]" % (s, p[1], "-" if p[3] else "", p[2])
            else:
                s = "%s.<%s>" % (s, p[0])
        return s


class Operand:
    __slots__ = ("k", "place", "ty", "val", "uneval", "s", "fn")

    def __init__(self, j):
        self.k = j["k"]
        self.place = None
        self.val = None
        self.uneval = None
        self.fn = None
        self.s = j.get("s", "")
        if self.k in ("copy", "move"):
            self.place = Place(j["place"])
            self.ty = self.place.ty
        elif self.k == "const":
            self.ty = Ty(j["ty"])
            self.val = j.get("val")
            self.uneval = j.get("uneval")
            if self.ty.k == "fndef":
                self.fn = self.ty
        elif self.k == "runtimecheck":
            self.k = "const"
            self.ty = Ty({"k": "bool", "s": "bool"})
            self.val = 1 if j["value"] else 0
            self.s = "runtimecheck(%s)" % j["which"]
        else:
            self.ty = Ty({"k": "other", "s": "?"})

    def is_const(self):
        return self.k == "const"

    def const_int(self):
        if self.k == "const" and isinstance(self.val, int) and not isinstance(self.val, bool):
            return self.val
        return None

    def __repr__(self):
        if self.k == "const":
            if isinstance(self.val, int):
                return "const %d_%s" % (self.val, self.ty.s)
            return "const %s" % self.s
        return ("move " if self.k == "move" else "") + repr(self.place)


class Rvalue:
    __slots__ = ("k", "op", "a", "b", "binop", "unop", "place", "mut", "cast_kind", "ty", "agg",
                 "adt", "adt_name", "variant", "variant_name", "ops", "count", "s", "args", "closure")

    def __init__(self, j):
        self.k = j["k"]
        self.op = self.a = self.b = self.place = None
        self.ops = []
        self.s = j.get("s", "")
        k = self.k
        if k == "use":
            self.op = Operand(j["op"])
        elif k == "repeat":
            self.op = Operand(j["op"])
            self.count = j["count"]
        elif k == "ref":
            self.place = Place(j["place"])
            self.mut = j["mut"]
        elif k == "rawptr":
            self.place = Place(j["place"])
        elif k == "cast":
            self.op = Operand(j["op"])
            self.cast_kind = j["kind"]
            self.ty = Ty(j["ty"])
        elif k == "binop":
            self.binop = j["op"]
            self.a = Operand(j["a"])
            self.b = Operand(j["b"])
        elif k == "unop":
            self.unop = j["op"]
            self.a = Operand(j["a"])
        elif k == "discriminant":
            self.place = Place(j["place"])
        elif k == "aggregate":
            self.agg = j["agg"]
            self.ops = [Operand(o) for o in j["ops"]]
            if self.agg == "adt":
                self.adt = j["def"]
                self.adt_name = j["name"]
                self.variant = j["variant"]
                self.variant_name = j["variant_name"]
                self.args = [mk_garg(a) for a in j.get("args", [])]
            elif self.agg == "closure":
                self.closure = j["def"]
            elif self.agg == "array":
                self.ty = Ty(j["elem"])

    def operands(self):
        r = []
        for o in (self.op, self.a, self.b):
            if o is not None:
                r.append(o)
        r.extend(self.ops)
        return r

    def __repr__(self):
        k = self.k
        if k == "use":
            return repr(self.op)
        if k == "repeat":
            return "[%r; %r]" % (self.op, self.count)
        if k == "ref":
            return "&%s%r" % ("mut " if self.mut else "", self.place)
        if k == "rawptr":
            return "&raw %r" % self.place
        if k == "cast":
            return "%r as %s (%s)" % (self.op, self.ty.s, self.cast_kind)
        if k == "binop":
            return "%s(%r, %r)" % (self.binop, self.a, self.b)
        if k == "unop":
            return "%s(%r)" % (self.unop, self.a)
        if k == "discriminant":
            return "discriminant(%r)" % self.place
        if k == "aggregate":
            if self.agg == "adt":
                return "%s::%s(%s)" % (self.adt_name, self.variant_name,
                                       ", ".join(map(repr, self.ops)))
            return "%s(%s)" % (self.agg, ", ".join(map(repr, self.ops)))
        return "<%s %s>" % (k, self.s)


class Callee:
    """Resolved callee information of a Call terminator."""
    __slots__ = ("defk", "name", "path", "args", "local", "trait", "method", "resolved")

    def __init__(self, j):
        self.defk = j["def"]
        self.name = j["name"]
        self.path = j["path"]
        self.args = [mk_garg(a) for a in j.get("args", [])]
        self.local = j["local"]
        self.trait = j.get("trait")
        self.method = j.get("method")
        r = j.get("resolved")
        self.resolved = None
        if r:
            self.resolved = Callee({**r, "resolved": None, "trait": None, "method": None})
            self.resolved.method = self.method

    def target(self):
        """Best-known callee (resolved instance if any)."""
        return self.resolved if self.resolved is not None else self

    def __repr__(self):
        return self.target().path


class Stmt:
    __slots__ = ("k", "place", "rv", "span", "variant", "local")

    def __init__(self, j):
        self.k = j["k"]
        self.place = Place(j["place"]) if "place" in j else None
        self.rv = Rvalue(j["rv"]) if "rv" in j else None
        self.span = Span(j["span"]) if "span" in j else None
        self.variant = j.get("variant")
        self.local = j.get("local")

    def __repr__(self):
        if self.k == "assign":
            return "%r = %r" % (self.place, self.rv)
        if self.k == "setdiscr":
            return "discriminant(%r) = %d" % (self.place, self.variant)
        return "%s(_%s)" % (self.k, self.local)


class Term:
    __slots__ = ("k", "span", "target", "targets", "otherwise", "discr", "func", "callee", "args",
                 "dest", "unwind", "cond", "expected", "msg", "place", "fn_span", "s")

    def __init__(self, j):
        self.k = j["k"]
        self.span = Span(j["span"])
        self.target = j.get("target")
        self.unwind = j.get("unwind")
        self.s = j.get("s", "")
        self.callee = None
        self.args = []
        if self.k == "switch":
            self.discr = Operand(j["discr"])
            self.targets = [(v, b) for v, b in j["targets"]]
            self.otherwise = j["otherwise"]
        elif self.k == "call":
            self.func = Operand(j["func"])
            self.callee = Callee(j["callee"]) if j.get("callee") else None
            self.args = [Operand(a) for a in j["args"]]
            self.dest = Place(j["dest"])
            self.fn_span = Span(j["fn_span"])
        elif self.k == "assert":
            self.cond = Operand(j["cond"])
            self.expected = j["expected"]
            m = j["msg"]
            self.msg = {"kind": m["kind"]}
            for key in ("len", "index", "a", "b"):
                if key in m:
                    self.msg[key] = Operand(m[key])
            if "op" in m:
                self.msg["op"] = m["op"]
        elif self.k == "drop":
            self.place = Place(j["place"])

    def successors(self, with_unwind=False):
        k = self.k
        r = []
        if k == "goto":
            r = [self.target]
        elif k == "switch":
            r = [b for _, b in self.targets] + [self.otherwise]
        elif k in ("call", "assert", "drop"):
            if self.target is not None:
                r = [self.target]
        if with_unwind and self.unwind is not None:
            r = r + [self.unwind]
        return r

    def __repr__(self):
        k = self.k
        if k == "goto":
            return "goto -> bb%d" % self.target
        if k == "switch":
            return "switchInt(%r) -> [%s, otherwise: bb%d]" % (
                self.discr, ", ".join("%d: bb%d" % (v, b) for v, b in self.targets), self.otherwise)
        if k == "call":
            return "%r = %s(%s) -> %s" % (self.dest, self.callee if self.callee else self.func,
                                          ", ".join(map(repr, self.args)),
                                          "bb%d" % self.target if self.target is not None else "!")
        if k == "assert":
            return "assert(%s%r, %s) -> bb%d" % ("" if self.expected else "!", self.cond,
                                                 self.msg["kind"] + (":" + self.msg["op"] if "op" in self.msg else ""),
                                                 self.target)
        if k == "drop":
            return "drop(%r) -> bb%d" % (self.place, self.target)
        return k


class Block:
    __slots__ = ("idx", "stmts", "term", "cleanup")

    def __init__(self, idx, j):
        self.idx = idx
        self.stmts = [Stmt(s) for s in j["stmts"] if s["k"] in ("assign", "setdiscr")]
        self.term = Term(j["term"])
        self.cleanup = j["cleanup"]


class Local:
    __slots__ = ("ty", "name", "user", "span")

    def __init__(self, j):
        self.ty = Ty(j["ty"])
        self.name = j["name"]
        self.user = j["user"]
        self.span = Span(j["span"])


class Body:
    def __init__(self, j):
        self.defk = j["def"]
        self.name = j["name"]
        self.kind = j["kind"]
        self.promoted = j.get("promoted")
        self.item = j["item"]
        self.self_ty = Ty(j["self_ty"]) if j["self_ty"] else None
        self.trait = j["trait"]
        self.parent = j["parent"]
        self.vis = j["vis"]
        self.reachable = j["reachable"]
        self.span = Span(j["span"])
        self.arg_count = j["arg_count"]
        self.generics = j["generics"]
        self.locals = [Local(l) for l in j["locals"]]
        self.blocks = [Block(i, b) for i, b in enumerate(j["blocks"])]
        self.debug_places = [(d["name"], Place(d["place"])) for d in j.get("debug_places", [])]
        self.spliced = bool(j.get("spliced"))
        self._cfg = None

    @property
    def file(self):
        return self.span.file

    def short(self):
        """A stable human name: path without generic parameter decoration."""
        return self.name

    def local_name(self, i):
        n = self.locals[i].name
        return n if n else "_%d" % i

    def calls(self):
        for b in self.blocks:
            if b.term.k == "call" and not b.cleanup:
                yield b

    def pretty(self):
        out = ["fn %s  [%s] args=%d" % (self.name, self.defk, self.arg_count)]
        for i, l in enumerate(self.locals):
            out.append("  let _%d: %s%s" % (i, l.ty.s, "  // " + l.name if l.name else ""))
        for b in self.blocks:
            out.append("  bb%d%s:  // %s" % (b.idx, " (cleanup)" if b.cleanup else "", b.term.span))
            for s in b.stmts:
                out.append("    %r" % s)
            out.append("    %r" % b.term)
        return "\n".join(out)



# ---------------------------------------------------------------- new private helpers are part of their caller
def _known_functions():
    p = os.path.join(os.path.dirname(os.path.abspath(__file__)), "known_functions.json")
    try:
        with open(p) as f:
            return set(json.load(f)["functions"])
    except Exception:
        return None


def _remap(x, L, B):
    """Shift every local by L and every block index by B in a (deep-copied) JSON fragment of a body."""
    if isinstance(x, list):
        for y in x:
            _remap(y, L, B)
        return
    if not isinstance(x, dict):
        return
    if isinstance(x.get("local"), int) and not isinstance(x.get("local"), bool):
        x["local"] += L
    k = x.get("k")
    if "span" in x and k in ("goto", "switch", "call", "assert", "drop", "return", "resume", "unreachable", "other", "falseedge",
                             "falseunwind", "yield", "inlineasm", "tailcall", "abort", "terminate"):
        for key in ("target", "unwind", "otherwise", "real", "imaginary"):
            if isinstance(x.get(key), int) and not isinstance(x.get(key), bool):
                x[key] += B
        if isinstance(x.get("targets"), list):
            x["targets"] = [[v, b + B] for v, b in x["targets"]]
    for key, y in x.items():
        if key in ("span", "ty", "fn_span"):
            continue
        _remap(y, L, B)


def _nolt(gargs):
    """Generic arguments without lifetimes (erased in MIR call sites or printed as regions)."""
    return [a for a in gargs if not (isinstance(a, dict) and (a.get("k") in ("lifetime", "region") or str(a.get("s", "")).startswith("'")))]


def _has_loop(body):
    succ = {}
    for i, blk in enumerate(body["blocks"]):
        if blk.get("cleanup"):
            continue
        t = blk["term"]
        ss = []
        for key in ("target", "otherwise"):
            if isinstance(t.get(key), int) and not isinstance(t.get(key), bool):
                ss.append(t[key])
        for v, b in t.get("targets", []) or []:
            ss.append(b)
        succ[i] = [x for x in ss if not body["blocks"][x].get("cleanup")]
    state = {}
    stack = [(0, iter(succ.get(0, [])))]
    state[0] = 1
    while stack:
        x, it = stack[-1]
        adv = False
        for y in it:
            if state.get(y) == 1:
                return True
            if y not in state:
                state[y] = 1
                stack.append((y, iter(succ.get(y, []))))
                adv = True
                break
        if not adv:
            state[x] = 2
            stack.pop()
    return False


def _subst(x, sub):
    """Replace the callee's generic parameters (by index) with the call site's generic arguments."""
    if isinstance(x, list):
        return [_subst(y, sub) for y in x]
    if not isinstance(x, dict):
        return x
    if x.get("k") == "param" and "index" in x and x["index"] in sub and "local" not in x:
        return sub[x["index"]]
    return {k: _subst(v, sub) for k, v in x.items()}


def _succs(t):
    out = []
    for key in ("target", "otherwise"):
        if isinstance(t.get(key), int) and not isinstance(t.get(key), bool):
            out.append(t[key])
    for v, b in t.get("targets", []) or []:
        out.append(b)
    return out


def _retarget(t, old, new):
    for key in ("target", "otherwise"):
        if t.get(key) == old and isinstance(t.get(key), int):
            t[key] = new
    if t.get("targets"):
        t["targets"] = [[v, (new if b == old else b)] for v, b in t["targets"]]


def _rename_local(x, a, b):
    if isinstance(x, list):
        for y in x:
            _rename_local(y, a, b)
        return
    if not isinstance(x, dict):
        return
    if x.get("local") == a and isinstance(x.get("local"), int) and not isinstance(x.get("local"), bool):
        x["local"] = b
    for key, y in x.items():
        if key in ("span", "ty", "fn_span", "callee"):
            continue
        _rename_local(y, a, b)


def _thread_try(C, hb, B, L, dest, tgt, direct=False):
    """hb: the helper's blocks (already renumbered from B, `return` already replaced by `dest = move _L; goto tgt`)."""
    import copy
    if tgt is None or dest.get("proj"):
        return
    T = C["blocks"][tgt]
    tt = T["term"]
    if tt["k"] != "call" or not tt.get("callee") or not str((tt["callee"].get("resolved") or tt["callee"]).get("name", "")).endswith("branch"):
        return
    if "Try" not in json.dumps(tt["callee"])[:600]:
        return
    a0 = tt["args"][0] if tt.get("args") else None
    if not a0 or a0.get("k") not in ("move", "copy") or a0["place"]["local"] != dest["local"] or a0["place"]["proj"]:
        return
    if not isinstance(tt.get("target"), int):
        return
    S = C["blocks"][tt["target"]]
    st = S["term"]
    if st["k"] != "switch" or sorted(v for v, _ in st["targets"]) != [0, 1]:
        return
    edge = {v: b for v, b in st["targets"]}
    # the helper's return blocks (now: ... ; dest = move _L ; goto tgt)
    rets = [i for i, blk in enumerate(hb) if blk["term"]["k"] == "goto" and blk["term"].get("target") == tgt and
            (direct or (blk["stmts"] and blk["stmts"][-1].get("k") == "assign" and blk["stmts"][-1]["place"] == dest))]
    if direct:
        # only the blocks that were the helper's `return`: they have no statement assigning the result themselves
        rets = [i for i in rets if not any(stt.get("k") == "assign" and stt["place"]["local"] == L and not stt["place"]["proj"]
                                           for stt in hb[i]["stmts"])][:1]
    # which variant does the helper's result hold when a block is left?  (1 = Err, 0 = Ok, None = not known)
    n = len(hb)
    own = {}
    for pi, P in enumerate(hb):
        v = "pass"
        for stt in P["stmts"]:
            if stt.get("k") == "assign" and stt["place"]["local"] == L and not stt["place"]["proj"]:
                rv = stt["rv"]
                v = rv.get("variant") if (rv.get("k") == "aggregate" and rv.get("agg") == "adt" and
                                          str(rv.get("name", "")).endswith("Result")) else None
        pt = P["term"]
        if pt["k"] == "call" and pt.get("dest", {}).get("local") == L and not pt["dest"]["proj"]:
            v = 1 if "from_residual" in json.dumps(pt.get("callee") or {})[:800] else None
        own[pi] = v
    preds = {i: [] for i in range(n)}
    for pi, P in enumerate(hb):
        if P.get("cleanup"):
            continue
        for y in _succs(P["term"]):
            if B <= y < B + n:
                preds[y - B].append(pi)
    out = {}
    for _ in range(n + 2):
        changed = False
        for pi in range(n):
            if own[pi] != "pass":
                v = own[pi]
            else:
                vs = {out.get(q, "?") for q in preds[pi]}
                v = vs.pop() if len(vs) == 1 else None
                if v == "?":
                    v = "?"
            if out.get(pi, "?") != v:
                out[pi] = v
                changed = True
        if not changed:
            break
    for ri in rets:
        rabs = B + ri
        for pi in list(range(n)):
            P = hb[pi]
            if pi == ri or own.get(pi) != 1 or P.get("cleanup"):
                continue
            # from the block that builds the Err: through blocks that only pass the value on, to the return block
            chain = []
            ss = [y for y in _succs(P["term"]) if B <= y < B + n and not hb[y - B].get("cleanup")]
            if len(ss) != 1:
                continue
            cur = ss[0] - B
            okc = True
            while cur != ri:
                blk = hb[cur]
                nxt = [y for y in _succs(blk["term"]) if B <= y < B + n and not hb[y - B].get("cleanup")]
                if own.get(cur) != "pass" or len(nxt) != 1 or blk["term"]["k"] not in ("goto", "drop") or len(chain) > 60:
                    okc = False
                    break
                chain.append(cur)
                cur = nxt[0] - B
            if not okc:
                continue
            base = B + len(hb)
            copies = [copy.deepcopy(hb[x]) for x in chain] + [copy.deepcopy(hb[ri]), copy.deepcopy(T), copy.deepcopy(S)]
            k = len(copies)
            for j, cb in enumerate(copies[:-1]):
                # each copy continues with the next copy
                tt_ = cb["term"]
                old_t = tt_.get("target")
                tt_["target"] = base + j + 1
            copies[-1]["term"] = {"k": "goto", "target": edge[1], "span": st["span"]}
            first_old = B + (chain[0] if chain else ri)
            _retarget(P["term"], first_old, base)
            hb.extend(copies)


def _inline_call(C, bi, H):
    import copy
    L, B = len(C["locals"]), len(C["blocks"])
    call = C["blocks"][bi]["term"]
    hl = copy.deepcopy(H["locals"])
    hb = copy.deepcopy(H["blocks"])
    cal = call["callee"]
    gargs = (cal.get("resolved") or cal).get("args", [])
    sub = {g["index"]: a for g, a in zip([g for g in H.get("generics", []) if g.get("kind") != "Lifetime"], _nolt(gargs))
           if isinstance(a, dict) and a.get("k") not in (None, "lifetime", "const")}
    if sub:
        hl = _subst(hl, sub)
        hb = _subst(hb, sub)
    _remap(hb, L, B)
    dest, tgt, unw = call["dest"], call.get("target"), call.get("unwind")
    # the helper's result place: the call's destination itself when that is a plain local (so that `Ok(..)` / `Err(..)` built by
    # the helper are visibly what the destination - often the caller's own return place - receives)
    direct = not dest.get("proj")
    if direct:
        _rename_local(hb, L, dest["local"])
    for blk in hb:
        t = blk["term"]
        if t["k"] == "return":
            if not direct:
                blk["stmts"].append({"k": "assign", "place": dest,
                                     "rv": {"k": "use", "op": {"k": "move", "place": {"local": L, "proj": [], "ty": hl[0]["ty"]}}},
                                     "span": t["span"]})
            blk["term"] = {"k": "goto", "target": tgt, "span": t["span"]} if tgt is not None else {"k": "unreachable", "span": t["span"]}
        elif t["k"] == "resume" and isinstance(unw, int):
            blk["term"] = {"k": "goto", "target": unw, "span": t["span"]}
    # the caller usually applies `?` to a helper's Result: keep the two outcomes apart.  A return of the helper that visibly
    # builds Ok(..) / Err(..) gets its own copy of the caller's `?` blocks with the edge already chosen, so that "the Err of
    # the helper ends in an error" stays visible without path-sensitive reasoning.
    try:
        _thread_try(C, hb, B, dest["local"] if direct else L, dest, tgt, direct)
    except Exception:
        pass
    stmts = C["blocks"][bi]["stmts"]
    for i, a in enumerate(call["args"]):
        stmts.append({"k": "assign", "place": {"local": L + 1 + i, "proj": [], "ty": hl[1 + i]["ty"]},
                      "rv": {"k": "use", "op": a}, "span": call["span"]})
    C["blocks"][bi]["term"] = {"k": "goto", "target": B, "span": call["span"]}
    C["locals"].extend(hl)
    C["blocks"].extend(hb)
    C["spliced"] = True


def inline_new_helpers(j):
    """A function that today's tree does not have, that nothing outside the crate can reach and that is called from exactly
    one place is a piece of its caller that somebody gave a name: it is spliced back into the caller (locals and blocks
    renumbered, arguments bound by assignments, `return` replaced by a jump to the call's continuation), so that every rule
    and the abstract interpreter see the same code as before the extraction.  Returns the names spliced."""
    known = _known_functions()
    done = []
    if known is None:
        return done
    for _ in range(6):
        bodies = j["bodies"]
        sites = {}
        refs = {}
        for b in bodies:
            for bi, blk in enumerate(b["blocks"]):
                t = blk["term"]
                if t["k"] == "call" and t.get("callee"):
                    c = t["callee"]
                    d = (c.get("resolved") or c)["def"]
                    sites.setdefault(d, []).append((b, bi))
        cand = None
        for h in bodies:
            if h.get("promoted") is not None or h["kind"] not in ("Fn", "AssocFn") or h["name"] in known:
                continue
            if h.get("reachable") or h.get("trait"):
                continue
            ss = sites.get(h["def"], [])
            if not (1 <= len(ss) <= 3):
                continue
            if _has_loop(h):
                continue       # splicing a loop into the caller would turn its straight-line terms into loop terms
            okk = True
            for caller, bi in ss:
                if caller is h or caller.get("promoted") is not None or caller["kind"] == "Closure":
                    okk = False
                # a method only into methods of its own type (rules are scoped by the type a method belongs to); a free
                # function anywhere
                hs = (h.get("self_ty") or {}).get("def")
                if hs is not None and hs != (caller.get("self_ty") or {}).get("def"):
                    okk = False
                # ... a free function only into callers of its own file (a utility shared across modules is a function of its own)
                if hs is None and (h.get("span") or {}).get("file") != (caller.get("span") or {}).get("file"):
                    okk = False
                cal = caller["blocks"][bi]["term"]["callee"]
                gargs = (cal.get("resolved") or cal).get("args", [])
                if len(_nolt(gargs)) != len([g for g in h.get("generics", []) if g.get("kind") != "Lifetime"]):
                    okk = False
            if not okk:
                continue
            # taken by value elsewhere (function pointer, closure argument)?  then it is not only called
            blob = json.dumps([b for b in bodies if b is not h])
            if blob.count('"k": "fndef", "def": %s' % json.dumps(h["def"])) != len(ss):
                continue
            cand = (ss, h)
            break
        if cand is None:
            break
        ss, h = cand
        try:
            import copy
            backup = [(caller, copy.deepcopy(caller["blocks"]), copy.deepcopy(caller["locals"])) for caller, _ in ss]
            # several sites in one caller: splice from the last block index down (indices of earlier blocks stay valid)
            for caller, bi in sorted(ss, key=lambda x: -x[1]):
                _inline_call(caller, bi, h)
        except Exception:
            for caller, blocks, locs in backup:
                caller["blocks"], caller["locals"] = blocks, locs
            known = known | {h["name"]}
            continue
        j["bodies"] = [b for b in bodies if b is not h and not (b.get("promoted") is not None and b["def"] == h["def"])]
        done.append("%s -> %s" % (h["name"], ", ".join(sorted({c["name"] for c, _ in ss}))))
    return done


class Facts:
    def __init__(self, path):
        with open(path) as f:
            j = json.load(f)
        self.inlined = [] if os.environ.get("VERIF_NO_INLINE") else inline_new_helpers(j)
        self.raw = j
        self.crate = j["crate"]
        self.features = sorted(j["features"])
        self.overflow_checks = j["overflow_checks"]
        self.crate_attrs = j["crate_attrs"]
        self.bodies = [Body(b) for b in j["bodies"]]
        self.by_def = {b.defk: b for b in self.bodies}
        self.by_name = {}
        for b in self.bodies:
            self.by_name.setdefault(b.name, b)
        self.adts = {a["def"]: a for a in j["adts"]}
        self.adts_by_name = {a["name"]: a for a in j["adts"]}
        self.consts = {c["name"]: c for c in j["consts"]}
        self.impls = j["impls"]
        self.assoc_consts = j["assoc_consts"]

    def forbids_unsafe(self):
        for a in self.crate_attrs:
            if '"forbid"' in a and '"unsafe_code"' in a:
                return True
        return False

    def body(self, name):
        """Look a body up by pretty name; tolerant of generic decoration:
        'decode::lzma::DecoderState::process_mode' matches
        'decode::lzma::DecoderState::process_mode' and 'X::<W>::f' forms."""
        if name in self.by_name:
            return self.by_name[name]
        norm = _strip_generics(name)
        for b in self.bodies:
            if _strip_generics(b.name) == norm:
                return b
        return None

    def bodies_matching(self, pred):
        return [b for b in self.bodies if pred(b)]

    def adt(self, name):
        a = self.adts_by_name.get(name)
        if a:
            return a
        for k, v in self.adts_by_name.items():
            if _strip_generics(k) == _strip_generics(name):
                return v
        return None

    def const_val(self, name):
        c = self.consts.get(name)
        return c["val"] if c else None

    def assoc_const(self, defk, args):
        for c in self.assoc_consts:
            if c["def"] == defk:
                vals = [a.get("val") if isinstance(a, dict) else None for a in c["args"]]
                if vals == list(args):
                    return c["val"]
        return None


def _strip_generics(name):
    """Remove <...> groups that are generic-argument decoration ('::<W>', '<W>')
    but keep the '<T as Trait>' qualified-path form."""
    out = []
    depth = 0
    i = 0
    n = len(name)
    while i < n:
        c = name[i]
        if c == "<":
            # qualified path '<T as Trait>::m' starts at position 0 or after a separator
            if depth == 0 and (i == 0 or name[i - 1] in " (,") and " as " in name[i:]:
                out.append(c)
                i += 1
                continue
            depth += 1
        elif c == ">" and depth > 0:
            depth -= 1
            if depth == 0 and out[-2:] == [":", ":"]:
                # '::<W>' form: drop the preceding '::' too
                out = out[:-2]
            i += 1
            continue
        if depth == 0:
            out.append(c)
        i += 1
    return "".join(out)
