"""Hand-written models of std / byteorder / crc functions for E-AI.

Each model: m(ai, fr, st, bb, term, args, key) -> (ret value, state) | "diverge" | None
(None = fall back to inlining or to the havoc default).  Models may record
obligations (slice bounds, copy_from_slice lengths, reachable panics).
"""
from .dom import (BOT, INF, ArrV, BotV, BoxV, ClosureV, CursorV, EnumV, FnV, IntV, Lin, OpaqueV,
                  RefV, StructV, TopV, summarise, ty_range)
from .mir import Ty

OPT = "std::option::Option"
RES = "std::result::Result"
CF = "std::ops::ControlFlow"
UNIT = StructV(None, ())
U63 = (1 << 63) - 1


def ci(x):
    return IntV(Lin.const(int(x)))


def ioerr():
    return OpaqueV("io::Error")


def some(v, guards=()):
    return EnumV(OPT, {1: (v,)}, {1: tuple(guards)} if guards else None)


def none():
    return EnumV(OPT, {0: ()})


def ok(v):
    return EnumV(RES, {0: (v,)})


def ok_or_err(v, e, ok_guards=()):
    return EnumV(RES, {0: (v,), 1: (e,)}, {0: tuple(ok_guards)} if ok_guards else None)


def deref_paths(v):
    return list(v.paths) if isinstance(v, RefV) else []


def read_ref(ai, st, v, key):
    """Value behind a reference (joined over targets)."""
    ps = deref_paths(v)
    if not ps:
        return TopV()
    r = ai.read_path(st, ps[0])
    for i, p in enumerate(ps[1:]):
        r = summarise(st, r, ai.read_path(st, p), ("rr", key, i))
    return r


def write_ref(ai, st, v, val, key):
    ps = deref_paths(v)
    for p in ps:
        ai.write_path(st, p, val, len(ps) > 1, ("wr", key))


def fresh(st, key, lo, hi):
    return Lin.var(st.fresh(key, lo, hi))


def err_top(ai, fr, st, term, key):
    """Top value of the error type of the destination Result."""
    dty = ai.subst_ty(term.dest.ty, fr.subst)
    if dty.k == "adt" and dty.name == RES and len(dty.args) == 2:
        return ai.mk_top(dty.args[1], key + ("err",), st, fr.subst)
    return OpaqueV("err")


def ret_top(ai, fr, st, term, key):
    return ai.mk_top(term.dest.ty, key + ("ret",), st, fr.subst)


# ----------------------------------------------------------------- Try / ? --

def m_branch(ai, fr, st, bb, t, args, key):
    r = args[0]
    if not isinstance(r, EnumV):
        r = ai.mk_top(t.args[0].ty, key + ("arg",), st, fr.subst)
        if not isinstance(r, EnumV):
            return None
    vs = {}
    gs = {}
    if 0 in r.variants:
        vs[0] = r.variants[0]
        if 0 in r.guards:
            gs[0] = r.guards[0]
    if 1 in r.variants:
        vs[1] = (EnumV(RES, {1: r.variants[1]}),)
        if 1 in r.guards:
            gs[1] = r.guards[1]
    return EnumV(CF, vs, gs), st


def m_from_residual(ai, fr, st, bb, t, args, key):
    return EnumV(RES, {1: (err_top(ai, fr, st, t, key),)}), st


def m_map_err(ai, fr, st, bb, t, args, key):
    r, f = args[0], args[1]
    if not isinstance(r, EnumV):
        return None
    vs = {}
    gs = {}
    if 0 in r.variants:
        vs[0] = r.variants[0]
        if 0 in r.guards:
            gs[0] = r.guards[0]
    if 1 in r.variants:
        e = None
        if isinstance(f, ClosureV):
            # analyse the closure body in the Err-only state for its obligations
            s2 = st.copy()
            res = ai.call_closure(fr, s2, f, [StructV(None, r.variants[1])] if False else list(r.variants[1]), key, bb)
            if res is not None:
                rv, so = res
                if so is None:
                    # closure diverges: the Err variant cannot come out
                    e = BOT
                else:
                    e = err_top(ai, fr, st, t, key)
        if e is None:
            e = err_top(ai, fr, st, t, key)
        if not isinstance(e, BotV):
            vs[1] = (e,)
            if 1 in r.guards:
                gs[1] = r.guards[1]
    if not vs:
        return BOT, None
    return EnumV(RES, vs, gs), st


def m_is_err(ai, fr, st, bb, t, args, key):
    r = read_ref(ai, st, args[0], key)
    if isinstance(r, EnumV):
        if set(r.variants) == {0}:
            return ci(0), st
        if set(r.variants) == {1}:
            return ci(1), st
    return IntV(fresh(st, key + ("iserr",), 0, 1)), st


# ----------------------------------------------------------------- Option --

def m_opt_take(ai, fr, st, bb, t, args, key):
    old = read_ref(ai, st, args[0], key)
    write_ref(ai, st, args[0], none(), key)
    return old, st


def m_opt_replace(ai, fr, st, bb, t, args, key):
    old = read_ref(ai, st, args[0], key)
    write_ref(ai, st, args[0], some(args[1]), key)
    return old, st


def m_opt_as_ref(ai, fr, st, bb, t, args, key):
    v = read_ref(ai, st, args[0], key)
    ps = deref_paths(args[0])
    vs = {}
    if not isinstance(v, EnumV):
        vs = {0: (), 1: (RefV([(r, pr + (("v", 1), ("f", 0))) for r, pr in ps]) if ps else TopV(),)}
    else:
        if 0 in v.variants:
            vs[0] = ()
        if 1 in v.variants:
            vs[1] = (RefV([(r, pr + (("v", 1), ("f", 0))) for r, pr in ps]),)
    return EnumV(OPT, vs), st


def m_opt_map(ai, fr, st, bb, t, args, key):
    v, f = args[0], args[1]
    if not isinstance(v, EnumV):
        return None
    vs = {}
    if 0 in v.variants:
        vs[0] = ()
    out = st
    if 1 in v.variants and isinstance(f, ClosureV):
        res = ai.call_closure(fr, st.copy(), f, list(v.variants[1]), key, bb)
        if res is None:
            return None
        rv, so = res
        if so is not None:
            vs[1] = (rv,)
            out = so if 0 not in v.variants else st  # effects of the closure are reads only here
    elif 1 in v.variants:
        return None
    return EnumV(OPT, vs), out


def m_unwrap_or(ai, fr, st, bb, t, args, key):
    v, d = args[0], args[1]
    if not isinstance(v, EnumV):
        return None
    r = BOT
    if 1 in v.variants:
        r = v.variants[1][0]
    if 0 in v.variants:
        r = d if isinstance(r, BotV) else summarise(st, r, d, ("uo", key))
    return r, st


def m_unwrap_or_else(ai, fr, st, bb, t, args, key):
    v, f = args[0], args[1]
    if not isinstance(v, EnumV):
        return None
    r = BOT
    if 1 in v.variants:
        r = v.variants[1][0]
        for g in v.guards.get(1, ()):
            if 0 not in v.variants:
                st.assume(g)
    if 0 in v.variants:
        if isinstance(f, ClosureV):
            s2 = st.copy()
            for g in v.guards.get(0, ()):
                s2.assume(g)
            res = ai.call_closure(fr, s2, f, [], key, bb)
            if res is None:
                return None
            rv, so = res
            if so is not None:
                r = rv if isinstance(r, BotV) else summarise(st, r, rv, ("uoe", key))
        else:
            return None
    if isinstance(r, BotV):
        return BOT, None
    return r, st


def m_default(ai, fr, st, bb, t, args, key):
    ty = ai.subst_ty(t.dest.ty, fr.subst)
    if ty.k == "adt" and ty.name == OPT:
        return none(), st
    if ty.k == "bool":
        return ci(0), st
    if ty.is_int():
        return ci(0), st
    return None


# ----------------------------------------------------------------- Vec / slices --

def vec_at(ai, st, ref, key):
    ps = deref_paths(ref)
    if len(ps) != 1:
        return None, None
    v = ai.read_path(st, ps[0])
    if isinstance(v, ArrV):
        return ps[0], v
    return ps[0], None


def m_vec_new(ai, fr, st, bb, t, args, key):
    return ArrV("vec", IntV(Lin.const(0), None, (0, U63)), BOT), st


def m_vec_len(ai, fr, st, bb, t, args, key):
    p, v = vec_at(ai, st, args[0], key)
    if v is not None:
        return v.length, st
    return IntV(fresh(st, key + ("len",), 0, U63)), st


def m_vec_push(ai, fr, st, bb, t, args, key):
    p, v = vec_at(ai, st, args[0], key)
    if v is None:
        return UNIT, st
    el = args[1] if isinstance(v.elem, BotV) else summarise(st, v.elem, args[1], ("push", key))
    nl = IntV(v.length.lin.addc(1), None, (0, U63)) if isinstance(v.length, IntV) else v.length
    if isinstance(nl, IntV):
        st.assume(Lin.const(U63).sub(nl.lin))   # A-VEC: a Vec never holds more than isize::MAX elements
    ai.write_path(st, p, ArrV(v.kind, nl, el), False)
    return UNIT, st


def m_vec_resize(ai, fr, st, bb, t, args, key):
    p, v = vec_at(ai, st, args[0], key)
    if v is None:
        return UNIT, st
    el = args[2] if isinstance(v.elem, BotV) else summarise(st, v.elem, args[2], ("resize", key))
    nl = args[1]
    if isinstance(nl, IntV):
        nl = IntV(nl.lin, None, (0, U63))
        st.assume(Lin.const(U63).sub(nl.lin))   # A-VEC
    ai.write_path(st, p, ArrV(v.kind, nl, el), False)
    return UNIT, st


def m_vec_clear(ai, fr, st, bb, t, args, key):
    p, v = vec_at(ai, st, args[0], key)
    if v is not None:
        ai.write_path(st, p, ArrV(v.kind, ci(0), v.elem), False)
    return UNIT, st


def slice_info(ai, st, ref, key):
    """(paths, length IntV, elem value) of a slice / array / Vec reference."""
    ps = deref_paths(ref)
    ln = ref.slen if isinstance(ref, RefV) else None
    el = BOT
    for i, p in enumerate(ps):
        v = ai.read_path(st, p)
        if isinstance(v, ArrV):
            if ln is None and len(ps) == 1:
                ln = v.length
            e = ai.nav1(st, v, ("e",))
            el = e if isinstance(el, BotV) else summarise(st, el, e, ("si", key, i))
        elif isinstance(v, BoxV) and isinstance(v.inner, ArrV):
            if ln is None and len(ps) == 1:
                ln = v.inner.length
            e = ai.nav1(st, v.inner, ("e",))
            el = e if isinstance(el, BotV) else summarise(st, el, e, ("si", key, i))
        else:
            el = TopV()
    if ln is None:
        ln = IntV(fresh(st, key + ("slen",), 0, U63))
    return ps, ln, el


def m_vec_extend(ai, fr, st, bb, t, args, key):
    p, v = vec_at(ai, st, args[0], key)
    _, ln, el = slice_info(ai, st, args[1], key)
    if v is None:
        return UNIT, st
    ne = el if isinstance(v.elem, BotV) else (v.elem if isinstance(el, BotV) else summarise(st, v.elem, el, ("ext", key)))
    nl = IntV(v.length.lin.add(ln.lin), None, (0, U63))
    st.assume(Lin.const(U63).sub(nl.lin))       # A-VEC
    ai.write_path(st, p, ArrV(v.kind, nl, ne), False)
    return UNIT, st


def m_as_slice(ai, fr, st, bb, t, args, key):
    ps, ln, _ = slice_info(ai, st, args[0], key)
    fixed = []
    for r, pr in ps:
        v = ai.read_path(st, (r, pr))
        if isinstance(v, BoxV):
            fixed.append((r, pr + (("box",),)))
        else:
            fixed.append((r, pr))
    return RefV(fixed, ln), st


def m_from_elem(ai, fr, st, bb, t, args, key):
    n = args[1]
    if isinstance(n, IntV):
        n = IntV(n.lin, None, (0, U63))
        st.assume(Lin.const(U63).sub(n.lin))    # A-VEC
    return ArrV("vec", n, args[0]), st


def m_into_boxed(ai, fr, st, bb, t, args, key):
    return BoxV(args[0]), st


def m_slice_len(ai, fr, st, bb, t, args, key):
    _, ln, _ = slice_info(ai, st, args[0], key)
    return ln, st


def m_slice_is_empty(ai, fr, st, bb, t, args, key):
    _, ln, _ = slice_info(ai, st, args[0], key)
    cond = ("eq", ln.lin, Lin.const(0))
    if ai.prove_cond(st, cond, True):
        return IntV(Lin.const(1), cond), st
    if ai.prove_cond(st, cond, False):
        return IntV(Lin.const(0), cond), st
    return IntV(fresh(st, key + ("empty",), 0, 1), cond), st


def elem_ref(ps):
    return RefV([(r, pr + (("e",),)) for r, pr in ps])


def m_slice_get(ai, fr, st, bb, t, args, key):
    ps, ln, _ = slice_info(ai, st, args[0], key)
    idx = args[1]
    if not isinstance(idx, IntV):
        return None
    vs = {}
    gs = {}
    lt = ln.lin.sub(idx.lin).addc(-1)      # idx < len
    ge = idx.lin.sub(ln.lin)               # idx >= len
    if not st.prove(ge):
        vs[1] = (elem_ref(ps),)
        gs[1] = (lt,)
    if not st.prove(lt):
        vs[0] = ()
        gs[0] = (ge,)
    return EnumV(OPT, vs, gs), st


def bounds_obl(ai, fr, st, bb, t, what, lins, tag):
    """Record one obligation: all of lins >= 0."""
    okk = all(st.prove(l) for l in lins)
    how = "relational" if okk and not all(st.lb(l) >= 0 for l in lins) else ("interval" if okk else "")
    if not okk and all(st.prove(l) or st.prove_cases(l) for l in lins):
        okk = True
        how = "cases"
    definitely_bad = any(st.iv(l)[1] < 0 for l in lins)
    verdict = "safe" if okk else ("fail" if definitely_bad else "unknown")
    if verdict == "unknown":
        how = "need %s; %s" % ("; ".join(repr(l) for l in lins), ai.explain(st, IntV(lins[0], ("ge", lins[0], Lin.const(0)))))
    ai.record(fr, bb, tag, "SliceIndex", what, t.span, verdict, how)
    for l in lins:
        st.assume(l)
    return verdict


def m_index(ai, fr, st, bb, t, args, key):
    """Index / IndexMut on Vec, arrays and slices with usize or range indices."""
    ps, ln, _ = slice_info(ai, st, args[0], key)
    idx = args[1]
    ity = ai.subst_ty(t.args[1].ty, fr.subst)
    fixed = []
    for r, pr in ps:
        v = ai.read_path(st, (r, pr))
        if isinstance(v, BoxV):
            fixed.append((r, pr + (("box",),)))
        else:
            fixed.append((r, pr))
    ps = fixed
    if ity.is_int():
        if not isinstance(idx, IntV):
            return None
        bounds_obl(ai, fr, st, bb, t, "index < len", [ln.lin.sub(idx.lin).addc(-1)], "index")
        c = st.const_of(idx.lin)
        out = []
        for r, pr in ps:
            v = ai.read_path(st, (r, pr))
            if c is not None and isinstance(v, ArrV) and v.elems is not None and not any(q[0] == "sub" for q in pr):
                out.append((r, pr + (("i", c),)))
            else:
                out.append((r, pr + (("e",),)))
        return RefV(out), st
    name = ity.name if ity.k == "adt" else ""
    sub = [(r, pr + (("sub",),)) for r, pr in ps]
    if name == "std::ops::RangeFull":
        return RefV(ps, ln), st
    if not isinstance(idx, StructV):
        return None
    if name == "std::ops::Range":
        s, e = idx.fields[0], idx.fields[1]
        bounds_obl(ai, fr, st, bb, t, "start <= end <= len", [e.lin.sub(s.lin), ln.lin.sub(e.lin)], "index")
        return RefV(sub, IntV(e.lin.sub(s.lin))), st
    if name == "std::ops::RangeFrom":
        s = idx.fields[0]
        bounds_obl(ai, fr, st, bb, t, "start <= len", [ln.lin.sub(s.lin)], "index")
        return RefV(sub, IntV(ln.lin.sub(s.lin))), st
    if name == "std::ops::RangeTo":
        e = idx.fields[0]
        bounds_obl(ai, fr, st, bb, t, "end <= len", [ln.lin.sub(e.lin)], "index")
        return RefV(ps, IntV(e.lin)), st
    return None



def m_copy_within(ai, fr, st, bb, t, args, key):
    """slice.copy_within(start..end, dest): panics unless start <= end <= len and dest + (end - start) <= len; the elements
    of the slice are no longer tracked individually afterwards."""
    ps, ln, el = slice_info(ai, st, args[0], key)
    rng, dest = args[1], args[2]
    ity = ai.subst_ty(t.args[1].ty, fr.subst)
    if not (ity.k == "adt" and ity.name == "std::ops::Range" and isinstance(rng, StructV) and isinstance(dest, IntV)):
        return None
    s_, e_ = rng.fields[0], rng.fields[1]
    if not (isinstance(s_, IntV) and isinstance(e_, IntV)):
        return None
    bounds_obl(ai, fr, st, bb, t, "start <= end <= len, dest + (end - start) <= len",
               [e_.lin.sub(s_.lin), ln.lin.sub(e_.lin), ln.lin.sub(dest.lin).sub(e_.lin.sub(s_.lin))], "copy_within")
    for p in ps:
        old = ai.read_path(st, p)
        if isinstance(old, ArrV):
            ai.write_path(st, p, ArrV(old.kind, old.length, el if el is not None else TopV()), len(ps) > 1, ("cw", key))
    return UNIT, st


def m_copy_from_slice(ai, fr, st, bb, t, args, key):
    ps, l1, _ = slice_info(ai, st, args[0], key)
    _, l2, el = slice_info(ai, st, args[1], key)
    d = l1.lin.sub(l2.lin)
    okk = st.prove(d) and st.prove(d.neg())
    ai.record(fr, bb, "cfs", "CopyFromSliceLen", "dst.len() == src.len()", t.span,
              "safe" if okk else "unknown", "relational" if okk else "")
    for p in ps:
        ai.write_path(st, (p[0], p[1] + (("e",),)), el if not isinstance(el, BotV) else TopV(), True, ("cfs", key))
    return UNIT, st


def m_fill(ai, fr, st, bb, t, args, key):
    ps, _, _ = slice_info(ai, st, args[0], key)
    for p in ps:
        v = ai.read_path(st, p)
        tgt = p if not isinstance(v, BoxV) else (p[0], p[1] + (("box",),))
        ai.write_path(st, (tgt[0], tgt[1] + (("e",),)), args[1], True, ("fill", key))
    return UNIT, st


def m_iter(ai, fr, st, bb, t, args, key):
    return StructV("slice::Iter", (args[0],)), st


def m_identity(ai, fr, st, bb, t, args, key):
    return args[0], st


def m_iter_next(ai, fr, st, bb, t, args, key):
    it = read_ref(ai, st, args[0], key)
    if isinstance(it, StructV) and it.name == "slice::Iter":
        ps, ln, _ = slice_info(ai, st, it.fields[0], key)
        return EnumV(OPT, {0: (), 1: (elem_ref(ps),)}), st
    return None


def m_enumerate(ai, fr, st, bb, t, args, key):
    return StructV("Enumerate", (args[0],)), st


def m_enumerate_next(ai, fr, st, bb, t, args, key):
    it = read_ref(ai, st, args[0], key)
    if isinstance(it, StructV) and it.name == "Enumerate":
        inner = it.fields[0]
        if isinstance(inner, StructV) and inner.name == "slice::Iter":
            ps, ln, _ = slice_info(ai, st, inner.fields[0], key)
            i = fresh(st, key + ("i",), 0, U63)
            g = ln.lin.sub(i).addc(-1)
            return EnumV(OPT, {0: (), 1: (StructV(None, (IntV(i), elem_ref(ps))),)}, {1: (g,)}), st
    return None


def m_rev(ai, fr, st, bb, t, args, key):
    return StructV("Rev", (args[0],)), st


def range_next(ai, fr, st, ps, rng, key, rev):
    if not (isinstance(rng, StructV) and len(rng.fields) == 2):
        return None
    s, e = rng.fields
    if not (isinstance(s, IntV) and isinstance(e, IntV)):
        return None
    nonempty = e.lin.sub(s.lin).addc(-1)
    empty = s.lin.sub(e.lin)
    if st.prove(nonempty):
        d = Lin.const(1)
        vs = {1: None}
    elif st.prove(empty):
        d = Lin.const(0)
        vs = {0: ()}
    else:
        d = fresh(st, key + ("d",), 0, 1)
        vs = {0: (), 1: None}
    gs = {}
    if rev:
        ne = e.lin.sub(d)
        item = e.lin.addc(-1)
        new = StructV(rng.name, (s, IntV(ne)))
    else:
        ns = s.lin.add(d)
        item = s.lin
        new = StructV(rng.name, (IntV(ns), e))
    if 1 in vs:
        vs[1] = (IntV(item),)
        gs[1] = (nonempty, d.addc(-1))
    if 0 in vs:
        gs[0] = (empty, d.neg())
    for p in ps:
        ai.write_path(st, p, new, len(ps) > 1, ("rn", key))
    return EnumV(OPT, vs, gs), st


def m_range_next(ai, fr, st, bb, t, args, key):
    ps = deref_paths(args[0])
    rng = read_ref(ai, st, args[0], key)
    return range_next(ai, fr, st, ps, rng, key, False)


def m_rev_next(ai, fr, st, bb, t, args, key):
    ps = deref_paths(args[0])
    it = read_ref(ai, st, args[0], key)
    if isinstance(it, StructV) and it.name == "Rev":
        return range_next(ai, fr, st, [(r, pr + (("f", 0),)) for r, pr in ps], it.fields[0], key, True)
    return None


def m_next_dispatch(ai, fr, st, bb, t, args, key):
    it = read_ref(ai, st, args[0], key)
    if isinstance(it, StructV):
        if it.name == "slice::Iter":
            return m_iter_next(ai, fr, st, bb, t, args, key)
        if it.name == "Enumerate":
            return m_enumerate_next(ai, fr, st, bb, t, args, key)
        if it.name == "Rev":
            return m_rev_next(ai, fr, st, bb, t, args, key)
        if it.name == "std::ops::Range":
            return m_range_next(ai, fr, st, bb, t, args, key)
    # any other in-memory std iterator (Copied<Iter>, Skip<..>, ...): `next` is total, the item is not tracked
    if t.args and _plain_iterator(ai.subst_ty(t.args[0].ty, fr.subst)):
        ai.havoc_args(fr, st, t, args, key)
        return ret_top(ai, fr, st, t, key), st
    return None


# ----------------------------------------------------------------- Cursor / io --

def m_cursor_new(ai, fr, st, bb, t, args, key):
    return CursorV(args[0], ci(0)), st


def m_cursor_position(ai, fr, st, bb, t, args, key):
    c = read_ref(ai, st, args[0], key)
    if isinstance(c, CursorV):
        return c.pos, st
    return IntV(fresh(st, key + ("pos",), 0, (1 << 64) - 1)), st


def m_cursor_set_position(ai, fr, st, bb, t, args, key):
    ps = deref_paths(args[0])
    for p in ps:
        ai.write_path(st, (p[0], p[1] + (("cpos",),)), args[1], len(ps) > 1, ("sp", key))
    return UNIT, st


def m_cursor_get_ref(ai, fr, st, bb, t, args, key):
    ps = deref_paths(args[0])
    return RefV([(r, pr + (("cin",),)) for r, pr in ps]), st


def cursor_len(ai, st, c, key):
    """Length of a cursor's underlying buffer."""
    inner = c.inner
    if isinstance(inner, RefV):
        _, ln, _ = slice_info(ai, st, inner, key)
        return ln
    if isinstance(inner, ArrV):
        return inner.length
    return None


def apply_read(ai, st, paths, amt, key, exact=True, depth=0):
    """Effect of reading through the reader object(s) at paths.
    amt: Lin, number of bytes delivered on success.  Returns guard facts that
    hold on the success outcome."""
    guards = []
    if depth > 6:
        return guards
    for pi, p in enumerate(paths):
        v = ai.read_path(st, p)
        k = key + (depth, pi)
        if isinstance(v, RefV):
            guards += apply_read(ai, st, list(v.paths), amt, k, exact, depth + 1)
        elif isinstance(v, CursorV):
            pos = v.pos
            ln = cursor_len(ai, st, v, k)
            if not isinstance(pos, IntV):
                continue
            np_ = fresh(st, k + ("pos",), 0, (1 << 64) - 1)
            st.assume(np_.sub(pos.lin))
            if ln is not None:
                if st.prove(ln.lin.sub(pos.lin)):
                    st.assume(ln.lin.sub(np_))
                guards.append(ln.lin.sub(pos.lin).sub(amt))
            if exact:
                guards.append(np_.sub(pos.lin).sub(amt))
                guards.append(pos.lin.add(amt).sub(np_))
            else:
                st.assume(pos.lin.add(amt).sub(np_))
            ai.write_path(st, (p[0], p[1] + (("cpos",),)), IntV(np_), len(paths) > 1, k)
        elif isinstance(v, StructV) and v.name in ("std::io::Take",):
            inner, limit = v.fields
            if isinstance(limit, IntV):
                d = fresh(st, k + ("tk",), 0, INF)
                st.assume(limit.lin.sub(d))
                st.assume(amt.sub(d))
                if exact:
                    guards.append(d.sub(amt))
                lo, hi = st.iv(limit.lin)
                nl = fresh(st, k + ("lim",), 0, hi)
                st.assume_eq(nl.add(d).sub(limit.lin))
                ai.write_path(st, (p[0], p[1] + (("f", 1),)), IntV(nl, None, limit.rng), len(paths) > 1, k)
                guards += [] if True else []
                apply_read(ai, st, [(p[0], p[1] + (("f", 0),))], d, k, False, depth + 1)
        elif isinstance(v, StructV) and v.name == "std::io::BufReader":
            un = fresh(st, k + ("br",), 0, INF)
            apply_read(ai, st, [(p[0], p[1] + (("f", 0),))], un, k, False, depth + 1)
        elif isinstance(v, StructV) and v.name is not None and ai.facts.adts_by_name.get(v.name):
            # crate adapter (CountBufRead / CrcDigestRead): integer fields grow
            # by what went through; referenced inner readers see the same bytes
            d = fresh(st, k + ("ad",), 0, INF)
            st.assume(amt.sub(d))
            if exact:
                guards.append(d.sub(amt))
            for i, f in enumerate(v.fields):
                if isinstance(f, IntV):
                    # a fresh atom keeps the counter's form small: c' in [c, c + amt]
                    lo, hi = st.iv(f.lin)
                    ahi = st.iv(amt)[1]
                    nc = fresh(st, k + ("cnt", i), max(lo, 0), hi + ahi if hi != INF and ahi != INF else INF)
                    st.assume(nc.sub(f.lin))
                    st.assume(f.lin.add(d).sub(nc))
                    st.assume(nc.sub(f.lin).sub(d))
                    ai.write_path(st, (p[0], p[1] + (("f", i),)), IntV(nc, None, f.rng), len(paths) > 1, k + (i,))
                elif isinstance(f, RefV):
                    tv = [ai.read_path(st, q) for q in f.paths]
                    if any(isinstance(x, (CursorV, StructV, RefV)) for x in tv):
                        apply_read(ai, st, list(f.paths), d, k + (i,), False, depth + 1)
    return guards


def m_read_exact_n(n):
    def m(ai, fr, st, bb, t, args, key):
        amt = Lin.const(n)
        guards = apply_read(ai, st, deref_paths(args[0]), amt, key)
        rty = ai.subst_ty(t.dest.ty, fr.subst)
        val = ai.mk_top(rty.args[0], key + ("v",), st, fr.subst) if rty.k == "adt" and rty.args else TopV()
        return ok_or_err(val, ioerr(), guards), st
    return m


def m_read_exact(ai, fr, st, bb, t, args, key):
    ps, ln, _ = slice_info(ai, st, args[1], key)
    guards = apply_read(ai, st, deref_paths(args[0]), ln.lin, key)
    for p in ps:
        ai.write_path(st, (p[0], p[1] + (("e",),)), IntV(fresh(st, key + ("b",), 0, 255)), True, key)
    return ok_or_err(UNIT, ioerr(), guards), st


def m_read(ai, fr, st, bb, t, args, key):
    ps, ln, _ = slice_info(ai, st, args[1], key)
    n = fresh(st, key + ("n",), 0, U63)
    st.assume(ln.lin.sub(n))
    guards = apply_read(ai, st, deref_paths(args[0]), n, key)
    for p in ps:
        ai.write_path(st, (p[0], p[1] + (("e",),)), IntV(fresh(st, key + ("b",), 0, 255)), True, key)
    rd = read_ref(ai, st, args[0], key)
    if isinstance(rd, CursorV):
        # Cursor::read never fails
        for g in guards:
            st.assume(g)
        return ok(IntV(n)), st
    return ok_or_err(IntV(n), ioerr(), guards), st


def m_fill_buf(ai, fr, st, bb, t, args, key):
    ln = fresh(st, key + ("fb",), 0, U63)
    root = ("X", key + ("fillbuf",))
    rd = read_ref(ai, st, args[0], key)
    if isinstance(rd, CursorV):
        cl = cursor_len(ai, st, rd, key)
        if cl is not None:
            st.assume(cl.lin.sub(ln))
    st.store[root] = ArrV("array", IntV(ln), IntV(fresh(st, key + ("fbb",), 0, 255)))
    r = RefV([(root, ())], IntV(ln))
    if isinstance(rd, CursorV):
        return ok(r), st
    return ok_or_err(r, ioerr()), st


def m_consume(ai, fr, st, bb, t, args, key):
    amt = args[1]
    if isinstance(amt, IntV):
        gs = apply_read(ai, st, deref_paths(args[0]), amt.lin, key)
        for g in gs:
            st.assume(g)
    return UNIT, st


def m_take(ai, fr, st, bb, t, args, key):
    return StructV("std::io::Take", (args[0], args[1])), st


def m_bufreader_new(ai, fr, st, bb, t, args, key):
    return StructV("std::io::BufReader", (args[0],)), st


def apply_write(ai, st, paths, amt, key, depth=0):
    if depth > 6:
        return
    for pi, p in enumerate(paths):
        v = ai.read_path(st, p)
        k = key + ("w", depth, pi)
        if isinstance(v, RefV):
            apply_write(ai, st, list(v.paths), amt, k, depth + 1)
        elif isinstance(v, ArrV) and v.kind == "vec":
            d = fresh(st, k + ("d",), 0, INF)
            st.assume(amt.sub(d))
            ai.write_path(st, p, ArrV("vec", IntV(v.length.lin.add(d)),
                                      IntV(fresh(st, k + ("b",), 0, 255))), len(paths) > 1, k)
        elif isinstance(v, StructV) and v.name is not None and ai.facts.adts_by_name.get(v.name):
            d = fresh(st, k + ("d",), 0, INF)
            st.assume(amt.sub(d))
            for i, f in enumerate(v.fields):
                if isinstance(f, IntV):
                    ai.write_path(st, (p[0], p[1] + (("f", i),)), IntV(f.lin.add(d)), len(paths) > 1, k + (i,))
                elif isinstance(f, RefV):
                    apply_write(ai, st, list(f.paths), d, k + (i,), depth + 1)


def m_write_all(ai, fr, st, bb, t, args, key):
    _, ln, _ = slice_info(ai, st, args[1], key)
    apply_write(ai, st, deref_paths(args[0]), ln.lin, key)
    return ok_or_err(UNIT, ioerr()), st


def m_write(ai, fr, st, bb, t, args, key):
    _, ln, _ = slice_info(ai, st, args[1], key)
    n = fresh(st, key + ("n",), 0, U63)
    st.assume(ln.lin.sub(n))
    apply_write(ai, st, deref_paths(args[0]), n, key)
    return ok_or_err(IntV(n), ioerr()), st


def m_write_n(n):
    def m(ai, fr, st, bb, t, args, key):
        apply_write(ai, st, deref_paths(args[0]), Lin.const(n), key)
        return ok_or_err(UNIT, ioerr()), st
    return m


def m_flush(ai, fr, st, bb, t, args, key):
    return ok_or_err(UNIT, ioerr()), st


# ----------------------------------------------------------------- misc --

def m_opaque(tag):
    def m(ai, fr, st, bb, t, args, key):
        return OpaqueV(tag), st
    return m


def m_unit(ai, fr, st, bb, t, args, key):
    return UNIT, st


def m_ret_top(ai, fr, st, bb, t, args, key):
    return ret_top(ai, fr, st, t, key), st


def m_panic(ai, fr, st, bb, t, args, key):
    mac = t.span.macro or ""
    ai.record(fr, bb, "panic", "Panic", "reachable panic (%s)" % (mac or "explicit"), t.span, "fail", "")
    return "diverge"


def m_box_new(ai, fr, st, bb, t, args, key):
    return BoxV(args[0]), st


def m_clone(ai, fr, st, bb, t, args, key):
    v = read_ref(ai, st, args[0], key)
    if isinstance(v, (TopV, BotV)):
        return None
    return v, st


def m_to_be_bytes(ai, fr, st, bb, t, args, key):
    x = args[0]
    ty = t.args[0].ty
    if not isinstance(x, IntV) or ty.bits != 16:
        return None
    hi = st.fresh(key + ("hi",), 0, 255)
    lo = st.fresh(key + ("lo",), 0, 255)
    st.assume_eq(x.lin.sub(Lin({hi: 256, lo: 1}, 0)))
    return ArrV("array", ci(2), None, (IntV(Lin.var(hi)), IntV(Lin.var(lo)))), st


def m_wrapping_add(ai, fr, st, bb, t, args, key):
    a, b = args
    ty = t.args[0].ty
    if isinstance(a, IntV) and isinstance(b, IntV):
        return IntV(ai.fit(st, a.lin.add(b.lin), ty, key + ("wa",))), st
    return None


def m_checked_mul(ai, fr, st, bb, t, args, key):
    a, b = args
    ty = t.args[0].ty
    if not (isinstance(a, IntV) and isinstance(b, IntV)):
        return None
    r = ai.binop(fr, st, "Mul", a, b, None, None, key + ("cm",))
    tl, th = ty_range(ty)
    lo, hi = st.iv(r.lin)
    fits = Lin.const(th).sub(r.lin)
    if hi <= th:
        return some(r), st
    if lo > th:
        return none(), st
    return EnumV(OPT, {0: (), 1: (r,)}, {1: (fits,), 0: (fits.neg().addc(-1),)}), st




def m_checked_sub(ai, fr, st, bb, t, args, key):
    """a.checked_sub(b) on unsigned integers: Some(a - b) exactly when a >= b."""
    a, b = args
    ty = t.args[0].ty
    if not (isinstance(a, IntV) and isinstance(b, IntV)) or ty.k != "uint":
        return None
    d = a.lin.sub(b.lin)
    lo, hi = st.iv(d)
    if lo >= 0:
        return some(IntV(d)), st
    if hi < 0:
        return none(), st
    return EnumV(OPT, {0: (), 1: (IntV(d),)}, {1: (d,), 0: (d.neg().addc(-1),)}), st


def m_minmax(is_max):
    def m(ai, fr, st, bb, t, args, key):
        """Integer max / min: a fresh value with r >= a, r >= b (resp. <=) and the interval max(lo), max(hi) (resp. min)."""
        if len(args) != 2 or not (isinstance(args[0], IntV) and isinstance(args[1], IntV)):
            return None
        a, b = args
        (la, ha), (lb, hb) = st.iv(a.lin), st.iv(b.lin)
        if is_max:
            v = st.fresh(key + ("max",), max(la, lb), max(ha, hb))
            r = Lin.var(v)
            st.assume(r.sub(a.lin))
            st.assume(r.sub(b.lin))
        else:
            v = st.fresh(key + ("min",), min(la, lb), min(ha, hb))
            r = Lin.var(v)
            st.assume(a.lin.sub(r))
            st.assume(b.lin.sub(r))
        return IntV(r), st
    return m


def m_into(ai, fr, st, bb, t, args, key):
    sty = ai.subst_ty(t.args[0].ty, fr.subst)
    dty = ai.subst_ty(t.dest.ty, fr.subst)
    if sty.s == dty.s:
        return args[0], st
    return ret_top(ai, fr, st, t, key), st


def m_int_from(ai, fr, st, bb, t, args, key):
    """Lossless integer conversions (u64::from(u32), ...)."""
    if len(args) == 1 and isinstance(args[0], IntV) and t.dest.ty.is_int() and t.args[0].ty.is_int():
        sl, sh = ty_range(t.args[0].ty)
        dl, dh = ty_range(t.dest.ty)
        if dl <= sl and sh <= dh:
            return IntV(args[0].lin, None, (dl, dh)), st
    return None


def m_eq_top(ai, fr, st, bb, t, args, key):
    return IntV(fresh(st, key + ("eq",), 0, 1)), st


def m_box_drop(ai, fr, st, bb, t, args, key):
    return UNIT, st


# ----------------------------------------------------------------- higher-order std combinators --

_CAPS = {}


def closure_captures_readonly(ai, defk):
    """True iff every construction of the closure captures only integers/bools and shared references: calling it any
    number of times then changes nothing the interpreter tracks (the crate has no interior mutability)."""
    if defk in _CAPS:
        return _CAPS[defk]
    seen = False
    good = True
    for b in ai.facts.bodies:
        for blk in b.blocks:
            for s in blk.stmts:
                if s.k == "assign" and s.rv.k == "aggregate" and s.rv.agg == "closure" and s.rv.closure == defk:
                    seen = True
                    for op in s.rv.ops:
                        ty = op.ty
                        if ty.k in ("uint", "int", "bool", "char"):
                            continue
                        if ty.k == "ref" and not ty.mut:
                            continue
                        good = False
    _CAPS[defk] = seen and good
    return _CAPS[defk]


_ITER_OK = ("std::slice::Iter", "std::slice::IterMut", "std::ops::Range", "std::ops::RangeInclusive", "std::iter::Rev",
            "std::iter::Enumerate", "std::iter::Copied", "std::iter::Cloned", "std::iter::Zip", "std::iter::Skip",
            "std::iter::Take", "std::slice::Chunks", "std::slice::ChunksExact", "std::slice::Windows")


def _plain_iterator(ty):
    """The receiver is one of std's in-memory iterators (whose `next` neither panics, allocates nor does I/O)."""
    import re
    t = ty.to if ty.k == "ref" else ty
    names = [x for x in re.findall(r"[A-Za-z_][A-Za-z0-9_]*(?:::[A-Za-z_][A-Za-z0-9_]*)+", t.s)]
    return t.k == "adt" and bool(names) and all(n in _ITER_OK for n in names)


def m_hof(ai, fr, st, bb, t, args, key):
    """A std combinator that is total except for the closures it is given: every closure argument is analysed once with
    most general arguments (so its own obligations are recorded wherever it would be called), provided it captures
    nothing it could mutate; the combinator then returns any value of its type."""
    for i, (a, op) in enumerate(zip(args, t.args)):
        oty = ai.subst_ty(op.ty, fr.subst)
        if isinstance(a, ClosureV):
            b = ai.facts.by_def.get(a.defk)
            if b is None or not closure_captures_readonly(ai, a.defk):
                return None
            s2 = st.copy()
            tops = [ai.mk_top(b.locals[j].ty, key + ("hof", i, j), s2, fr.subst) for j in range(2, b.arg_count + 1)]
            if ai.call_closure(fr, s2, a, tops, key + ("hof", i), bb) is None:
                return None
        elif oty.k in ("closure", "fndef", "fnptr", "param", "dynamic"):
            return None
    ai.havoc_args(fr, st, t, args, key)
    return ret_top(ai, fr, st, t, key), st


def m_hof_iter(ai, fr, st, bb, t, args, key):
    if not t.args or not _plain_iterator(ai.subst_ty(t.args[0].ty, fr.subst)):
        return None
    return m_hof(ai, fr, st, bb, t, args, key)


def first_of(*ms):
    def m(ai, fr, st, bb, t, args, key):
        for f in ms:
            r = f(ai, fr, st, bb, t, args, key)
            if r is not None:
                return r
        return None
    return m


HOF_TOTAL = ("std::array::from_fn", "std::option::Option::map_or", "std::option::Option::map_or_else", "std::option::Option::ok_or_else",
             "std::option::Option::and_then", "std::option::Option::or_else", "std::option::Option::filter",
             "std::option::Option::is_some_and", "std::option::Option::is_none_or",
             "std::result::Result::map", "std::result::Result::map_or", "std::result::Result::map_or_else",
             "std::result::Result::and_then", "std::result::Result::or_else", "std::result::Result::unwrap_or_else",
             "std::result::Result::is_ok_and", "std::result::Result::is_err_and", "core::bool::<impl bool>::then")
HOF_ITER = ("all", "any", "fold", "for_each", "position", "rposition", "find", "find_map", "count", "last", "nth",
            "max", "min", "copied", "cloned", "skip", "take")


def build_models():
    M = {}
    M["<std::result::Result<T, E> as std::ops::Try>::branch"] = m_branch
    M["std::ops::Try::branch"] = m_branch
    M["<std::result::Result<T, F> as std::ops::FromResidual<std::result::Result<std::convert::Infallible, E>>>::from_residual"] = m_from_residual
    M["std::ops::FromResidual::from_residual"] = m_from_residual
    M["std::result::Result::map_err"] = m_map_err
    M["std::result::Result::is_err"] = m_is_err
    M["std::option::Option::take"] = m_opt_take
    M["std::option::Option::replace"] = m_opt_replace
    M["std::option::Option::as_ref"] = m_opt_as_ref
    M["std::option::Option::as_mut"] = m_opt_as_ref
    M["std::option::Option::map"] = m_opt_map
    M["std::option::Option::unwrap_or"] = m_unwrap_or
    M["std::option::Option::unwrap_or_else"] = m_unwrap_or_else
    M["std::default::Default::default"] = m_default
    M["<std::option::Option<T> as std::default::Default>::default"] = m_default
    M["<bool as std::default::Default>::default"] = m_default
    M["std::vec::Vec::new"] = m_vec_new
    M["std::vec::Vec::len"] = m_vec_len
    M["std::vec::Vec::push"] = m_vec_push
    M["std::vec::Vec::resize"] = m_vec_resize
    M["std::vec::Vec::clear"] = m_vec_clear
    M["std::vec::Vec::extend_from_slice"] = m_vec_extend
    M["std::vec::Vec::as_slice"] = m_as_slice
    M["std::vec::Vec::as_mut_slice"] = m_as_slice
    M["<std::vec::Vec<T, A> as std::ops::Deref>::deref"] = m_as_slice
    M["<std::vec::Vec<T, A> as std::ops::DerefMut>::deref_mut"] = m_as_slice
    M["std::vec::from_elem"] = m_from_elem
    M["std::vec::Vec::into_boxed_slice"] = m_into_boxed
    M["core::slice::<impl [T]>::len"] = m_slice_len
    M["core::slice::<impl [T]>::is_empty"] = m_slice_is_empty
    M["core::slice::<impl [T]>::get"] = m_slice_get
    M["core::slice::<impl [T]>::iter"] = m_iter
    M["core::slice::<impl [T]>::copy_from_slice"] = m_copy_from_slice
    M["core::slice::<impl [T]>::copy_within"] = m_copy_within
    M["core::slice::<impl [T]>::fill"] = m_fill
    for n in ("<std::vec::Vec<T, A> as std::ops::Index<I>>::index",
              "<std::vec::Vec<T, A> as std::ops::IndexMut<I>>::index_mut",
              "core::slice::index::<impl std::ops::Index<I> for [T]>::index",
              "core::slice::index::<impl std::ops::IndexMut<I> for [T]>::index_mut",
              "std::array::<impl std::ops::Index<I> for [T; N]>::index",
              "std::array::<impl std::ops::IndexMut<I> for [T; N]>::index_mut"):
        M[n] = m_index
    M["<I as std::iter::IntoIterator>::into_iter"] = m_identity
    M["core::slice::iter::<impl std::iter::IntoIterator for &'a [T]>::into_iter"] = m_iter
    M["std::iter::Iterator::enumerate"] = m_enumerate
    M["std::iter::Iterator::rev"] = m_rev
    M["<std::slice::Iter<'a, T> as std::iter::Iterator>::next"] = m_iter_next
    M["<std::iter::Enumerate<I> as std::iter::Iterator>::next"] = m_enumerate_next
    M["<std::iter::Rev<I> as std::iter::Iterator>::next"] = m_rev_next
    M["std::iter::range::<impl std::iter::Iterator for std::ops::Range<A>>::next"] = m_range_next
    M["std::iter::Iterator::next"] = m_next_dispatch
    M["std::io::Cursor::new"] = m_cursor_new
    M["std::io::Cursor::position"] = m_cursor_position
    M["std::io::Cursor::set_position"] = m_cursor_set_position
    M["std::io::Cursor::get_ref"] = m_cursor_get_ref
    M["std::io::Cursor::get_mut"] = m_cursor_get_ref
    M["byteorder::ReadBytesExt::read_u8"] = m_read_exact_n(1)
    M["byteorder::ReadBytesExt::read_u16"] = m_read_exact_n(2)
    M["byteorder::ReadBytesExt::read_u32"] = m_read_exact_n(4)
    M["byteorder::ReadBytesExt::read_u64"] = m_read_exact_n(8)
    M["std::io::Read::read_exact"] = m_read_exact
    M["<std::io::Cursor<T> as std::io::Read>::read"] = m_read
    M["std::io::Read::take"] = m_take
    M["std::io::BufReader::new"] = m_bufreader_new
    M["byteorder::WriteBytesExt::write_u8"] = m_write_n(1)
    M["byteorder::WriteBytesExt::write_u16"] = m_write_n(2)
    M["byteorder::WriteBytesExt::write_u32"] = m_write_n(4)
    M["byteorder::WriteBytesExt::write_u64"] = m_write_n(8)
    M["std::io::Write::write_all"] = m_write_all
    for n in ("core::fmt::rt::Argument::new_display", "core::fmt::rt::Argument::new_debug",
              "core::fmt::rt::Argument::new_lower_hex", "std::fmt::Arguments::new",
              "core::fmt::rt::Argument::<'_>::new_display", "core::fmt::rt::Argument::<'_>::new_debug",
              "core::fmt::rt::Argument::<'_>::new_lower_hex", "std::fmt::Arguments::<'a>::new"):
        M[n] = m_opaque("fmt")
    M["std::fmt::format"] = m_opaque("String")
    M["std::hint::must_use"] = m_identity
    M["<T as std::string::ToString>::to_string"] = m_opaque("String")
    M["std::string::ToString::to_string"] = m_opaque("String")
    M["<std::string::String as std::convert::From<&str>>::from"] = m_opaque("String")
    M["std::io::Error::new"] = m_opaque("io::Error")
    M["core::panicking::panic"] = m_panic
    M["std::rt::panic_fmt"] = m_panic
    M["core::panicking::panic_fmt"] = m_panic
    M["std::boxed::Box::new"] = m_box_new
    M["<std::boxed::Box<T, A> as std::ops::Drop>::drop"] = m_box_drop
    M["std::array::<impl std::clone::Clone for [T; N]>::clone"] = m_clone
    M["core::num::<impl u16>::to_be_bytes"] = m_to_be_bytes
    M["core::num::<impl u8>::wrapping_add"] = m_wrapping_add
    M["core::num::<impl usize>::checked_mul"] = m_checked_mul
    for ty_ in ("u8", "u16", "u32", "u64", "usize"):
        M["core::num::<impl %s>::checked_sub" % ty_] = m_checked_sub
    M["core::num::checked_sub"] = m_checked_sub
    for n_ in ("std::cmp::max", "std::cmp::Ord::max"):
        M[n_] = m_minmax(True)
    for n_ in ("std::cmp::min", "std::cmp::Ord::min"):
        M[n_] = m_minmax(False)
    M["<T as std::convert::Into<U>>::into"] = m_into
    M["std::convert::num::from"] = m_int_from
    M["std::convert::From::from"] = m_int_from
    M["<std::option::Option<T> as std::cmp::PartialEq>::eq"] = m_eq_top
    M["std::cmp::PartialEq::ne"] = m_eq_top
    M["std::cmp::impls::<impl std::cmp::PartialEq<&B> for &A>::eq"] = m_eq_top
    M["crc::crc32::<impl crc::Digest<'a, u32, crc::Table<L>>>::finalize"] = m_ret_top
    M["crc::crc32::<impl crc::Digest<'a, u32, crc::Table<L>>>::update"] = m_unit
    M["crc::crc32::<impl crc::Crc<u32, crc::Table<L>>>::checksum"] = m_ret_top
    M["crc::crc64::<impl crc::Crc<u64, crc::Table<L>>>::checksum"] = m_ret_top
    M["crc::crc32::<impl crc::Crc<u32, crc::Table<L>>>::digest"] = m_opaque("Digest")
    for n in HOF_TOTAL:
        M[n] = m_hof
    M["std::option::Option::map"] = first_of(m_opt_map, m_hof)
    M["std::option::Option::unwrap_or_else"] = first_of(m_unwrap_or_else, m_hof)
    for n in HOF_ITER:
        M["std::iter::Iterator::" + n] = m_hof_iter
    from .mir import _strip_generics
    for k in list(M):
        M.setdefault(_strip_generics(k), M[k])
    return M



# External functions that can neither panic nor allocate in proportion to an argument, and that mutate nothing except
# through the `&mut` arguments they are given (which the interpreter havocs).  A call to one of these is analysed as
# "returns any value of its type"; it is not reported as unmodelled.  (Functions that can panic - `copy_within`,
# `split_at`, `clamp`, `Vec::remove`, indexing - or allocate by an argument - `with_capacity`, `reserve`, `repeat` -
# must NOT be listed: unmodelled externals fail closed.)
def _int_methods(names):
    out = set()
    for ty in ("u8", "u16", "u32", "u64", "u128", "usize", "i8", "i16", "i32", "i64", "i128", "isize"):
        for n in names:
            out.add("core::num::<impl %s>::%s" % (ty, n))
    return out


TOTAL_EXTERNALS = _int_methods([
    "saturating_sub", "saturating_add", "saturating_mul", "wrapping_add", "wrapping_sub", "wrapping_mul", "wrapping_neg",
    "wrapping_shl", "wrapping_shr", "checked_add", "checked_sub", "checked_mul", "checked_div", "checked_rem", "checked_shl",
    "checked_shr", "overflowing_add", "overflowing_sub", "overflowing_mul", "leading_zeros", "trailing_zeros", "count_ones",
    "count_zeros", "is_power_of_two", "abs_diff", "rotate_left", "rotate_right", "swap_bytes", "to_be_bytes", "to_le_bytes",
    "to_ne_bytes", "from_be_bytes", "from_le_bytes", "from_ne_bytes", "to_be", "to_le", "from_be", "from_le", "min_value",
    "max_value", "reverse_bits", "leading_ones", "trailing_ones"]) | {
    "std::cmp::min", "std::cmp::max", "std::cmp::Ord::min", "std::cmp::Ord::max", "std::cmp::Ord::cmp",
    "std::cmp::PartialOrd::partial_cmp", "std::cmp::PartialOrd::lt", "std::cmp::PartialOrd::le", "std::cmp::PartialOrd::gt",
    "std::cmp::PartialOrd::ge", "std::cmp::PartialEq::eq",
    "std::mem::take", "std::mem::replace", "std::mem::swap", "std::mem::size_of", "std::mem::drop",
    "std::option::Option::is_some", "std::option::Option::is_none", "std::option::Option::ok_or", "std::option::Option::or",
    "std::option::Option::xor", "std::option::Option::unwrap_or_default", "std::option::Option::copied",
    "std::option::Option::cloned", "std::option::Option::get_or_insert", "std::option::Option::insert",
    "std::result::Result::is_ok", "std::result::Result::ok", "std::result::Result::err", "std::result::Result::unwrap_or",
    "std::result::Result::unwrap_or_default",
    "core::slice::<impl [T]>::first", "core::slice::<impl [T]>::last", "core::slice::<impl [T]>::first_mut",
    "core::slice::<impl [T]>::last_mut", "core::slice::<impl [T]>::get_mut", "core::slice::<impl [T]>::contains",
    "core::slice::<impl [T]>::starts_with", "core::slice::<impl [T]>::ends_with", "core::slice::<impl [T]>::iter_mut",
    "core::slice::<impl [T]>::reverse", "core::slice::<impl [T]>::as_ptr",
    "std::slice::<impl [T]>::into_vec", "std::vec::Vec::capacity", "std::vec::Vec::is_empty", "std::vec::Vec::pop",
    "std::vec::Vec::truncate", "std::vec::Vec::last", "std::vec::Vec::first", "std::vec::Vec::shrink_to_fit",
    "std::vec::Vec::into_boxed_slice", "std::vec::Vec::as_ptr",
    "<std::vec::Vec<T, A> as std::convert::From<std::boxed::Box<[T], A>>>::from",
    "std::io::Error::kind", "<std::io::ErrorKind as std::cmp::PartialEq>::eq",
    "std::ops::Range::contains", "std::ops::RangeInclusive::contains", "std::ops::RangeInclusive::new",
    "std::ops::RangeInclusive::start", "std::ops::RangeInclusive::end", "std::ops::RangeFrom::contains", "std::ops::RangeTo::contains",
    "std::option::Option::and", "std::option::Option::is_some_and", "std::option::Option::as_deref", "std::option::Option::flatten",
    "std::result::Result::is_ok", "std::result::Result::and", "std::result::Result::or", "core::bool::<impl bool>::then_some",
    "core::slice::<impl [T]>::iter", "core::slice::<impl [T]>::split_first", "core::slice::<impl [T]>::split_last",
    "core::slice::<impl [T]>::is_empty", "core::slice::<impl [T]>::len",
}
from .mir import _strip_generics as _sg
TOTAL_EXTERNALS |= {_sg(x) for x in TOTAL_EXTERNALS}


def io_trait_models():
    """Models for unresolved io trait calls on opaque / std readers & writers.
    They are consulted only when the receiver does not resolve to a crate impl."""
    return {
        "std::io::Read::read": m_read,
        "std::io::BufRead::fill_buf": m_fill_buf,
        "std::io::BufRead::consume": m_consume,
        "std::io::Write::write": m_write,
        "std::io::Write::flush": m_flush,
    }
