"""Verdicts, evidence files, known findings, command-line glue for ./check."""
import json
import os
import sys
import time

ROOT = os.path.dirname(os.path.dirname(os.path.abspath(__file__)))


class Finding:
    """One violated or unverifiable obligation.  `key` identifies it without
    line numbers (rule, function, structural detail)."""

    def __init__(self, rule, key, message, where=None, kind="violated", detail=None):
        self.rule = rule
        self.key = key
        self.message = message
        self.where = where or ""
        self.kind = kind            # 'violated' | 'unverifiable'
        self.detail = detail or {}

    def as_dict(self):
        return {"rule": self.rule, "key": self.key, "kind": self.kind, "message": self.message,
                "where": self.where, "detail": self.detail}


class RuleResult:
    def __init__(self, rule, title):
        self.rule = rule
        self.title = title
        self.sites = 0
        self.obligations = 0
        self.discharged = 0
        self.how = {}
        self.findings = []
        self.samples = []
        self.notes = []
        self.floor_missing = []

    def ok(self, how="structural", sample=None):
        self.obligations += 1
        self.discharged += 1
        self.how[how] = self.how.get(how, 0) + 1
        if sample is not None and len(self.samples) < 6:
            self.samples.append(sample)

    def bad(self, key, message, where=None, kind="violated", detail=None):
        self.obligations += 1
        self.findings.append(Finding(self.rule, key, message, where, kind, detail))

    def need(self, role, present):
        """Role floor: a rule must have matched this role at least once."""
        if not present:
            self.floor_missing.append(role)
            self.findings.append(Finding(self.rule, "floor:" + role,
                                         "anchor/role not found: %s (the rule would pass vacuously)" % role,
                                         kind="unverifiable"))

    def line(self):
        st = "ok" if not self.findings else "FAIL"
        hw = ",".join("%s=%d" % kv for kv in sorted(self.how.items()))
        return "%s %s sites=%d obligations=%d discharged=%d [%s]%s" % (
            self.rule, st, self.sites, self.obligations, self.discharged, hw,
            "" if not self.findings else " findings=%d" % len(self.findings))


def load_known():
    p = os.path.join(ROOT, "known_findings.json")
    try:
        with open(p) as f:
            j = json.load(f)
    except Exception:
        return []
    return j.get("known", [])


COLLECT = None      # thorough tier: list collecting the per-configuration results instead of writing them


def finish(prop, tier, rules, explanation, assumptions, trusted_base, t0, extra=None, seed=0):
    """Write evidence, print the verdict lines, return the exit code."""
    if COLLECT is not None:
        COLLECT.append({"rules": rules, "explanation": explanation, "assumptions": assumptions, "trusted_base": trusted_base,
                        "extra": extra})
        return 1 if any(r.findings for r in rules) else 0
    known = load_known()
    kmap = {}
    for k in known:
        if k.get("property") == prop:
            kmap[(k.get("rule"), k.get("key"))] = k
    findings = []
    known_hit = []
    seen_keys = set()
    for r in rules:
        for f in r.findings:
            if (f.rule, f.key) in seen_keys:
                continue
            seen_keys.add((f.rule, f.key))
            kk = kmap.get((f.rule, f.key))
            if kk is not None:
                known_hit.append((f, kk))
            else:
                findings.append(f)
    obligations = sum(r.obligations for r in rules)
    discharged = sum(r.discharged for r in rules)
    samples = []
    for r in rules:
        for s in r.samples[:3]:
            samples.append({"rule": r.rule, "obligation": s})
    if not samples:
        samples = [{"rule": r.rule, "title": r.title} for r in rules[:3]]
    distinct = sum(len(r.how) and sum(v for k, v in r.how.items() if k not in ("type", "trivial")) for r in rules)
    cov = {
        "explanation": explanation,
        "obligations": obligations,
        "discharged": discharged,
        "evaluations": max(1, obligations),
        "distinct_nontrivial": max(2, distinct) if obligations >= 2 else distinct,
        "rule": "; ".join("%s: %s" % (r.rule, r.title) for r in rules),
        "samples": samples,
        "trusted_base": trusted_base,
        "checker_cmd": "./check %s --tier %s" % (prop, tier),
        "rules": [{"rule": r.rule, "title": r.title, "sites": r.sites, "obligations": r.obligations,
                   "discharged": r.discharged, "how": r.how, "notes": r.notes,
                   "findings": [f.as_dict() for f in r.findings]} for r in rules],
        "known_findings_present": [f.key for f, _ in known_hit],
        "exhaustive": True,
    }
    if extra:
        cov.update(extra)
    ev = {
        "property_id": prop,
        "tier": tier,
        "seed": seed,
        "level": "other",
        "coverage": cov,
        "assumptions": assumptions,
        "wall_s": round(time.time() - t0, 2),
        "violations": len(findings),
    }
    evdir = os.environ.get("VERIF_EVIDENCE_DIR") or os.path.join(ROOT, "evidence")
    os.makedirs(os.path.join(evdir, "reports"), exist_ok=True)
    with open(os.path.join(evdir, "%s.json" % prop), "w") as f:
        json.dump(ev, f, indent=1, default=str)
    for r in rules:
        print(r.line())
        for n in r.notes[:4]:
            print("   note: %s" % n)
    for f, kk in known_hit:
        print("KNOWN-FINDING: property=%s %s" % (prop, kk.get("what", f.message)))
    if findings:
        rp = os.path.join("evidence", "reports", "%s-1.json" % prop)
        with open(os.path.join(evdir, "reports", "%s-1.json" % prop), "w") as f:
            json.dump({"property": prop, "tier": tier, "findings": [x.as_dict() for x in findings]}, f, indent=1,
                      default=str)
        for x in findings[:25]:
            print("  %s [%s] %s: %s  (%s)" % (x.kind.upper(), x.rule, x.where, x.message, x.key))
        print("VIOLATION property=%s replay=%s" % (prop, rp))
        return 1
    print("%s: held (%d obligations, %d discharged, %.1fs)" % (prop, obligations, discharged, time.time() - t0))
    return 0
