"""Run context for one ./check invocation: fact extraction from the current
tree, parallel E-AI entry analyses (with a content-addressed cache), cleanup."""
import hashlib
import os
import pickle
import shutil
import subprocess
import tempfile
import time
from concurrent.futures import ProcessPoolExecutor

from .mir import Facts

ROOT = os.path.dirname(os.path.dirname(os.path.abspath(__file__)))
SUPERSET = "stream,raw_decoder"
ALL_CONFIGS = ["stream,raw_decoder", "stream", "raw_decoder", "none"]


class InfraError(Exception):
    pass


_EH = None


def _engine_hash():
    """Hash of the engine sources, taken once per process: the cache key must describe the code that is loaded, not
    whatever is on disk when a later configuration is analysed."""
    global _EH
    if _EH is None:
        _EH = _engine_hash_now()
    return _EH


def _engine_hash_now():
    h = hashlib.sha256()
    for d in ("engine",):
        for fn in sorted(os.listdir(os.path.join(ROOT, d))):
            if fn.endswith(".py"):
                with open(os.path.join(ROOT, d, fn), "rb") as f:
                    h.update(f.read())
    return h.hexdigest()[:16]


_engine_hash()


def _worker(args):
    from .harness import analyse_entry
    facts_path, kind, name = args
    return analyse_entry(facts_path, kind, name)


class Context:
    def __init__(self, repo, tier, seed, prop):
        self.repo = repo
        self.tier = tier
        self.seed = seed
        self.prop = prop
        self.tmp = None
        self.fact_paths = {}
        self._facts = {}
        self.fact_hash = {}
        self.default_cfg = SUPERSET

    # ---------------------------------------------------------------- facts
    def prepare(self, configs=None):
        if not os.path.isdir(self.repo):
            raise InfraError("repository %s not found" % self.repo)
        self.tmp = tempfile.mkdtemp(prefix="verif-%s-" % self.prop)
        cfgs = configs or [SUPERSET]
        if self.tier == "thorough" and configs is None:
            cfgs = [SUPERSET]
        for c in cfgs:
            self.build_facts(c)

    def build_facts(self, cfg):
        if cfg in self.fact_paths:
            return self.fact_paths[cfg]
        out = os.path.join(self.tmp, "facts-%s.json" % cfg.replace(",", "+"))
        env = dict(os.environ)
        env["TMPDIR"] = self.tmp
        env["CARGO_NET_OFFLINE"] = "true"
        r = subprocess.run([os.path.join(ROOT, "tools", "mkfacts.sh"), self.repo, cfg, out],
                           stdout=subprocess.PIPE, stderr=subprocess.STDOUT, env=env)
        if r.returncode != 0 or not os.path.exists(out):
            raise InfraError("fact extraction failed for features [%s]:\n%s" % (cfg, r.stdout.decode()[-3000:]))
        with open(out, "rb") as f:
            self.fact_hash[cfg] = hashlib.sha256(f.read()).hexdigest()[:24]
        self.fact_paths[cfg] = out
        return out

    def facts(self, cfg=None):
        cfg = cfg or self.default_cfg
        if cfg not in self._facts:
            p = self.build_facts(cfg)
            f = Facts(p)
            if f.crate != "lzma_rs":
                raise InfraError("fact file is for crate %r, expected lzma_rs" % f.crate)
            if not f.overflow_checks:
                raise InfraError("facts were built without overflow checks")
            self._facts[cfg] = f
        return self._facts[cfg]

    def cleanup(self):
        if self.tmp and os.path.isdir(self.tmp):
            shutil.rmtree(self.tmp, ignore_errors=True)

    # ---------------------------------------------------------------- E-AI
    def ai_entries(self, cfg=None, select=None, jobs=None):
        """Analyse every public entry (or those accepted by `select`) in
        parallel.  Results are cached by (facts hash, engine hash, entry)."""
        from .harness import entries_of
        cfg = cfg or self.default_cfg
        facts = self.facts(cfg)
        ents = [e for e in entries_of(facts) if select is None or select(e)]
        cdir = os.path.join(ROOT, ".cache", "ai", "%s-%s" % (self.fact_hash[cfg], _engine_hash()))
        os.makedirs(cdir, exist_ok=True)
        res = {}
        todo = []
        for kind, key, name in ents:
            cp = os.path.join(cdir, hashlib.sha256(("%s:%s" % (kind, key)).encode()).hexdigest()[:20] + ".pkl")
            if os.path.exists(cp) and not os.environ.get("VERIF_NOCACHE"):
                try:
                    with open(cp, "rb") as f:
                        res[name] = pickle.load(f)
                    continue
                except Exception:
                    pass
            todo.append((kind, key, name, cp))
        if todo:
            jobs = jobs or min(len(todo), os.cpu_count() or 4)
            with ProcessPoolExecutor(max_workers=jobs) as ex:
                for (kind, key, name, cp), r in zip(todo, ex.map(_worker, [(self.fact_paths[cfg], k, key) for k, key, _, _ in todo])):
                    res[name] = r
                    if r.error is None:
                        try:
                            with open(cp, "wb") as f:
                                pickle.dump(r, f)
                        except Exception:
                            pass
        # keep the cache directory small: drop other versions
        try:
            base = os.path.join(ROOT, ".cache", "ai")
            ds = sorted((os.path.getmtime(os.path.join(base, d)), d) for d in os.listdir(base))
            for _, d in ds[:-6]:
                shutil.rmtree(os.path.join(base, d), ignore_errors=True)
        except Exception:
            pass
        return res
