"""C01 - LZMA decoding is exact  [claimed for the structural clauses below only].

Decided: the symbol-level control structure of the decoder that is a finite
table, an index/offset term or an ownership fact.  NOT decided: that the range
decoder returns the right bits or that bytes are right (numerics).

R1  header: props -> (lc, lp, pb) = (p % 9, (p / 9) % 5, p / 45); the only
    rejecting test on the way to the parameters is props >= 225 (every one of
    the 225 settings is accepted); the dictionary size is max(field, 0x1000).
R2  automaton: the literal / match / rep / short-rep state updates are the
    format's (constants 0, -3, -6 with thresholds 4 and 10; 7/10, 8/11, 9/11 with
    threshold 7); rep[0..4] rotation moves rep[i] to rep[i+1]; copy length is
    decoded + 2 (1 for a short rep), distance rep[0] + 1; end-marker constant.
R3  literal and distance context terms: lit_state, matched-literal index,
    len_state = min(len, 3), distance-slot arithmetic and its table offset.
R4  circular window: only append_literal (via set) writes the buffer, the cursor
    and the produced length; it wraps exactly at cursor == dict_size writing the
    whole buffer; finish writes buf[0..cursor].
R5  table shapes: probability arrays have the format's sizes and every
    initialiser is 0x400 (from the types of the decoder state and its
    constructor).
"""
from engine import flow, report
from engine.flow import Terms, cfg, short
from rules import pat
from rules.common import TRUSTED

PROP = "C01"


def rule_header(facts):
    r = report.RuleResult("C01.R1", "header map: all 225 property bytes accepted and split as p%9, (p/9)%5, p/45; dict clamp 0x1000")
    b = pat.body_of(facts, "LzmaParams::read_header")
    r.need("LzmaParams::read_header", b is not None)
    if b is None:
        return r
    bodies = [b]
    for blk in b.calls():
        if blk.term.callee is not None and blk.term.callee.target().local:
            hb = facts.by_def.get(blk.term.callee.target().defk)
            if hb is not None and hb.promoted is None and hb.kind != "Closure" and "Result" in hb.locals[0].ty.s:
                bodies.append(hb)
    # every rejecting guard must be `props >= 225`
    n225 = 0
    for x in bodies:
        gs, tm = pat.guards(x)
        for (bb, t, z, nz) in gs:
            s = pat.cmp_sides(t)
            for edge in (z, nz):
                pass
            rej = [e for e in (z, nz) if not flow.reaches_ok(x, e)]
            if not rej or t[0] == "discr":
                continue
            if s and ((s[0] == "Ge" and s[2] == ("const", 225)) or (s[0] == "Gt" and s[2] == ("const", 224))) and \
                    (pat.has_call(s[1], "read_u8") or pat.has_arg(s[1])):
                n225 += 1
                r.ok("guard", {"fn": short(x.name), "reject": "props >= 225"})
            elif pat.has_call(t, "read_u") or pat.has_arg(t) and s:
                r.bad("%s|extra-reject" % short(x.name), "a well-formed header is rejected by an additional test: %s "
                      "(the format allows lc 0-8, lp 0-4, pb 0-4 for .lzma)" % flow.show(t)[:120], pat.where(x, bb))
    r.need("the props >= 225 test", n225 >= 1)
    # the split
    agg = None
    for x in bodies:
        tm = flow.PosTerms(x)
        for blk in x.blocks:
            for si, s in enumerate(blk.stmts):
                if s.k == "assign" and s.rv.k == "aggregate" and s.rv.agg == "adt" and s.rv.adt_name.endswith("LzmaProperties"):
                    t = tm.at(blk.idx, si).of_rvalue(s.rv, 0)
                    if pat.has_op(t, ("Rem", "Div")):
                        agg = (x, blk.idx, t)
    r.need("construction of LzmaProperties from the property byte", agg is not None)
    if agg:
        x, bb, t = agg
        lc, lp, pb = t[2]
        r.sites += 1

        def shape(u):
            return flow.show(u)
        def src(u):
            return pat.has_call(u, "read_u8") or pat.has_arg(u)
        def tab(u):
            """the term as a function of its single non-constant leaf (the property byte), for every legal byte"""
            out = []
            for v in range(225):
                seen = set()

                def lf(q, v=v):
                    seen.add(q)
                    if len(seen) > 1:
                        raise pat.NotEvaluable(q)
                    return v
                try:
                    out.append(pat.eval_term(u, lf))
                except (pat.NotEvaluable, pat.Overflow):
                    return None
            return out
        by_eval = (tab(lc) == [v % 9 for v in range(225)] and tab(lp) == [(v // 9) % 5 for v in range(225)] and
                   tab(pb) == [v // 45 for v in range(225)])
        okk = by_eval or (lc[0] == "Rem" and lc[2] == ("const", 9) and src(lc[1]) and not pat.has_op(lc[1], ("Div", "Rem")) and
               lp[0] == "Rem" and lp[2] == ("const", 5) and lp[1][0] == "Div" and lp[1][2] == ("const", 9) and
               not pat.has_op(lp[1][1], ("Div", "Rem")) and
               pb[0] == "Div" and pb[2] == ("const", 5) and pb[1][0] == "Div" and pb[1][2] == ("const", 9) and
               not pat.has_op(pb[1][1], ("Div", "Rem")))
        if okk:
            r.ok("term", {"lc": shape(lc)[:60], "lp": shape(lp)[:60], "pb": shape(pb)[:60]})
        else:
            r.bad("read_header|split", "lc/lp/pb are not p%%9, (p/9)%%5, (p/9)/5: %s" % shape(t)[:160], pat.where(x, bb))
    # dictionary size in effect: the header's u32, raised to 4096 - and nothing else (the window's distance guards and the
    # wrap position use this value); gated evaluation of the dict_size field of the returned parameters
    from engine.flow import PosTerms
    pt = PosTerms(b)
    adt = facts.adt("decode::lzma::LzmaParams")
    agg = None
    for blk in b.blocks:
        for i, s_ in enumerate(blk.stmts):
            if s_.k == "assign" and s_.rv.k == "aggregate" and s_.rv.agg == "adt" and s_.rv.adt_name.endswith("lzma::LzmaParams"):
                agg = (blk.idx, i, s_)
    r.sites += 1
    if adt is None or agg is None:
        r.bad("read_header|clamp", "cannot find the LzmaParams built by read_header", pat.where(b), "unverifiable")
        return r
    names = [f_["name"] for f_ in adt["variants"][0]["fields"]]
    op = agg[2].rv.ops[names.index("dict_size")]
    bad = None
    try:
        for v in (0, 1, 4095, 4096, 4097, 0x1800, 0x10400, 1 << 20, (1 << 32) - 0x1000, (1 << 32) - 1):
            leaf = lambda q, v=v: v if (q[0] in ("ok", "try") and pat.has_call(q, "read_u32")) else (_ for _ in ()).throw(pat.NotEvaluable(q))
            if op.place is not None and not op.place.proj:
                got = pat.eval_gated(b, pt, op.place.local, agg[0], leaf, agg[1])
            else:
                got = pat.eval_term(pt.at(agg[0], agg[1]).of_operand(op), leaf)
            if got != max(v, 0x1000):
                bad = "a header dictionary size of %d gives a window of %d, the format says %d" % (v, got, max(v, 0x1000))
                break
    except pat.Overflow:
        bad = "the dictionary size computation overflows"
    except pat.NotEvaluable as ex:
        r.bad("read_header|clamp", "cannot evaluate the dictionary size in effect as a function of the header field (%s)"
              % (flow.show(ex.args[0])[:60] if isinstance(ex.args[0], tuple) else ex.args[0]), pat.where(b, agg[0]), "unverifiable")
        return r
    if bad:
        r.bad("read_header|clamp", bad, pat.where(b, agg[0]))
    else:
        r.ok("evaluation", {"dict_size": "max(field, 0x1000) on 10 values incl. unaligned and near 2^32"})
    return r


def store_terms(b, tm, field):
    out = []
    for blk in b.blocks:
        if blk.cleanup:
            continue
        for s in blk.stmts:
            if s.k == "assign" and s.place.proj and s.place.proj[-1][0] == "field" and s.place.proj[-1][2] == field:
                out.append((blk.idx, tm.of_rvalue(s.rv, 0)))
    return out


def _sub(t, out=None):
    out = [] if out is None else out
    if isinstance(t, tuple):
        if t and isinstance(t[0], str):
            out.append(t)
        for x in t:
            if isinstance(x, tuple):
                _sub(x, out)
    return out


def rule_automaton(facts):
    r = report.RuleResult("C01.R2", "state transitions, repeat-distance rotation, copy length and distance terms are the format's")
    b = pat.body_of(facts, "DecoderState::process_next_inner")
    r.need("the symbol decoder", b is not None)
    if b is None:
        return r
    tm = Terms(b)
    gs, _ = pat.guards(b)
    # the 12-state automaton, decided by gated evaluation: every store to `state` is a function of the old state; the
    # symbol kind of a store is read off the decision bits (is_match / is_rep / is_rep_g0 / is_rep_0long) that dominate it
    from engine.flow import PosTerms
    pt = PosTerms(b)
    c = cfg(b)
    term_at = lambda b_: pt.at(b_.idx, None).of_operand(b_.term.discr)
    TABLES = ("is_match", "is_rep_g0", "is_rep_g1", "is_rep_g2", "is_rep_0long", "is_rep")

    def table_of(t):
        for q in _sub(t):
            if q[0] == "call" and q[1].endswith("decode_bit") and len(q[2]) > 1:
                for f_ in TABLES:
                    if any(z[0] == "field" and z[1] == f_ for z in _sub(q[2][1])):
                        return f_
        return None

    def kind_of(bb):
        sig = {}
        for (gb, t, cond) in pat.branch_conditions(b, c, bb, term_at):
            if t[0] == "discr":
                continue
            tb = table_of(t)
            if tb:
                sig[tb] = 0 if cond == ("is", 0) else 1
        if sig == {"is_match": 0}:
            return "literal"
        if sig == {"is_match": 1, "is_rep": 0}:
            return "match"
        if sig == {"is_match": 1, "is_rep": 1, "is_rep_g0": 0, "is_rep_0long": 0}:
            return "short rep"
        if sig == {"is_match": 1, "is_rep": 1}:
            return "rep"
        return "? %s" % sorted(sig.items())
    WANT = {"literal": [0, 0, 0, 0, 1, 2, 3, 4, 5, 6, 4, 5], "match": [7] * 7 + [10] * 5, "rep": [8] * 7 + [11] * 5,
            "short rep": [9] * 7 + [11] * 5}
    seen = {}
    nst = 0
    for blk in b.blocks:
        if blk.cleanup:
            continue
        for i, s_ in enumerate(blk.stmts):
            if not (s_.k == "assign" and s_.place.proj and s_.place.proj[-1][0] == "field" and s_.place.proj[-1][2] == "state"):
                continue
            nst += 1
            kind = kind_of(blk.idx)
            vec = []
            try:
                for st_ in range(12):
                    leaf = lambda q, st_=st_: st_ if (q[0] == "field" and q[1] == "state") else (_ for _ in ()).throw(pat.NotEvaluable(q))
                    if s_.rv.k == "use" and s_.rv.op.place is not None and not s_.rv.op.place.proj:
                        vec.append(pat.eval_gated(b, pt, s_.rv.op.place.local, blk.idx, leaf, i))
                    else:
                        vec.append(pat.eval_term(pt.at(blk.idx, i).of_rvalue(s_.rv, blk.idx), leaf))
            except (pat.NotEvaluable, pat.Overflow):
                r.bad("automaton|state-term:%s" % kind, "cannot evaluate the next state after a %s as a function of the state" % kind,
                      pat.where(b, blk.idx), "unverifiable")
                continue
            if kind not in WANT:
                r.bad("automaton|state-kind", "the state is updated on a path that is not one of the four symbol kinds (%s)" % kind,
                      pat.where(b, blk.idx), "unverifiable")
            elif vec != WANT[kind]:
                k = [j for j in range(12) if vec[j] != WANT[kind][j]][0]
                r.bad("automaton|state:%s" % kind, "after a %s in state %d the decoder goes to state %s, the format says %d" % (kind, k, vec[k], WANT[kind][k]),
                      pat.where(b, blk.idx))
            else:
                seen[kind] = True
                r.ok("evaluation", {"after a %s" % kind: "state' = %s for states 0..11" % WANT[kind]})
            # the update happens only when committing
    r.sites = nst
    for kind in WANT:
        if kind not in seen and not any(kind in f.key for f in r.findings):
            r.bad("automaton|state-missing:%s" % kind, "no state update after a %s" % kind, pat.where(b))
    # which length coder: a new match uses len_decoder, a repeated match rep_len_decoder; a short rep copies one byte
    lens = {}
    for blk in b.calls():
        nm = flow.callee(blk.term) or ""
        if nm.endswith("LenDecoder::decode"):
            recv = tm.of_operand(blk.term.args[0])
            fld = "rep_len_decoder" if pat.has_field(recv, "rep_len_decoder") else "len_decoder" if pat.has_field(recv, "len_decoder") else "?"
            lens[kind_of(blk.idx)] = fld
    if lens == {"match": "len_decoder", "rep": "rep_len_decoder"}:
        r.ok("table", {"length coder": lens})
    else:
        r.bad("automaton|len-coder", "length coders are used as %s; the format: match -> len_decoder, rep -> rep_len_decoder" % lens, pat.where(b))
    # rotation: rep[i+1] = rep[i]; rep[3]=rep[2]; rep[2]=rep[1]; rep[1]=rep[0]
    rot = []
    for blk in b.blocks:
        for s in blk.stmts:
            if s.k == "assign" and any(p[0] == "field" and p[2] == "rep" for p in s.place.proj) and \
                    s.place.proj[-1][0] in ("index", "constindex"):
                dst = s.place.proj[-1]
                src = tm.of_rvalue(s.rv, 0)
                rot.append((blk.idx, dst, src))
    pairs = set()

    def cidx(x):
        if isinstance(x, int):
            return x
        if isinstance(x, tuple) and x and x[0] == "const":
            return x[1]
        return None
    for bb, dst, src in rot:
        di = dst[1] if dst[0] == "constindex" else cidx(tm.of_local(dst[1]))
        if di is not None and src[0] == "index" and pat.has_field(src, "rep") and cidx(src[2]) is not None:
            pairs.add((di, cidx(src[2])))
    sym = [1 for bb, dst, src in rot if dst[0] == "index" and src[0] == "index" and pat.has_field(src, "rep") and
           tm.of_local(dst[1])[0] != "const"]
    # new match: the constant-index stores, replayed in execution order (dominance) on [r0, r1, r2, r3], must give
    # [_, r0, r1, r2] - the order of the three moves matters
    cst = []
    for bb, dst, src in rot:
        di = dst[1] if dst[0] == "constindex" else cidx(tm.of_local(dst[1]))
        if di is not None and src[0] == "index" and pat.has_field(src, "rep") and cidx(src[2]) is not None and kind_of(bb) == "match":
            cst.append((bb, di, cidx(src[2])))
    cst.sort(key=lambda x: len([y for y in cst if c.dominates(y[0], x[0]) and y[0] != x[0]]))
    arr = [0, 1, 2, 3]
    for bb, di, si in cst:
        arr[di] = arr[si]
    # ... or one store of the whole array, `self.rep = [_, r0, r1, r2]` built from the old elements
    for blk in b.blocks:
        if blk.cleanup or kind_of(blk.idx) != "match":
            continue
        for s_ in blk.stmts:
            if s_.k == "assign" and s_.place.proj and s_.place.proj[-1][0] == "field" and s_.place.proj[-1][2] == "rep" and \
                    s_.rv.k == "aggregate" and s_.rv.agg == "array" and len(s_.rv.ops) == 4:
                els = [tm.of_operand(o) for o in s_.rv.ops]
                old_arr = list(arr)
                for i_, e_ in enumerate(els):
                    if isinstance(e_, tuple) and e_ and e_[0] == "index" and pat.has_field(e_, "rep") and cidx(e_[2]) is not None:
                        arr[i_] = old_arr[cidx(e_[2])]
                        if i_ >= 1:
                            pairs.add((i_, cidx(e_[2])))
                    elif i_ >= 1:
                        arr[i_] = None
    # ... or a memmove: `self.rep.copy_within(0..k, 1)` is rep[i + 1] = rep[i] for i = k-1 down to 0
    cw_sym = False
    for blk in b.calls():
        if not (flow.callee(blk.term) or "").endswith("copy_within") or len(blk.term.args) != 3:
            continue
        if not pat.has_field(tm.of_operand(blk.term.args[0]), "rep"):
            continue
        rg = pat.strip(tm.of_operand(blk.term.args[1]))
        dst_ = tm.of_operand(blk.term.args[2])
        if not (rg[0] == "agg" and str(rg[1]).endswith("Range::Range") and len(rg[2]) == 2 and rg[2][0] == ("const", 0) and dst_ == ("const", 1)):
            continue
        k_ = cidx(rg[2][1])
        if k_ is not None and kind_of(blk.idx) == "match" and 1 <= k_ <= 3:
            old_arr = list(arr)
            for i_ in range(k_):
                arr[i_ + 1] = old_arr[i_]
                pairs.add((i_ + 1, i_))
        elif k_ is None:
            cw_sym = True
    # `self.rep[..=idx].rotate_right(1)`: rep[i + 1] = rep[i] for i < idx and rep[0] = old rep[idx] in one step
    for blk in b.calls():
        if (flow.callee(blk.term) or "").endswith("rotate_right") and len(blk.term.args) == 2 and \
                pat.has_field(tm.of_operand(blk.term.args[0]), "rep") and tm.of_operand(blk.term.args[1]) == ("const", 1):
            a0 = tm.of_operand(blk.term.args[0])
            if flow.term_has(a0, lambda q: q[0] == "agg" and str(q[1]).endswith("RangeToInclusive")) and kind_of(blk.idx) != "match":
                cw_sym = True
    if {(3, 2), (2, 1), (1, 0)} <= pairs and arr[1:] == [0, 1, 2]:
        r.ok("evaluation", {"new-distance rotation": "rep[3]=rep[2]; rep[2]=rep[1]; rep[1]=rep[0] in this order: [_, r0, r1, r2]"})
    else:
        r.bad("automaton|rotation", "on a new match the repeat-distance history becomes %s (moves %s), the format says [new, r0, r1, r2]"
              % (["r%d" % x for x in arr], [(d_, s__) for _, d_, s__ in cst]), pat.where(b))
    if sym:
        # rep[i + 1] = rep[i] in the loop over (0..idx).rev()
        okk = False
        for bb, dst, src in rot:
            if dst[0] == "index" and src[0] == "index":
                it = tm.of_local(dst[1])
                if it[0] == "Add" and pat.has_const(it, 1) and cidx(it) is None:
                    okk = True
        # the loop must run downwards ((0..idx).rev()): upwards it would smear rep[0] over the history
        revd = any((flow.callee(blk.term) or "").endswith(("Iterator::rev", "iter::Rev")) or
                   "Rev<" in (blk.term.args[0].ty.s if blk.term.args else "") for blk in b.calls()
                   if (flow.declared(blk.term) or "").endswith(("Iterator::rev", "Iterator::next")))
        if okk and not revd:
            okk = False
        if okk:
            r.ok("table", {"rep-match rotation": "rep[i+1] = rep[i] for i = idx-1 down to 0, then rep[0] = old rep[idx]"})
        else:
            r.bad("automaton|rep-rotation", "the rep-match rotation is not rep[i+1] = rep[i]", pat.where(b))
    elif cw_sym:
        r.ok("table", {"rep-match rotation": "rep.copy_within(0..idx, 1), then rep[0] = old rep[idx]"})
    else:
        r.bad("automaton|rep-rotation-missing", "no rep[i+1] = rep[i] rotation for repeated matches", pat.where(b))
    # copy terms
    from rules import C08
    rl = C08.rule_lengths(facts)
    for f in rl.findings:
        r.findings.append(f)
    r.obligations += rl.obligations
    r.discharged += rl.discharged
    for blk in b.calls():
        if blk.term.callee is not None and blk.term.callee.method == "append_lz":
            d = tm.of_operand(blk.term.args[2])
            if d[0] == "Add" and pat.has_field(d, "rep") and pat.has_const(d, 1) and not pat.has_op(d, ("Sub", "Mul", "Shl")):
                r.ok("term", {"copy distance": flow.show(d)[:60]})
            else:
                r.bad("automaton|distance", "the copy distance is not rep[0] + 1: %s" % flow.show(d)[:80], pat.where(b, blk.idx))
    # end marker constant
    stored0 = [src for bb, dst, src in rot if (dst[1] if dst[0] == "constindex" else cidx(tm.of_local(dst[1]))) == 0]
    mk = [s for (_, t, _, _) in gs for s in [pat.cmp_sides(t)] if s and s[0] in ("Eq", "Ne") and pat.has_const(t, 0xFFFF_FFFF)
          and (pat.has_field(t, "rep") or s[1] in stored0 or s[2] in stored0)]
    # ... and rep[0] holds the marker when the test is made: the store of the decoded distance comes first (a decoder that
    # is called again after an accepted marker must find the impossible distance there)
    st0 = [bb for bb, dst, src in rot if (dst[1] if dst[0] == "constindex" else cidx(tm.of_local(dst[1]))) == 0 and kind_of(bb) == "match"]
    mkb = [bb for (bb, t, _, _) in gs for s in [pat.cmp_sides(t)] if s and s[0] in ("Eq", "Ne") and pat.has_const(t, 0xFFFF_FFFF)
           and (pat.has_field(t, "rep") or s[1] in stored0 or s[2] in stored0)]
    if mk and not (st0 and all(any(c.dominates(sb, mb) for sb in st0) for mb in mkb)):
        r.bad("automaton|marker-order", "the end-marker test is made before the decoded distance is stored in rep[0]: after an accepted marker "
              "rep[0] does not hold 0xFFFF_FFFF", pat.where(b, mkb[0] if mkb else None))
    elif mk:
        r.ok("term", {"end marker": "rep[0] == 0xFFFF_FFFF"})
    else:
        r.bad("automaton|marker", "the end-marker test rep[0] == 0xFFFF_FFFF is missing", pat.where(b))
    return r


def automaton_part(facts, rid, title, keys):
    """The clauses of C01.R2 named by `keys`, reported under another property that rests on the same mechanism."""
    full = rule_automaton(facts)
    r = report.RuleResult(rid, title)
    r.sites = 1
    mine = [f for f in full.findings if any(k in f.key for k in keys)]
    floor = [f for f in full.findings if f.key.startswith("floor:")]
    for f in mine + floor:
        f.rule = rid
        r.findings.append(f)
    r.obligations = max(1, len(mine) + len(floor))
    r.discharged = 0 if (mine or floor) else 1
    r.how = {"shared:C01.R2": 1}
    return r


def rule_contexts(facts):
    r = report.RuleResult("C01.R3", "literal / length / distance context and offset terms are the format's")
    lit = pat.body_of(facts, "DecoderState::decode_literal")
    dis = pat.body_of(facts, "DecoderState::decode_distance")
    r.need("decode_literal and decode_distance", lit is not None and dis is not None)
    if lit is not None:
        # every step of literal decoding is a small expression: each is looked up among the function's statements and tests
        # and decided by evaluation (the loop-carried values - symbol so far, shifted match byte - are free variables)
        from engine.flow import PosTerms
        ptl = PosTerms(lit)
        terms = []

        def collect(body_, pt_):
            for blk in body_.blocks:
                if blk.cleanup:
                    continue
                for i, s_ in enumerate(blk.stmts):
                    if s_.k == "assign" and s_.rv.k in ("binop", "cast"):
                        terms.append((blk.idx, pt_.at(blk.idx, i).of_rvalue(s_.rv, blk.idx)))
                if blk.term.k == "switch":
                    terms.append((blk.idx, pt_.at(blk.idx, None).of_operand(blk.term.discr)))
                if blk.term.k == "assert" and blk.term.msg.get("kind") == "BoundsCheck":
                    terms.append((blk.idx, pt_.at(blk.idx, None).of_operand(blk.term.msg["index"])))
        collect(lit, ptl)
        # a loop of decode_literal moved into a private helper of the same type (a function today's tree does not have) still
        # belongs to literal decoding: its steps are looked up as well
        from engine.mir import _known_functions
        known_ = _known_functions() or set()
        for blk in lit.calls():
            cal = blk.term.callee
            if cal is None or not cal.target().local:
                continue
            hb_ = facts.by_def.get(cal.target().defk)
            if hb_ is not None and hb_.name not in known_ and hb_.self_ty is not None and lit.self_ty is not None and \
                    hb_.self_ty.name == lit.self_ty.name:
                collect(hb_, PosTerms(hb_))

        def ev(t, **kw):
            def leaf(q):
                if q[0] == "field" and q[1] in ("lc", "lp", "state") and q[1] in kw:
                    return kw[q[1]]
                if q[0] == "call" and q[1].endswith("LzBuffer::len") and "len" in kw:
                    return kw["len"]
                if q[0] == "call" and q[1].endswith("LzBuffer::last_or") and "prev" in kw:
                    return kw["prev"]
                if q[0] == "phi":
                    if pat.has_call(q, "last_n") and "mb" in kw:
                        return kw["mb"]
                    if pat.has_call(q, "decode_bit") and "sym" in kw:
                        return kw["sym"]
                    if not pat.has_call(q, "last_n") and not pat.has_call(q, "decode_bit") and "sym" in kw:
                        return kw["sym"]
                if q[0] in ("ok", "try") and pat.has_call(q, "last_n") and not pat.has_call(q, "decode_bit") and "mb" in kw:
                    return kw["mb"]
                if q[0] in ("ok", "try") and pat.has_call(q, "decode_bit") and "bit" in kw:
                    return kw["bit"]
                # the symbol finished by a private helper of this type (a loop moved out of decode_literal)
                if q[0] in ("ok", "try") and "sym" in kw and "bit" not in kw and not pat.has_call(q, "last_n") and \
                        flow.term_has(q, lambda z: z[0] == "call" and str(z[1]).startswith("decode::lzma::DecoderState")):
                    return kw["sym"]
                raise pat.NotEvaluable(q)
            return pat.eval_cmp(t, leaf) if pat.cmp_sides(t) else pat.eval_term(t, leaf)

        def exists(desc, key, pred):
            r.sites += 1
            for bb, t in terms:
                try:
                    if pred(t):
                        r.ok("evaluation", {"decode_literal": desc})
                        return True
                except (pat.NotEvaluable, pat.Overflow, KeyError, TypeError, IndexError):
                    continue
            r.bad("decode_literal|%s" % key, "decode_literal has no step computing %s" % desc, pat.where(lit))
            return False
        grid = [(lc, lp, ln, pv) for lc in (0, 3, 8) for lp in (0, 2, 4) for ln in (0, 1, 5, 0x1234) for pv in (0, 0x5A, 0xFF)]
        exists("lit_state = ((len & (2^lp - 1)) << lc) + (prev >> (8 - lc))", "lit_state",
               lambda t: t[0] in ("Add", "BitOr", "BitXor") and pat.has_field(t, "lp") and pat.has_field(t, "lc") and all(
                   ev(t, lc=lc, lp=lp, len=ln, prev=pv) == ((ln & ((1 << lp) - 1)) << lc) + (pv >> (8 - lc)) for lc, lp, ln, pv in grid))
        exists("matched mode iff state >= 7", "matched-mode",
               lambda t: pat.has_field(t, "state") and pat.cmp_sides(t) and
               ([bool(ev(t, state=s_)) for s_ in range(12)] in ([s_ >= 7 for s_ in range(12)], [s_ < 7 for s_ in range(12)])))
        exists("match_bit = (match_byte >> 7) & 1", "match-bit",
               lambda t: t[0] == "BitAnd" and pat.has_call(t, "last_n") and all(ev(t, mb=mb) == (mb >> 7) & 1 for mb in (0, 0x7F, 0x80, 0xFF, 0x155, 0x1AA)))
        exists("match_byte <<= 1", "match-shift",
               lambda t: t[0] == "Shl" and pat.has_call(t, "last_n") and not pat.has_call(t, "decode_bit") and
               all(ev(t, mb=mb) == mb << 1 for mb in (1, 0x80, 0xFF, 0x155)))
        exists("matched index = ((1 + match_bit) << 8) + symbol", "matched-index",
               lambda t: t[0] == "Add" and pat.has_call(t, "last_n") and all(
                   ev(t, mb=mb, sym=sy) == ((1 + ((mb >> 7) & 1)) << 8) + sy for mb in (0, 0x80, 0x17F) for sy in (1, 2, 0xFF)))
        exists("symbol = (symbol << 1) ^ bit", "symbol-update",
               lambda t: t[0] in ("BitXor", "BitOr", "Add") and pat.has_call(t, "decode_bit") and
               all(ev(t, sym=sy, bit=b_, mb=0) == ((sy << 1) ^ b_) for sy in (1, 2, 0x55, 0xFF) for b_ in (0, 1)))
        # the matched loop is left exactly when the decoded bit differs from the match bit
        r.sites += 1
        cl_ = cfg(lit)
        okx = None
        for blk in lit.blocks:
            if blk.cleanup or blk.term.k != "switch" or len(blk.term.targets) != 1:
                continue
            t = ptl.at(blk.idx, None).of_operand(blk.term.discr)
            if not (pat.cmp_sides(t) and pat.has_call(t, "last_n") and pat.has_call(t, "decode_bit")):
                continue
            heads = [h for h, bl, _ in cl_.loops() if blk.idx in bl]
            if not heads:
                continue
            z, nz = blk.term.targets[0][1], blk.term.otherwise
            try:
                if ev(t, mb=0, bit=0, sym=1) == ev(t, mb=0, bit=1, sym=1) or ev(t, mb=0, bit=0, sym=1) == ev(t, mb=0x80, bit=0, sym=1):
                    continue        # not the comparison of the match bit with the decoded bit
            except (pat.NotEvaluable, pat.Overflow):
                continue
            try:
                okx = True
                for mb in (0, 0x80):
                    for b_ in (0, 1):
                        edge = nz if ev(t, mb=mb, bit=b_, sym=1) else z
                        leaves = not any(h in cl_.reachable_from(edge) for h in heads)
                        if leaves != (((mb >> 7) & 1) != b_):
                            okx = False
            except (pat.NotEvaluable, pat.Overflow):
                okx = None
        if okx:
            r.ok("evaluation", {"decode_literal": "the matched loop is left exactly when match_bit != bit"})
        else:
            r.bad("decode_literal|matched-exit", "matched-literal mode is not left exactly when the decoded bit differs from the match bit", pat.where(lit),
                  "violated" if okx is False else "unverifiable")
        exists("loops run while symbol < 0x100", "loop-bound",
               lambda t: pat.cmp_sides(t) and pat.has_call(t, "decode_bit") and not pat.has_call(t, "last_n") and
               [bool(ev(t, sym=sy)) for sy in (1, 0xFF, 0x100, 0x1FF)] in ([True, True, False, False], [False, False, True, True]))
        exists("byte = symbol - 0x100", "result",
               lambda t: t[0] in ("Sub", "cast", "BitAnd") and (pat.has_call(t, "decode_bit") or pat.has_call(t, "decode::lzma::DecoderState")) and
               all(ev(t, sym=sy) & 0xFF == (sy - 0x100) & 0xFF and ev(t, sym=sy) in (sy - 0x100, sy & 0xFF) for sy in (0x100, 0x155, 0x1FF)))
        tm = Terms(lit)
        ln_ = [blk for blk in lit.calls() if blk.term.callee is not None and blk.term.callee.method == "last_n"]
        r.sites += 1
        if ln_ and all(pat.eval_term(tm.of_operand(x.term.args[1]), lambda q: 41 if (q[0] == "index" and pat.has_field(q, "rep")) else (_ for _ in ()).throw(pat.NotEvaluable(q))) == 42
                       for x in ln_):
            r.ok("evaluation", {"match byte": "last_n(rep[0] + 1)"})
        else:
            r.bad("decode_literal|match-byte", "the match byte is not read at distance rep[0] + 1", pat.where(lit))
    if dis is not None:
        # the distance as a function of the decoded slot, evaluated for all 64 slots with symbolic values for the three
        # sub-decodings (reverse tree X, direct bits G, align bits A)
        from engine.flow import PosTerms
        pt = PosTerms(dis)
        c = cfg(dis)
        tm = Terms(dis)
        term_at = lambda b_: pt.at(b_.idx, None).of_operand(b_.term.discr)
        X, G, A = 0x155, 0x2AAAA, 0xB

        def leaf_for(slot, length=5):
            def leaf(q):
                if q[0] in ("ok", "try"):
                    if pat.has_call(q, "parse_reverse_bit_tree"):
                        return X
                    if pat.has_call(q, "RangeDecoder::get"):
                        return G
                    if pat.has_call(q, "BitTree::parse_reverse"):
                        return A
                    if pat.has_call(q, "BitTree::parse"):
                        return slot
                if q[0] == "arg" and q[2] == "length":
                    return length
                raise pat.NotEvaluable(q)
            return leaf
        oks = []
        for blk in dis.blocks:
            if blk.cleanup:
                continue
            for i, s_ in enumerate(blk.stmts):
                if s_.k == "assign" and s_.place.local == 0 and not s_.place.proj and s_.rv.k == "aggregate" and s_.rv.agg == "adt" and \
                        s_.rv.adt_name.endswith("Result") and s_.rv.variant == 0:
                    oks.append((blk.idx, i, s_.rv.ops[0]))
        r.sites += 3
        bad = None
        try:
            for slot in range(64):
                leaf = leaf_for(slot)
                live = []
                for (bb, i, op) in oks:
                    okk = True
                    for (gb, t, cond) in pat.branch_conditions(dis, c, bb, term_at):
                        if t[0] == "discr":
                            continue
                        try:
                            if not pat._cond_holds(t, cond, leaf):
                                okk = False
                                break
                        except pat.NotEvaluable:
                            continue
                    if okk:
                        live.append((bb, i, op))
                if len(live) != 1:
                    raise pat.NotEvaluable(("return", slot, len(live)))
                bb, i, op = live[0]
                if op.place is not None and not op.place.proj:
                    got = pat.eval_gated(dis, pt, op.place.local, bb, leaf, i)
                else:
                    got = pat.eval_term(pt.at(bb, i).of_operand(op), leaf)
                if slot < 4:
                    want = slot
                else:
                    base = (2 | (slot & 1)) << ((slot >> 1) - 1)
                    want = base + X if slot < 14 else base + (G << 4) + A
                if got != want:
                    bad = "distance slot %d decodes to 0x%x, the format says 0x%x (with reverse-tree value 0x%x, direct bits 0x%x, align 0x%x)" % (
                        slot, got, want, X, G, A)
                    break
        except pat.Overflow as ex:
            bad = "the distance computation overflows for some slot"
        except pat.NotEvaluable as ex:
            r.bad("decode_distance|value-term", "cannot evaluate the decoded distance as a function of the slot (%s)" % (ex.args[0],), pat.where(dis), "unverifiable")
            bad = None
        else:
            if bad:
                r.bad("decode_distance|value", bad, pat.where(dis))
            else:
                r.ok("evaluation", {"distance": "slot < 4: slot; else (2|slot&1) << (slot/2-1) + reverse tree (slot < 14) / + direct << 4 + align, all 64 slots"})
        # arguments of the sub-decodings
        for blk in dis.calls():
            nm = flow.callee(blk.term) or ""
            try:
                if nm.endswith("parse_reverse_bit_tree"):
                    okk = pat.has_field(tm.of_operand(blk.term.args[2]), "pos_decoders")
                    for slot in range(4, 14):
                        lf = leaf_for(slot)
                        nb = pat.eval_term(pt.at(blk.idx, None).of_operand(blk.term.args[1]), lf)
                        off = pat.eval_term(pt.at(blk.idx, None).of_operand(blk.term.args[3]), lf)
                        base = (2 | (slot & 1)) << ((slot >> 1) - 1)
                        if nb != (slot >> 1) - 1 or off != base - slot:
                            okk = False
                    if okk:
                        r.ok("evaluation", {"slots 4-13": "reverse tree of slot/2-1 bits at pos_decoders[base - slot]"})
                    else:
                        r.bad("decode_distance|reverse-tree", "slots 4-13 do not use slot/2-1 bits at offset base - slot of pos_decoders", pat.where(dis, blk.idx))
                if nm.endswith("RangeDecoder::get"):
                    okk = all(pat.eval_term(pt.at(blk.idx, None).of_operand(blk.term.args[1]), leaf_for(slot)) == (slot >> 1) - 1 - 4 for slot in range(14, 64))
                    if okk:
                        r.ok("evaluation", {"slots >= 14": "slot/2 - 5 direct bits"})
                    else:
                        r.bad("decode_distance|direct-bits", "slots >= 14 do not read slot/2 - 5 direct bits", pat.where(dis, blk.idx))
                if nm.endswith("BitTree::parse") and pat.has_field(tm.of_operand(blk.term.args[0]), "pos_slot_decoder"):
                    recv = pt.at(blk.idx, None).of_operand(blk.term.args[0])
                    idx = [q for q in _sub(recv) if q[0] == "index"]
                    vals = None
                    # the index operand is a local (len_state): gated evaluation over the match length
                    for s2 in dis.blocks[blk.idx].stmts:
                        pass
                    ilocal = None
                    for blk2 in dis.blocks:
                        for s2 in blk2.stmts:
                            if s2.k == "assign" and s2.rv.k == "ref" and any(pr[0] == "index" for pr in s2.rv.place.proj) and \
                                    any(pr[0] == "field" and pr[2] == "pos_slot_decoder" for pr in s2.rv.place.proj):
                                ilocal = [pr[1] for pr in s2.rv.place.proj if pr[0] == "index"][0]
                                ibb = blk2.idx
                    if ilocal is not None:
                        vals = [pat.eval_gated(dis, pt, ilocal, ibb, leaf_for(0, L)) for L in range(0, 12)]
                    if vals == [min(L, 3) for L in range(0, 12)]:
                        r.ok("evaluation", {"slot tree": "pos_slot_decoder[min(len, 3)]"})
                    else:
                        r.bad("decode_distance|len-state", "the slot tree is not selected by min(len, 3): %s" % vals, pat.where(dis, blk.idx))
            except (pat.NotEvaluable, pat.Overflow) as ex:
                r.bad("decode_distance|args:%s" % nm.split("::")[-1], "cannot evaluate the arguments of %s" % nm.split("::")[-1], pat.where(dis, blk.idx), "unverifiable")
    return r


def rule_window(facts):
    r = report.RuleResult("C01.R4", "the circular window is written only by append_literal, which wraps exactly at dict_size")
    from rules.C07 import check_side
    for field, only in (("cursor", ["LzBuffer>::append_literal", "LzCircularBuffer::from_stream"]),
                        ("len", ["LzBuffer>::append_literal", "LzCircularBuffer::from_stream"]),
                        ("dict_size", ["LzCircularBuffer::from_stream"])):
        r.sites += 1
        sc = {"kind": "writers", "adt": "decode::lzbuffer::LzCircularBuffer", "field": field, "only_in": only}
        if check_side(facts, sc):
            r.ok("who-writes", {"field": field, "writers": only})
        else:
            r.bad("window|writers:%s" % field, "`%s` of the circular window is written outside %s: a copy can bypass the "
                  "wrap handling / flush" % (field, " and ".join(x.split("::")[-1] for x in only)), "decode::lzbuffer::LzCircularBuffer")
    # buffer mutations: only `set` (and the constructor)
    for b in facts.bodies:
        if b.promoted is not None or b.self_ty is None or b.self_ty.name != "decode::lzbuffer::LzCircularBuffer":
            continue
        tm = Terms(b)
        for blk in b.calls():
            nm = flow.callee(blk.term) or ""
            if blk.term.args and pat.has_field(tm.of_operand(blk.term.args[0]), "buf") and \
                    any(nm.endswith(x) for x in ("Vec::resize", "Vec::push", "copy_within", "IndexMut>::index_mut", "Vec::insert",
                                                 "copy_from_slice", "fill", "Vec::extend_from_slice", "Vec::as_mut_slice")):
                if not short(b.name).endswith("LzCircularBuffer::set"):
                    r.bad("window|buf-writer:%s" % short(b.name).split("::")[-1], "the window buffer is modified in %s (%s), "
                          "not through set()" % (short(b.name), nm.split("::")[-1]), pat.where(b, blk.idx))
    # the wrap flush writes the whole buffer and the read side indexes it modulo dict_size: the buffer must hold exactly the
    # positions written so far, i.e. `set(index, ..)` grows it to index + 1 and nothing else (index < dict_size)
    st = next((x for x in facts.bodies if x.promoted is None and short(x.name).endswith("LzCircularBuffer::set")), None)
    if st is not None:
        tms = Terms(st)
        grows = [blk for blk in st.calls() if (flow.callee(blk.term) or "").endswith(("Vec::resize", "Vec::reserve", "Vec::resize_with",
                                                                                        "Vec::extend_from_slice", "Vec::push"))
                 and pat.has_field(tms.of_operand(blk.term.args[0]), "buf")]
        r.sites += 1
        for blk in grows:
            nm = (flow.callee(blk.term) or "").split("::")[-1]
            if nm != "resize":
                r.bad("set|growth:%s" % nm, "the window buffer grows through %s: cannot verify that it holds exactly the positions written" % nm,
                      pat.where(st, blk.idx), "unverifiable")
                continue
            t = tms.of_operand(blk.term.args[1])
            bad = None
            try:
                DS = 6144       # a dictionary size that is not a power of two
                for idx_ in (0, 1, 5, 4095, 4096, 6143):
                    for ln in (0, 1, 4, idx_, 4096):
                        for ml in (1 << 20, (1 << 64) - 1):
                            def leaf(q, idx_=idx_, ln=ln, ml=ml):
                                if q[0] == "arg" and q[2] == "index":
                                    return idx_
                                if q[0] == "field" and q[1] == "dict_size":
                                    return DS
                                if q[0] == "call" and q[1].endswith("::len"):
                                    return ln
                                if q[0] == "field" and q[1] == "memlimit":
                                    return ml
                                if q[0] == "call" and q[1].endswith(("::max", "::min")) and len(q[2]) == 2:
                                    a_, b_ = pat.eval_term(q[2][0], leaf), pat.eval_term(q[2][1], leaf)
                                    return max(a_, b_) if q[1].endswith("max") else min(a_, b_)
                                if q[0] == "call" and q[1].endswith("saturating_mul") and len(q[2]) == 2:
                                    return min(pat.eval_term(q[2][0], leaf) * pat.eval_term(q[2][1], leaf), (1 << 64) - 1)
                                raise pat.NotEvaluable(q)
                            if ln > idx_:
                                continue        # set() grows only when buf.len() < index + 1
                            got = pat.eval_term(t, leaf)
                            if not (idx_ + 1 <= got <= DS):
                                bad = "with dict_size %d, writing position %d with %d bytes buffered grows the buffer to %d bytes" % (DS, idx_, ln, got)
                                break
                        if bad:
                            break
                    if bad:
                        break
            except pat.Overflow:
                bad = "the new buffer length overflows"
            except pat.NotEvaluable as ex:
                r.bad("set|growth-term", "cannot evaluate the new buffer length %s" % flow.show(t)[:80], pat.where(st, blk.idx), "unverifiable")
                continue
            if bad:
                r.bad("set|growth", "%s (allowed: position + 1 .. dict_size): the wrap-around flush writes the whole buffer and relies on it "
                      "holding exactly dict_size bytes at that moment" % bad, pat.where(st, blk.idx))
            else:
                r.ok("evaluation", {"set": "buf grows to a length in [index + 1, dict_size]"})
    # the match byte: last_n(dist) reads the cell dist positions before the cursor, modulo dict_size, for every cursor position
    # (in particular dist == cursor and dist > cursor after a wrap) - by gated evaluation of the index handed to get()
    ln_b = next((x for x in facts.bodies if x.promoted is None and x.trait == "decode::lzbuffer::LzBuffer" and
                 x.item == "last_n" and "Circular" in x.name), None)
    if ln_b is not None:
        from engine.flow import PosTerms as _PT
        ptn = _PT(ln_b)
        cn_ = cfg(ln_b)
        gets = [blk for blk in ln_b.calls() if blk.idx in cn_.reach and ((flow.callee(blk.term) or "").endswith("LzCircularBuffer::get") or
                                                                           ((flow.callee(blk.term) or "").endswith("Index>::index") and
                                                                            pat.has_field(ptn.at(blk.idx, None).of_operand(blk.term.args[0]), "buf")))]
        r.sites += 1
        if len(gets) == 1 and len(gets[0].term.args) >= 2:
            g_ = gets[0]
            badn = None
            try:
                for D in (4, 6):
                    for cur in range(D):
                        for dist in range(1, D + 1):
                            def leafn(q, D=D, cur=cur, dist=dist):
                                if q[0] == "field" and q[1] == "dict_size":
                                    return D
                                if q[0] == "field" and q[1] == "cursor":
                                    return cur
                                if q[0] == "field" and q[1] == "len":
                                    return cur + 2 * D          # the window has wrapped: every distance up to dict_size is legal
                                if q[0] == "arg" and q[2] == "dist":
                                    return dist
                                raise pat.NotEvaluable(q)
                            op_ = g_.term.args[1]
                            if op_.place is not None and not op_.place.proj:
                                got = pat.eval_gated(ln_b, ptn, op_.place.local, g_.idx, leafn)
                            else:
                                got = pat.eval_term(ptn.at(g_.idx, None).of_operand(op_), leafn)
                            if got != (D + cur - dist) % D:
                                badn = "with dict_size %d, cursor %d and distance %d the match byte is read from cell %d, expected cell %d" % (
                                    D, cur, dist, got, (D + cur - dist) % D)
                                break
                        if badn:
                            break
                    if badn:
                        break
            except pat.Overflow:
                badn = "the index of the match byte overflows for some (cursor, distance)"
            except pat.NotEvaluable:
                badn = None
                r.bad("last_n|term", "cannot evaluate which cell last_n reads", pat.where(ln_b), "unverifiable")
            else:
                if badn:
                    r.bad("last_n|cell", badn + ": after the window has wrapped the matched-literal context is wrong", pat.where(ln_b, g_.idx))
                else:
                    r.ok("evaluation", {"last_n": "buf[(dict_size + cursor - dist) % dict_size] for every cursor / distance"})
        else:
            r.bad("last_n|shape", "cannot find the single cell access of last_n", pat.where(ln_b), "unverifiable")
    # the previous byte (literal context): nothing produced -> the default; otherwise the cell before the cursor, modulo dict_size
    lo = next((x for x in facts.bodies if x.promoted is None and x.trait == "decode::lzbuffer::LzBuffer" and
               x.item == "last_or" and "Circular" in x.name), None)
    if lo is not None:
        from engine.flow import PosTerms
        ptl = PosTerms(lo)
        cl = cfg(lo)
        term_at = lambda b_: ptl.at(b_.idx, None).of_operand(b_.term.discr)
        srcs = []       # (block, kind, index term)
        for blk in lo.blocks:
            if blk.cleanup or blk.idx not in cl.reach:
                continue
            for s_ in blk.stmts:
                if s_.k == "assign" and s_.place.local == 0 and not s_.place.proj:
                    t_ = ptl.at(blk.idx, None).of_rvalue(s_.rv, blk.idx)
                    srcs.append((blk.idx, "default" if pat.has_arg(t_, "lit") and not pat.has_call(t_, "get") else "other", t_))
            if blk.term.k == "call" and blk.term.dest.local == 0 and not blk.term.dest.proj:
                nm = flow.callee(blk.term) or ""
                if nm.endswith("LzCircularBuffer::get") or nm.endswith("Index>::index"):
                    srcs.append((blk.idx, "cell", ptl.at(blk.idx, None).of_operand(blk.term.args[1])))
                else:
                    srcs.append((blk.idx, "other", None))
        r.sites += 1
        bad = None
        try:
            for D in (4, 6):
                for cur in range(D):
                    for ln in sorted({0 if cur == 0 else cur, cur, cur + D, cur + 2 * D}):
                        def leaf(q, D=D, cur=cur, ln=ln):
                            if q[0] == "field" and q[1] == "dict_size":
                                return D
                            if q[0] == "field" and q[1] == "cursor":
                                return cur
                            if q[0] == "field" and q[1] == "len":
                                return ln
                            raise pat.NotEvaluable(q)
                        live = []
                        for (bb, kind, t_) in srcs:
                            if all(pat._cond_holds(ct, cond, leaf) for (gb, ct, cond) in pat.branch_conditions(lo, cl, bb, term_at)):
                                live.append((kind, t_))
                        if len(live) != 1:
                            raise pat.NotEvaluable(("sources", len(live)))
                        kind, t_ = live[0]
                        if ln == 0:
                            okk = kind == "default"
                        else:
                            okk = kind == "cell" and pat.eval_term(t_, leaf) == (D + cur - 1) % D
                        if not okk:
                            bad = "with dict_size %d, cursor %d and %d bytes produced the previous byte is taken from %s, expected %s" % (
                                D, cur, ln, "the default" if kind == "default" else ("cell %s" % (pat.eval_term(t_, leaf) if kind == "cell" else "?")),
                                "the default" if ln == 0 else "cell %d" % ((D + cur - 1) % D))
                            break
                    if bad:
                        break
                if bad:
                    break
        except pat.Overflow as ex:
            bad = "the index of the previous byte overflows for some (cursor, produced)"
        except pat.NotEvaluable as ex:
            r.bad("last_or|term", "cannot evaluate which cell last_or reads", pat.where(lo), "unverifiable")
            bad = None
        else:
            if bad:
                r.bad("last_or|cell", bad + ": after the window has wrapped the literal context is wrong", pat.where(lo))
            else:
                r.ok("evaluation", {"last_or": "default iff nothing produced, else buf[(dict_size + cursor - 1) % dict_size]"})
    al = next((x for x in facts.bodies if x.promoted is None and x.trait == "decode::lzbuffer::LzBuffer" and
               x.item == "append_literal" and "Circular" in x.name), None)
    r.need("circular append_literal", al is not None)
    if al is not None:
        gs, tm = pat.guards(al)
        c = cfg(al)
        wrap = None
        for (bb, full) in pat.wrap_guards(al):
            wrap = (bb, full)
        r.sites += 1
        if not wrap:
            r.bad("append_literal|wrap-test", "no `cursor == dict_size` test after the append", pat.where(al))
        else:
            wa = [blk.idx for blk in al.calls() if (flow.declared(blk.term) or "").endswith("Write::write_all") and
                  c.dominates(wrap[1], blk.idx)]
            z0 = [blk.idx for blk in al.blocks for s in blk.stmts if s.k == "assign" and s.place.proj and
                  s.place.proj[-1][0] == "field" and s.place.proj[-1][2] == "cursor" and s.rv.k == "use" and
                  s.rv.op.const_int() == 0 and c.dominates(wrap[1], blk.idx)]
            if wa and z0:
                r.ok("path", {"wrap": "write_all(buf) then cursor = 0 on cursor == dict_size"})
            else:
                r.bad("append_literal|wrap-action", "reaching dict_size does not flush the window and reset the cursor",
                      pat.where(al, wrap[0]))
    fin = next((x for x in facts.bodies if x.promoted is None and x.trait == "decode::lzbuffer::LzBuffer" and
                x.item == "finish" and "Circular" in x.name), None)
    if fin is not None:
        tm = Terms(fin)
        okk = False
        for blk in fin.calls():
            if (flow.declared(blk.term) or "").endswith("Write::write_all"):
                t = tm.of_operand(blk.term.args[1])
                if pat.has_field(t, "buf") and pat.has_field(t, "cursor") and flow.term_has(
                        t, lambda q: q[0] == "agg" and ((q[1].endswith("Range") and q[2][0] == ("const", 0) and pat.has_field(q[2][1], "cursor")) or
                                                        (q[1].endswith("RangeTo") and len(q[2]) == 1 and pat.has_field(q[2][0], "cursor")))):
                    okk = True
        r.sites += 1
        if okk:
            r.ok("term", {"finish": "write_all(&buf[0..cursor])"})
        else:
            r.bad("finish|slice", "finish does not write buf[0..cursor]", pat.where(fin))
    return r


def rule_shapes(facts):
    r = report.RuleResult("C01.R5", "probability tables have the format's sizes and start at 0x400")
    adt = facts.adt("decode::lzma::DecoderState")
    r.need("DecoderState", adt is not None)
    if adt is None:
        return r
    want = {"pos_decoders": "[u16; 115]", "is_match": "[u16; 192]", "is_rep": "[u16; 12]", "is_rep_g0": "[u16; 12]",
            "is_rep_g1": "[u16; 12]", "is_rep_g2": "[u16; 12]", "is_rep_0long": "[u16; 192]",
            "pos_slot_decoder": "[decode::rangecoder::BitTree<64>; 4]", "align_decoder": "decode::rangecoder::BitTree<16>",
            "rep": "[usize; 4]"}
    have = {f["name"]: f["ty"]["s"] for f in adt["variants"][0]["fields"]}
    for k, v in want.items():
        r.sites += 1
        if have.get(k) == v:
            r.ok("type", {"field": k, "type": v})
        else:
            r.bad("shape|%s" % k, "table `%s` has type %s, the format needs %s" % (k, have.get(k), v), "decode::lzma::DecoderState")
    ld = facts.adt("decode::rangecoder::LenDecoder")
    if ld is not None:
        h2 = {f["name"]: f["ty"]["s"] for f in ld["variants"][0]["fields"]}
        w2 = {"low_coder": "[decode::rangecoder::BitTree<8>; 16]", "mid_coder": "[decode::rangecoder::BitTree<8>; 16]",
              "high_coder": "decode::rangecoder::BitTree<256>"}
        for k, v in w2.items():
            r.sites += 1
            if h2.get(k) == v:
                r.ok("type", {"field": k, "type": v})
            else:
                r.bad("shape|len:%s" % k, "length coder `%s` has type %s, the format needs %s" % (k, h2.get(k), v),
                      "decode::rangecoder::LenDecoder")
    # initialisers
    for sfx in ("DecoderState::new", "BitTree::new", "LenDecoder::new"):
        b = pat.body_of(facts, sfx)
        if b is None:
            continue
        tm = Terms(b)
        for blk in b.blocks:
            for s in blk.stmts:
                if s.k == "assign" and s.rv.k == "repeat" and s.rv.op.ty.s == "u16":
                    r.sites += 1
                    if s.rv.op.const_int() == 0x400:
                        r.ok("const", None)
                    else:
                        r.bad("init|%s" % sfx, "a probability table starts at %s, not 0x400" % s.rv.op, pat.where(b, blk.idx))
        if sfx == "DecoderState::new":
            for blk in b.calls():
                if (flow.callee(blk.term) or "").endswith("Vec2D::init"):
                    a = tm.of_operand(blk.term.args[0])
                    sz = tm.of_operand(blk.term.args[1])
                    if a == ("const", 0x400) and pat.has_const(sz, 0x300) and pat.has_op(sz, ("Shl",)) and \
                            pat.has_field(sz, "lc") and pat.has_field(sz, "lp"):
                        r.ok("term", {"literal table": "0x400 x (1 << (lc+lp), 0x300)"})
                    else:
                        r.bad("init|literal", "the literal table is not 0x400 x (1 << (lc+lp)) rows x 0x300", pat.where(b, blk.idx))
    # length decoding: +8 / +16, len_state via min
    ldb = pat.body_of(facts, "LenDecoder::decode")
    if ldb is not None:
        tm = Terms(ldb)
        from rules import rcterms as _rc
        badl = _rc.len_decoder_table(ldb)
        if badl is None:
            r.ok("table", {"length classes": "low / 8 + mid / 16 + high"})
        else:
            r.bad("len|bases", badl, pat.where(ldb), "unverifiable" if badl.startswith("cannot") else "violated")
    return r


def rule_window_size(facts, rid="C01.R4b"):
    """The window is built with the dictionary size decided by the header parser (or given by the caller of the raw
    decoder), as is: any arithmetic on the way changes the wrap position and the bound of the distance guards."""
    r = report.RuleResult(rid, "every circular window is constructed with params.dict_size unmodified")
    n = 0
    for b in facts.bodies:
        if b.promoted is not None:
            continue
        tm = None
        for blk in b.calls():
            if not (flow.callee(blk.term) or "").endswith("LzCircularBuffer::from_stream"):
                continue
            n += 1
            tm = tm or Terms(b)
            a = tm.of_operand(blk.term.args[1])
            base = pat.strip(a)
            if pat.spine_ops(a) or not (isinstance(base, tuple) and base[0] == "field" and base[1] == "dict_size"):
                r.bad("%s|window-size" % short(b.name), "the window is constructed with %s instead of the dictionary size as decided by the "
                      "header parser / given by the caller" % flow.show(a)[:80], pat.where(b, blk.idx))
            else:
                r.ok("provenance", {"fn": short(b.name), "dict_size": flow.show(a)[:60]})
    r.sites = n
    # one in LzmaDecoder::decompress, one more in the streaming decoder (feature "stream")
    r.need("constructions of the circular window (found %d)" % n, n >= (2 if "stream" in facts.features else 1))
    return r


def rule_state_writers(facts, rid="C01.R7"):
    """The decoder state (automaton state, repeat distances, every probability table) is touched only by the symbol
    decoder family (the functions carrying the `update` flag), the constructor and reset_state; the size in effect only
    by set_unpacked_size; the carry-over buffer only by the streaming loop."""
    from rules import C05
    r = report.RuleResult(rid, "the decoder state is modified only by the symbol decoder, the constructor and reset_state")
    adt = facts.adt("decode::lzma::DecoderState")
    root, fam = C05.update_family(facts)
    r.need("DecoderState and the update-flag family", adt is not None and root is not None)
    if adt is None or root is None:
        return r
    famnames = {short(b.name) for b in fam.values()}
    init = ("DecoderState::new", "DecoderState::reset_state")
    special = {"unpacked_size": ("DecoderState::new", "DecoderState::set_unpacked_size", "LzmaDecoder::reset", "Lzma2Decoder::parse_lzma"),
               "partial_input_buf": ("DecoderState::new", "DecoderState::process_mode", "DecoderState::read_partial_input_buf")}
    fields = [f["name"] for f in adt["variants"][0]["fields"]]
    writers = {}
    for b in facts.bodies:
        if b.promoted is not None:
            continue
        fn = short(b.name)
        for blk in b.blocks:
            if blk.cleanup:
                continue
            for s in blk.stmts:
                if s.k != "assign":
                    continue
                for pr in s.place.proj:
                    if pr[0] == "field" and pr[4] and pr[4].endswith("lzma::DecoderState"):
                        writers.setdefault(pr[2], set()).add((fn, blk.idx, b))
                if s.rv.k == "ref" and s.rv.mut:
                    for pr in s.rv.place.proj:
                        if pr[0] == "field" and pr[4] and pr[4].endswith("lzma::DecoderState"):
                            writers.setdefault(pr[2], set()).add((fn, blk.idx, b))
    r.sites = len(fields)
    # private helpers: a function all of whose call sites are in permitted writers of the field is part of them
    callers = {}
    for b in facts.bodies:
        if b.promoted is not None:
            continue
        for blk in b.calls():
            cal = blk.term.callee
            if cal is not None and cal.target().local:
                cb = facts.by_def.get(cal.target().defk)
                if cb is not None:
                    callers.setdefault(short(cb.name), set()).add(short(b.name))

    def permitted(fn, allowed, depth=0):
        if any(fn.endswith(x) for x in (allowed or init)) or (allowed is None and fn in famnames):
            return True
        cs = callers.get(fn)
        return bool(cs) and depth < 3 and all(permitted(x, allowed, depth + 1) for x in cs if x != fn)

    for f in fields:
        allowed = special.get(f)
        bad = []
        for (fn, bb, b) in sorted(writers.get(f, ()), key=lambda x: (x[0], x[1])):
            okk = permitted(fn, allowed)
            if not okk:
                bad.append((fn, bb, b))
        if bad:
            fn, bb, b = bad[0]
            r.bad("state-writers|%s|%s" % (f, fn.split("::")[-1]), "`%s` of the decoder state is written (or lent mutably) in %s, outside the symbol "
                  "decoder and the (re)initialisers" % (f, fn), pat.where(b, bb))
        else:
            r.ok("who-writes", {"field": f, "writers": sorted({x[0].split("::")[-1] for x in writers.get(f, ())})})
    return r


def _c09_guards(facts):
    """Exactness includes acceptance: the window's distance guards must reject exactly dist > bound (C09.R1 evaluation) -
    a guard that also refuses dist == dict_size rejects well-formed streams."""
    from rules import C09
    r = C09.rule_guards(facts)
    r.rule = "C01.R8"
    r.title = "the window's distance guards reject exactly dist > dict_size / dist > bytes produced"
    for f in r.findings:
        f.rule = "C01.R8"
    return r


def rule_context_index(facts):
    """The decision bits `is_match` and `is_rep_0long` are coded under the context (state, pos_state), pos_state = produced length mod
    2^pb.  Whatever the spelling of the flattened index (`(state << 4) + pos_state`, a helper, named constants), two different contexts
    must never share a probability and the index must stay inside the 192-entry table - for every pb the format allows (0..=4), not only
    for the pb = 2 every shipped file uses.  Evaluated: the index term under all 12 states x all pos_state values x pb 0..=4 (and under
    lengths beyond 2^pb, which must fold onto their residue); the one-dimensional tables must be indexed by the state itself."""
    r = report.RuleResult("C01.R10", "is_match / is_rep_0long are indexed injectively by (state, len mod 2^pb) within 192 entries for pb 0..=4")
    b = pat.body_of(facts, "DecoderState::process_next_inner")
    r.need("the symbol decoder", b is not None)
    if b is None:
        return r
    tm = Terms(b)
    found = {}
    for blk in b.calls():
        if not (flow.callee(blk.term) or "").endswith("decode_bit") or len(blk.term.args) < 2:
            continue
        t = tm.of_operand(blk.term.args[1])
        for q in _sub(t):
            if q[0] == "index" and isinstance(q[1], tuple) and q[1] and q[1][0] == "field" and q[1][1] in (
                    "is_match", "is_rep_0long", "is_rep", "is_rep_g0", "is_rep_g1", "is_rep_g2"):
                found.setdefault(q[1][1], []).append((blk.idx, q[2]))
    r.sites = sum(len(v) for v in found.values())
    for tb in ("is_match", "is_rep_0long"):
        if tb not in found:
            r.bad("context-index|%s-missing" % tb, "cannot find the decode_bit call on `%s[..]`" % tb, pat.where(b), "unverifiable")
            continue
        for bb, it in found[tb]:
            bad = None
            try:
                for pb in range(5):
                    seen = {}
                    for st_ in range(12):
                        for ln in range(3 << pb):
                            def leaf(q, st_=st_, ln=ln, pb=pb):
                                if q[0] == "field" and q[1] == "state":
                                    return st_
                                if q[0] == "field" and q[1] == "pb":
                                    return pb
                                if q[0] == "call" and q[1].endswith("::len"):
                                    return ln
                                raise pat.NotEvaluable(q)
                            v = pat.eval_term(it, leaf)
                            key = (st_, ln % (1 << pb))
                            if not (0 <= v < 192):
                                bad = "pb = %d: context (state %d, pos_state %d) is index %d, outside the 192-entry table" % (pb, st_, key[1], v)
                            elif v in seen and seen[v] != key:
                                bad = "pb = %d: contexts (state %d, pos_state %d) and (state %d, pos_state %d) share entry %d" % (
                                    pb, seen[v][0], seen[v][1], st_, key[1], v)
                            seen[v] = key
                            if bad:
                                break
                        if bad:
                            break
                    if bad:
                        break
            except (pat.NotEvaluable, pat.Overflow) as e:
                r.bad("context-index|%s-term" % tb, "cannot evaluate the index of `%s` as a function of (state, produced length, pb): %s" % (
                    tb, flow.show(it)[:90]), pat.where(b, bb), "unverifiable")
                continue
            if bad:
                r.bad("context-index|%s" % tb, "`%s`: %s" % (tb, bad), pat.where(b, bb))
            else:
                r.ok("evaluation", {tb: "injective in (state, len mod 2^pb), < 192, for 12 states x pb 0..=4"})
    for tb in ("is_rep", "is_rep_g0", "is_rep_g1", "is_rep_g2"):
        for bb, it in found.get(tb, []):
            try:
                vec = [pat.eval_term(it, lambda q, st_=st_: st_ if (q[0] == "field" and q[1] == "state") else (_ for _ in ()).throw(pat.NotEvaluable(q)))
                       for st_ in range(12)]
            except (pat.NotEvaluable, pat.Overflow):
                r.bad("context-index|%s-term" % tb, "cannot evaluate the index of `%s` as a function of the state" % tb, pat.where(b, bb), "unverifiable")
                continue
            if vec != list(range(12)):
                r.bad("context-index|%s" % tb, "`%s` is not indexed by the state (%s)" % (tb, vec), pat.where(b, bb))
            else:
                r.ok("evaluation", {tb: "indexed by the state"})
    r.need("decision-bit tables indexed in the symbol decoder (found %d)" % r.sites, r.sites >= 6)
    return r


def run(ctx, t0):
    facts = ctx.facts()
    pat.FACTS = facts
    from rules import rcterms
    rules = [rule_header(facts), rule_automaton(facts), rule_contexts(facts), rule_window(facts), rule_shapes(facts),
             rcterms.rule_rangedecoder(facts), rule_state_writers(facts), _c09_guards(facts), rule_window_size(facts),
             rule_context_index(facts)]
    expl = ("Static, structural clauses only: the finite tables (state automaton constants and thresholds, repeat "
            "rotation, table shapes and initialisers), the index/offset/length terms and the who-writes facts of the "
            "circular window are extracted from MIR and compared with the format's. This is a necessary condition of "
            "exact decoding, not the behaviour: range-coder numerics and byte values are declined.")
    return report.finish(PROP, ctx.tier, rules, expl,
                         ["the format tables written in rules/C01.py transcribe the LZMA specification"], TRUSTED, t0, None, ctx.seed)
