"""C02 - LZMA2 decoding is exact  [claimed for the framing clauses only].

R1  control table: for status >= 0x80 the reset class is (status >> 5) & 3 and
    the three flags (dictionary, state, properties) are the format's
    (F,F,F) (F,T,F) (F,T,T) (T,T,T); status 1 / 2 are uncompressed chunks with /
    without dictionary reset; the default arm is dead (two-bit selector).
R2  size terms: unpacked = ((status & 0x1F) << 16 | be16) + 1, packed = be16 + 1,
    uncompressed chunk = be16 + 1.
R3  carry-over structure: the window is reset iff reset_dict, the decoder state
    iff reset_state (with the new properties iff reset_props, else the stored
    ones); nothing else in the chunk parser writes the decoder state.
R4  output target: the bytes-produced term of the target is read after the
    dictionary reset (shared C17.R3), and a state reset re-initialises every
    table (shared C14.R1).
R5  shared history: uncompressed bytes are appended to the same buffer the LZ
    copies read, and advance the produced length by the slice length.
Declined: the payload of compressed chunks (= C01's declined part).
"""
from engine import flow, report
from engine.flow import Terms, cfg, short
from rules import pat
from rules.common import TRUSTED

PROP = "C02"
TABLE = {0: (0, 0, 0), 1: (0, 1, 0), 2: (0, 1, 1), 3: (1, 1, 1)}


COLS = {(0, 0, 0, 1): "reset_dict", (0, 1, 1, 1): "reset_state", (0, 0, 1, 1): "reset_props"}


def flag_roles(p, arms):
    """local -> role of the three reset flags: by debug name, else by the column of constants assigned in the arms."""
    cols = {}
    for v, tgt in arms.items():
        for s in p.blocks[tgt].stmts:
            if s.k == "assign" and not s.place.proj and p.locals[s.place.local].ty.k == "bool" and s.rv.k == "use" and \
                    s.rv.op.const_int() is not None:
                cols.setdefault(s.place.local, {})[v] = s.rv.op.const_int()
    named = {l: p.locals[l].name for l in cols if p.locals[l].name in COLS.values()}
    if len(named) == 3:
        return named, cols, True
    by = {}
    for l, c in cols.items():
        role = COLS.get(tuple(c.get(v) for v in (0, 1, 2, 3)))
        if role:
            by[l] = role
    return by, cols, False


def find_switch(p, tm):
    sw = None
    for blk in p.blocks:
        if blk.cleanup or blk.term.k != "switch" or len(blk.term.targets) < 3:
            continue
        t = pat.strip(tm.of_operand(blk.term.discr))
        if t and t[0] == "BitAnd" and pat.has_const(t, 3) and pat.has_op(t, ("Shr",)) and pat.has_const(t, 5) and pat.has_arg(t, "status"):
            sw = blk
    return sw


def flag_guards(p):
    """The three reset decisions of the chunk parser, found by what they guard:
    role -> (guard block, bool local tested, true edge, false edge, [action blocks])."""
    from engine.flow import PosTerms
    pt = PosTerms(p)
    c = cfg(p)
    tm = Terms(p)
    actions = {
        "reset_dict": [blk.idx for blk in p.calls() if (flow.callee(blk.term) or "").endswith("LzAccumBuffer::reset")],
        "reset_state": [blk.idx for blk in p.calls() if (flow.callee(blk.term) or "").endswith("DecoderState::reset_state")],
    }
    # the properties byte: the only single-byte read of the chunk parser (the control byte is a parameter, sizes are u16)
    props_reads = [blk.idx for blk in p.calls() if (flow.declared(blk.term) or "").endswith("read_u8")]
    actions["reset_props"] = props_reads
    out = {}
    for blk in p.blocks:
        if blk.cleanup or blk.term.k != "switch" or len(blk.term.targets) != 1 or blk.term.targets[0][0] != 0:
            continue
        d = blk.term.discr
        if d.place is None or d.place.proj or p.locals[d.place.local].ty.k != "bool":
            continue
        te, fe = blk.term.otherwise, blk.term.targets[0][1]
        for role, acts in actions.items():
            if not acts:
                continue
            if all(c.dominates(te, x) or te == x for x in acts) and len(c.pred[te]) == 1:
                # keep the innermost such guard
                if role not in out or c.dominates(out[role][2], te):
                    out[role] = (blk.idx, d.place.local, te, fe, acts)
    return out, pt, c


def _sub(t, out=None):
    out = [] if out is None else out
    if isinstance(t, tuple):
        if t and isinstance(t[0], str):
            out.append(t)
        for x in t:
            if isinstance(x, tuple):
                _sub(x, out)
    return out


EXPECT = {"reset_dict": lambda st: st >= 0xE0, "reset_state": lambda st: st >= 0xA0, "reset_props": lambda st: st >= 0xC0}


def rule_table(facts):
    r = report.RuleResult("C02.R1", "the control byte selects the format's reset class")
    p = pat.body_of(facts, "Lzma2Decoder::parse_lzma")
    r.need("parse_lzma", p is not None)
    if p is None:
        return r
    fg, pt, c = flag_guards(p)
    r.sites = 4
    r.need("the three reset decisions (dictionary reset, state reset, new properties) of parse_lzma (found %s)" % sorted(fg), len(fg) == 3)
    for role, (gb, loc, te, fe, acts) in sorted(fg.items()):
        bad = None
        try:
            term_at = lambda b_: pt.at(b_.idx, None).of_operand(b_.term.discr)
            conds = pat.branch_conditions(p, c, gb, term_at)
            for st in range(0x80, 0x100):
                leaf = lambda q, st=st: st if (q[0] == "arg" and q[2] == "status") else (_ for _ in ()).throw(pat.NotEvaluable(q))
                # is the decision reached for this control byte?  (tests that do not depend on the control byte - `?` on reads -
                # hold on the error-free path)
                reached = True
                for (cb, t, cond) in conds:
                    try:
                        if not pat._cond_holds(t, cond, leaf):
                            reached = False
                            break
                    except pat.NotEvaluable:
                        continue
                fires = bool(pat.eval_gated(p, pt, loc, gb, leaf)) if reached else False
                if fires != EXPECT[role](st):
                    bad = "control byte 0x%02x: %s %s, the format says it %s" % (
                        st, {"reset_dict": "the dictionary reset", "reset_state": "the state reset", "reset_props": "the read of new properties"}[role],
                        "happens" if fires else "does not happen", "does" if EXPECT[role](st) else "does not")
                    break
        except pat.NotEvaluable as ex:
            r.bad("table|%s-term" % role, "cannot evaluate %s as a function of the control byte (%s)" % (role, flow.show(ex.args[0])[:60] if isinstance(ex.args[0], tuple) else ex.args[0]),
                  pat.where(p, gb), "unverifiable")
            continue
        except pat.Overflow as ex:
            bad = "the computation of %s overflows" % role
        if bad:
            r.bad("table|%s" % role, bad, pat.where(p, gb))
        else:
            r.ok("evaluation", {role: "for all 128 control bytes 0x80..0xFF: %s" % {"reset_dict": ">= 0xE0", "reset_state": ">= 0xA0", "reset_props": ">= 0xC0"}[role]})
    # uncompressed chunks: control byte 1 -> parse_uncompressed with dictionary reset, 2 -> without (gated evaluation of
    # which call fires and of its reset argument, for the two control bytes)
    d = pat.chunk_loop_body(facts)
    if d is not None:
        from engine.flow import PosTerms
        ptd = PosTerms(d)
        cd = cfg(d)
        term_at = lambda b_: ptd.at(b_.idx, None).of_operand(b_.term.discr)
        calls = [blk for blk in d.calls() if (flow.callee(blk.term) or "").endswith("parse_uncompressed")]
        seen = {}
        try:
            for st in (1, 2):
                leaf = lambda q, st=st: st if (q[0] in ("ok", "try") and pat.has_call(q, "read_u8")) else (_ for _ in ()).throw(pat.NotEvaluable(q))
                fired = []
                for blk in calls:
                    okk = True
                    for (gb, t, cond) in pat.branch_conditions(d, cd, blk.idx, term_at):
                        try:
                            if not pat._cond_holds(t, cond, leaf):
                                okk = False
                                break
                        except pat.NotEvaluable:
                            continue
                    if okk:
                        a2 = blk.term.args[2]
                        if a2.const_int() is not None:
                            fired.append(a2.const_int())
                        elif a2.place is not None and not a2.place.proj:
                            fired.append(int(bool(pat.eval_gated(d, ptd, a2.place.local, blk.idx, leaf))))
                        else:
                            fired.append(int(bool(pat.eval_term(ptd.at(blk.idx, None).of_operand(a2), leaf))))
                seen[st] = fired
        except (pat.NotEvaluable, pat.Overflow) as ex:
            seen = None
        if seen == {1: [1], 2: [0]}:
            r.ok("evaluation", {"status 1": "uncompressed, dictionary reset", "status 2": "uncompressed, no reset"})
        else:
            r.bad("table|uncompressed", "control bytes 1 / 2 do not lead to parse_uncompressed(reset = true / false): %s" % (seen,), pat.where(d))
    return r


def explicit_rejections(b):
    """Blocks of body b that build an error value themselves (not propagated with `?`): [(block, variant name)]."""
    out = []
    for blk in b.blocks:
        if blk.cleanup:
            continue
        for s in blk.stmts:
            if s.k == "assign" and s.rv.k == "aggregate" and s.rv.agg == "adt" and s.rv.adt_name.endswith("error::Error"):
                out.append((blk.idx, s.rv.variant_name or ""))
    return out


def rule_rejections(facts):
    """Exactness includes acceptance: the chunk parser may refuse a chunk only for the reasons the format gives
    (control byte below 0x80 where an LZMA chunk is expected, properties byte >= 225, lc + lp > 4) - read errors aside."""
    r = report.RuleResult("C02.R6", "the LZMA2 chunk parser rejects only what the format rejects")
    bodies = [pat.chunk_loop_body(facts), pat.body_of(facts, "Lzma2Decoder::parse_lzma"), pat.body_of(facts, "Lzma2Decoder::parse_uncompressed")]
    r.need("chunk loop, parse_lzma, parse_uncompressed", None not in bodies)
    n = 0
    # classification helpers called by the parser (e.g. a shared properties-byte parser) belong to it
    extra = []
    for b in bodies:
        if b is None:
            continue
        for blk in b.calls():
            cal = blk.term.callee
            if cal is None or not cal.target().local:
                continue
            hb = facts.by_def.get(cal.target().defk)
            if hb is None or hb in bodies or hb in extra or hb.locals[0].ty.name != "std::result::Result":
                continue
            if any(a.ty.k == "ref" and a.ty.mut for a in blk.term.args):
                continue
            if explicit_rejections(hb):
                extra.append(hb)
    for b in bodies + extra:
        if b is None:
            continue
        from engine.flow import PosTerms
        pt = PosTerms(b)
        c = cfg(b)
        term_at = lambda b_: pt.at(b_.idx, None).of_operand(b_.term.discr)
        for bb, var in explicit_rejections(b):
            n += 1
            conds = [(gb, t, cond) for (gb, t, cond) in pat.branch_conditions(b, c, bb, term_at)
                     if not (t[0] == "discr" and isinstance(t[1], tuple) and t[1] and t[1][0] == "try")]
            why = None
            for (gb, t, cond) in conds:
                truth = cond == ("notin", (0,)) or (cond[0] == "is" and cond[1] == 1)
                # (a) control byte without bit 7
                if pat.has_arg(t, "status") and not pat.has_call(t, "read_"):
                    try:
                        tv = [pat.eval_cmp(t, lambda q, v=v: v if (q[0] == "arg" and q[2] == "status") else (_ for _ in ()).throw(pat.NotEvaluable(q))) == truth
                              for v in range(256)]
                        if tv == [v < 0x80 for v in range(256)]:
                            why = "control byte < 0x80"
                    except (pat.NotEvaluable, pat.Overflow):
                        pass
                # (b) properties byte >= 225, (c) lc + lp > 4
                s_ = pat.cmp_sides(t)
                if s_ and s_[2] == ("const", 225) and s_[0] == ("Ge" if truth else "Lt"):
                    why = "properties byte >= 225"
                if s_ and s_[2] == ("const", 4) and s_[0] == ("Gt" if truth else "Le") and pat.has_op(s_[1], ("Add",)) and pat.has_op(s_[1], ("Rem",)):
                    why = "lc + lp > 4"
            if why is None and conds:
                # the conjunction of the conditions that depend on the control byte alone, under each of its 256 values:
                # a refusal reached only by values below 0x80 is the format's refusal wherever it is spelled (an arm
                # `3..=0x7F => Err` of the dispatch, two comparisons, a test hoisted out of parse_lzma).  That 0, 1 and 2
                # are not refused is C17.R1's dispatch walk.
                def _leaf(q, v, in_loop=(b is bodies[0])):
                    if q[0] == "arg" and q[2] == "status":
                        return v
                    if in_loop and pat.has_call(q, "read_u8") and q[0] in ("ok", "okp", "try", "call", "cast"):
                        return v
                    raise pat.NotEvaluable(q)
                sat, used = [], 0
                for v in range(256):
                    holds, used = True, 0
                    for (gb, t, cond) in conds:
                        try:
                            h = pat._cond_holds(t, cond, lambda q, v=v: _leaf(q, v))
                        except (pat.NotEvaluable, pat.Overflow, KeyError, TypeError, ValueError):
                            continue
                        used += 1
                        holds = holds and h
                    if used and holds:
                        sat.append(v)
                if sat and all(v < 0x80 for v in sat):
                    why = "control byte < 0x80 (values %d..%d)" % (sat[0], sat[-1])
            if why:
                r.ok("guard", {"fn": short(b.name), "rejects": why})
            else:
                r.bad("%s|extra-rejection" % short(b.name).split("::")[-1], "a chunk is refused for a reason the format does not give (%s): cannot verify "
                      "that no well-formed stream is refused" % ("; ".join(flow.show(t)[:50] for (_, t, _) in conds[-2:]) or "unconditional"),
                      pat.where(b, bb), "unverifiable")
    r.sites = n
    r.need("explicit rejections of the chunk parser (found %d)" % n, n >= 1)
    return r


def rule_sizes(facts):
    r = report.RuleResult("C02.R2", "chunk size fields are decoded as the format defines them")
    p = pat.body_of(facts, "Lzma2Decoder::parse_lzma")
    u = pat.body_of(facts, "Lzma2Decoder::parse_uncompressed")
    if p is None or u is None:
        r.need("chunk parsers", False)
        return r
    tm = Terms(p)
    from rules import C17
    rs = C17.rule_sizes(facts)
    for f in rs.findings:
        r.findings.append(f)
    r.obligations += rs.obligations
    r.discharged += rs.discharged
    r.sites += rs.sites
    ru = C17.rule_uncompressed(facts)
    for f in ru.findings:
        r.findings.append(f)
    r.obligations += ru.obligations
    r.discharged += ru.discharged
    # big-endian reads
    for b in (p, u):
        for blk in b.calls():
            if (flow.declared(blk.term) or "").endswith("read_u16"):
                r.sites += 1
                targs = " ".join(getattr(a, "s", "") for a in blk.term.callee.args)
                if "BigEndian" in targs:
                    r.ok("endianness", None)
                else:
                    r.bad("%s|endian" % short(b.name), "a chunk size field is not read big-endian", pat.where(b, blk.idx))
    return r


def rule_carry(facts):
    r = report.RuleResult("C02.R3", "window / state / properties are reset iff the control byte says so")
    p = pat.body_of(facts, "Lzma2Decoder::parse_lzma")
    if p is None:
        r.need("parse_lzma", False)
        return r
    gs, tm = pat.guards(p)
    fg, pt, c = flag_guards(p)
    want = {"reset_dict": "LzAccumBuffer::reset", "reset_state": "DecoderState::reset_state"}
    for flag, cal in want.items():
        r.sites += 1
        if flag not in fg:
            r.bad("carry|%s" % flag, "cannot find the decision guarding %s" % cal, pat.where(p), "unverifiable")
            continue
        bb, loc, yes, no, calls = fg[flag]
        if all(c.dominates(yes, x) or yes == x for x in calls) and not any(x in c.reachable_from(no, avoid=[yes]) and
                                                                           not c.dominates(yes, x) for x in calls):
            r.ok("control-dependence", {flag: "%s executed iff set" % cal.split("::")[-1]})
        else:
            r.bad("carry|%s-cond" % flag, "%s is not executed exactly when %s is set" % (cal, flag), pat.where(p, bb))

    def flag_guard(name):
        return (fg[name][0], fg[name][2], fg[name][3]) if name in fg else None
    # properties: read iff reset_props else stored ones
    g = flag_guard("reset_props")
    rs = [blk for blk in p.calls() if (flow.callee(blk.term) or "").endswith("DecoderState::reset_state")]
    if g and rs:
        a = tm.of_operand(rs[0].term.args[1])
        r.sites += 1
        if pat.has_call(a, "read_u8") and pat.has_field(a, "lzma_props"):
            r.ok("provenance", {"properties passed to reset_state": "new byte or the stored ones"})
        else:
            r.bad("carry|props", "reset_state does not receive either the new or the stored properties: %s" % flow.show(a)[:120],
                  pat.where(p, rs[0].idx))
    # who writes lzma_state here: only reset_state / set_unpacked_size / process
    for blk in p.calls():
        nm = flow.callee(blk.term) or ""
        if blk.term.args and pat.has_field(tm.of_operand(blk.term.args[0]), "lzma_state") and \
                not nm.endswith(("reset_state", "set_unpacked_size", "DecoderState::process")):
            if blk.term.args[0].ty.k == "ref" and blk.term.args[0].ty.mut:
                r.bad("carry|other-writer", "the decoder state is also modified by %s" % nm, pat.where(p, blk.idx))
    return r


def rule_target_order(facts):
    r = report.RuleResult("C02.R4", "the output target counts the bytes produced since the last dictionary reset")
    p = pat.body_of(facts, "Lzma2Decoder::parse_lzma")
    if p is None:
        r.need("parse_lzma", False)
        return r
    c = cfg(p)
    lens = [blk.idx for blk in p.calls() if blk.term.callee is not None and blk.term.callee.method == "len" and
            "LzBuffer" in ((blk.term.callee.trait or "") + (flow.callee(blk.term) or ""))]
    resets = [blk.idx for blk in p.calls() if (flow.callee(blk.term) or "").endswith("LzAccumBuffer::reset")]
    r.sites = len(lens)
    r.need("produced-length read and dictionary reset in parse_lzma", bool(lens) and bool(resets))
    for l in lens:
        if any(x in c.reachable_from(l) for x in resets):
            r.bad("target|stale-len", "the bytes-produced term of the output target is read before the dictionary reset: "
                  "after a reset the target is too large by the old history", pat.where(p, l))
        else:
            r.ok("order", {"accum.len()": "read after the dictionary reset"})
    return r


def rule_history(facts):
    r = report.RuleResult("C02.R5", "uncompressed chunks extend the same history the LZ copies read")
    b = pat.body_of(facts, "LzAccumBuffer::append_bytes")
    r.need("LzAccumBuffer::append_bytes", b is not None)
    if b is None:
        return r
    tm = Terms(b)
    ext = [blk for blk in b.calls() if (flow.callee(blk.term) or "").endswith("Vec::extend_from_slice") and
           pat.has_field(tm.of_operand(blk.term.args[0]), "buf") and pat.has_arg(tm.of_operand(blk.term.args[1]), "buf")]
    r.sites = 2
    if ext:
        r.ok("effect", {"append_bytes": "extends self.buf with the chunk"})
    else:
        r.bad("append_bytes|buf", "uncompressed bytes are not appended to the window buffer", pat.where(b))
    # the other accessors of the accumulating window, by evaluation with buf.len() = n
    def accum(item):
        return next((x for x in facts.bodies if x.promoted is None and x.trait == "decode::lzbuffer::LzBuffer" and x.item == item and "Accum" in x.name), None)

    def idx_terms(x):
        from engine.flow import PosTerms
        ptx = PosTerms(x)
        out = []
        for blk in x.calls():
            nm = flow.callee(blk.term) or ""
            if nm.endswith(("Index>::index", "IndexMut>::index_mut")) and pat.has_field(ptx.at(blk.idx, None).of_operand(blk.term.args[0]), "buf"):
                out.append((blk.idx, ptx.at(blk.idx, None).of_operand(blk.term.args[1])))
        return out, ptx

    def lf(n, dist=0, acc=None):
        def f(q):
            if q[0] == "call" and q[1].endswith("::len"):
                return n
            if q[0] == "arg" and q[2] == "dist":
                return dist
            if q[0] == "phi" and acc is not None:
                return acc
            if q[0] == "field" and isinstance(q[2], tuple) and q[2] and q[2][0] == "as" and "Some" in str(q[2][1]):
                inner = q[2][2]
                if isinstance(inner, tuple) and inner and inner[0] == "call" and str(inner[1]).endswith("checked_sub") and len(inner[2]) == 2:
                    return pat.eval_term(inner[2][0], f) - pat.eval_term(inner[2][1], f)     # the Some payload of a.checked_sub(b)
            raise pat.NotEvaluable(q)
        return f
    r.sites += 3
    try:
        lo_ = accum("last_or")
        it, _ = idx_terms(lo_) if lo_ is not None else ([], None)
        if it and all(pat.eval_term(it[0][1], lf(n)) == n - 1 for n in (1, 2, 77)):
            r.ok("evaluation", {"last_or": "buf[len - 1]"})
        elif lo_ is not None and not it and any((flow.callee(x.term) or "").endswith(("::last", "Vec::last")) and x.term.args and
                                              pat.has_field(Terms(lo_).of_operand(x.term.args[0]), "buf") for x in lo_.calls()):
            r.ok("evaluation", {"last_or": "buf.last()"})
        else:
            r.bad("accum|last_or", "the previous byte of the accumulating window is not buf[len - 1]", pat.where(lo_) if lo_ is not None else "")
        ln_ = accum("last_n")
        it, _ = idx_terms(ln_) if ln_ is not None else ([], None)
        if it and all(pat.eval_term(it[0][1], lf(n, d)) == n - d for n in (5, 77) for d in (1, 2, 5)):
            r.ok("evaluation", {"last_n": "buf[len - dist]"})
        else:
            r.bad("accum|last_n", "the match byte of the accumulating window is not buf[len - dist]", pat.where(ln_) if ln_ is not None else "")
        al_ = accum("append_lz")
        if al_ is not None:
            from engine.flow import PosTerms
            pta = PosTerms(al_)
            ca = cfg(al_)
            # initial offset, the copy buf.push(buf[offset]), offset += 1, len += len
            inits = [pta.at(blk.idx, i).of_rvalue(s_.rv, blk.idx) for blk in al_.blocks if not blk.cleanup and not ca.loop_blocks_of(blk.idx)
                     for i, s_ in enumerate(blk.stmts) if s_.k == "assign" and not s_.place.proj and (al_.locals[s_.place.local].name or "") == "offset"]
            ok_init = False
            # the cell read in the first round: index term evaluated at the initial offset must be len - dist
            idxs = []
            for pb_ in [blk for blk in al_.calls() if (flow.callee(blk.term) or "").endswith("Vec::push") and ca.loop_blocks_of(blk.idx)]:
                v_ = pta.at(pb_.idx, None).of_operand(pb_.term.args[1])
                for q in _sub(v_):
                    if q[0] == "call" and q[1].endswith(("Index>::index", "Index::index")) and pat.has_field(q, "buf"):
                        idxs.append(q[2][1])
            for t_ in inits:
                for it_ in idxs:
                    try:
                        # the index term mentions the loop-carried offset as a phi: substitute the initial value
                        if all(pat.eval_term(it_, lf(n, d, pat.eval_term(t_, lf(n, d)))) == n - d for n in (5, 77) for d in (1, 5)):
                            ok_init = True
                    except (pat.NotEvaluable, pat.Overflow):
                        pass
            steps = [pta.at(blk.idx, i).of_rvalue(s_.rv, blk.idx) for blk in al_.blocks if not blk.cleanup and ca.loop_blocks_of(blk.idx)
                     for i, s_ in enumerate(blk.stmts) if s_.k == "assign" and not s_.place.proj and (al_.locals[s_.place.local].name or "") == "offset"]
            ok_step = any(all(pat.eval_term(t_, lf(9, 1, acc)) == acc + 1 for acc in (0, 3, 100)) for t_ in steps) if steps else False
            pushes = [blk for blk in al_.calls() if (flow.callee(blk.term) or "").endswith("Vec::push") and ca.loop_blocks_of(blk.idx)]
            ok_push = False
            for pb_ in pushes:
                v = pta.at(pb_.idx, None).of_operand(pb_.term.args[1])
                if any(q[0] == "call" and q[1].endswith(("Index>::index", "Index::index")) and pat.has_field(q, "buf") for q in _sub(v)):
                    ok_push = True
            # the same copy spelt with the round counter: buf[(len - dist) + i] for i = 0, 1, ... (len taken before the loop)
            ok_counter = False

            def lfk(n, d, k):
                base = lf(n, d)

                def f(q):
                    if pat.has_call(q, "::next") and q[0] in ("field", "as", "okp", "ok"):
                        return k
                    return base(q)
                return f
            for it_ in idxs:
                try:
                    if all(pat.eval_term(it_, lfk(n, d, k)) == n - d + k for n in (5, 77) for d in (1, 5) for k in (0, 1, 4)):
                        ok_counter = True
                except (pat.NotEvaluable, pat.Overflow):
                    pass
            if ok_counter and ok_push and not steps:
                r.ok("evaluation", {"append_lz": "push(buf[(len - dist) + i]) for i in 0..len"})
            elif ok_init and ok_step and ok_push:
                r.ok("evaluation", {"append_lz": "offset = len - dist; push(buf[offset]); offset += 1"})
            else:
                r.bad("accum|append_lz", "the accumulating window's copy is not `offset = len - dist; repeat { push(buf[offset]); offset += 1 }` "
                      "(initial offset ok: %s, step ok: %s, copies from buf: %s)" % (ok_init, ok_step, ok_push), pat.where(al_))
    except (pat.NotEvaluable, pat.Overflow) as ex:
        r.bad("accum|terms", "cannot evaluate the index terms of the accumulating window", "decode::lzbuffer::LzAccumBuffer", "unverifiable")
    adds = [tm.of_rvalue(s.rv, 0) for blk in b.blocks for s in blk.stmts if s.k == "assign" and s.place.proj and
            s.place.proj[-1][0] == "field" and s.place.proj[-1][2] == "len"]
    if adds and all(t[0] == "Add" and pat.has_field(t, "len") and pat.has_call(t, "::len") and pat.has_arg(t, "buf") for t in adds):
        r.ok("effect", {"len": "advanced by the slice length"})
    else:
        r.bad("append_bytes|len", "the produced length is not advanced by the chunk length", pat.where(b))
    return r


def run(ctx, t0):
    facts = ctx.facts()
    pat.FACTS = facts
    from rules import C14
    r14 = C14.rule_fields(facts)
    r14.rule = "C02.R4b"
    for f in r14.findings:
        f.rule = "C02.R4b"
    rules = [rule_table(facts), rule_rejections(facts), rule_sizes(facts), rule_carry(facts), rule_target_order(facts), r14, rule_history(facts)]
    # a dictionary reset starts a new history: the window is emptied (shared with C09.R4)
    from rules import C09 as _c09
    r9 = _c09.rule_reset(facts)
    r9.rule = "C02.R7"
    r9.title = "a dictionary reset empties the LZMA2 window (the history of the next chunk starts empty)"
    for f in r9.findings:
        f.rule = "C02.R7"
    rules.append(r9)
    expl = ("Static, framing clauses only: the reset-class table is read off the switch on (status >> 5) & 3, size terms "
            "and endianness from the provenance of the fields, reset calls from control dependence on the flags, the "
            "order of the produced-length read relative to the dictionary reset, and the completeness of a state reset "
            "(C14.R1). The payload of compressed chunks is declined (numerics).")
    return report.finish(PROP, ctx.tier, rules, expl, ["the table in rules/C02.py transcribes the LZMA2 format"], TRUSTED, t0, None, ctx.seed)
