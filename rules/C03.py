"""C03 - XZ container decoding is exact  [claimed for the container-arithmetic clauses only].

R1  padding: at the block and at the index padding site the number of padding
    bytes, as a function of the running byte count, is (-count) mod 4; decided
    by evaluating the extracted term over count in 0..64 and near 2^32.
R2  multi-byte integers: 7 payload bits per byte (mask 0x7F, shift 7*i), the
    continuation bit is 0x80, at most nine bytes, the value is returned at the
    first byte without continuation bit.
R3  block header size: the number of header bytes taken after the size byte is
    4*b - 1 for every size byte b in 1..=255 (evaluated under the compiled
    widths: no wrap, no overflow).
R4  per-block accounting: the byte counter whose value enters a block's index
    record is created once per block (inside the block loop), the record is
    (count - padding, decompressed length), and the counted reader is the one
    the block is read through.
R5  check field: None reads nothing, CRC32 reads 4 bytes, CRC64 8 bytes, little
    endian, compared with the checksum of the block's decompressed bytes.
R6  optional size fields are read iff flags bit 0x40 / 0x80; filter count is
    (flags & 3) + 1.
R7  block loop: indicator byte 0 goes to the index and leaves the loop; any
    other value reads a block and returns to the loop head (any number of
    blocks, including zero); every Ok path of read_block writes the block's
    bytes to the sink exactly once.
Declined: that the LZMA2 payload decodes to the right bytes (C02/C01 numerics),
CRC arithmetic (crc crate).
"""
import os
from engine import flow, report
from engine.flow import Terms, cfg, short
from rules import pat
from rules.common import TRUSTED

PROP = "C03"


def _count_leaf(val):
    def leaf(t):
        if t[0] == "call" and t[1].endswith("CountBufRead::count"):
            return val
        raise pat.NotEvaluable(t)
    return leaf


def padding_terms(b, tm):
    """Where the padding count goes: loop bounds `0..f(count)`, lengths handed to local helpers, vector sizes -
    terms that mention the byte counter, depend on nothing else, and are < 4 for every count."""
    cands = []
    for blk in b.blocks:
        if blk.cleanup:
            continue
        for s in blk.stmts:
            if s.k == "assign" and s.rv.k == "aggregate" and s.rv.agg == "adt" and s.rv.adt_name.endswith("Range") and len(s.rv.ops) == 2:
                cands.append((blk.idx, tm.of_operand(s.rv.ops[0]), tm.of_operand(s.rv.ops[1])))
        t = blk.term
        if t.k == "call" and t.callee is not None and (t.callee.target().local or (flow.callee(t) or "").endswith("from_elem")):
            for a in t.args:
                if a.ty.k in ("uint", "int"):
                    cands.append((blk.idx, ("const", 0), tm.of_operand(a)))
    out = []
    seen = set()
    for bb, lo, e in cands:
        if not pat.has_call(e, "CountBufRead::count") or e in seen:
            continue
        try:
            vals = [pat.eval_term(e, _count_leaf(c_)) for c_ in range(0, 8)]
        except (pat.NotEvaluable, pat.Overflow):
            vals = None
        if vals is None:
            # a loop bound over the counter that cannot be evaluated is still a padding site (reported by the rule)
            if lo == ("const", 0) and any(x[0] == bb for x in cands if x[1] == lo) and not pat.spine_ops(e) - {"BitAnd", "BitXor", "Add", "Sub", "Rem"}:
                out.append((bb, lo, e))
            continue
        if max(vals) < 4 and vals[0] == 0:
            seen.add(e)
            out.append((bb, lo, e))
    return out


def rule_padding(facts):
    r = report.RuleResult("C03.R1", "block and index padding is (-count) mod 4")
    n = 0
    for nm in ("xz::read_block", "xz::check_index"):
        b = pat.body_of(facts, nm)
        if b is None:
            r.need(nm, False)
            continue
        tm = Terms(b)
        pts = padding_terms(b, tm)
        if not pts:
            r.bad("%s|padding-loop" % nm, "cannot find the padding loop `0..f(count)`", pat.where(b), "unverifiable")
            continue
        for bb, lo, e in pts:
            n += 1
            bad = None
            try:
                if pat.eval_term(lo, _count_leaf(0)) != 0:
                    bad = "the padding loop does not start at 0"
                for c in list(range(0, 64)) + [(1 << 32) - 2, (1 << 32) - 1, 1 << 32, (1 << 32) + 1, (1 << 40) + 3, (1 << 62) + 2]:
                    v = pat.eval_term(e, _count_leaf(c))
                    if v != (-c) % 4:
                        bad = "for a running count of %d the code expects %d padding bytes, the format %d" % (c, v, (-c) % 4)
                        break
            except pat.Overflow as ex:
                bad = "the padding term overflows for some count: %s" % flow.show(ex.args[0])[:80]
            except pat.NotEvaluable as ex:
                r.bad("%s|padding-term" % nm, "padding term is not a function of the byte count alone: %s" % flow.show(e)[:120],
                      pat.where(b, bb), "unverifiable")
                continue
            if bad:
                r.bad("%s|padding" % nm, bad, pat.where(b, bb))
            else:
                r.ok("evaluation", {"fn": nm, "term": flow.show(e)[:80], "equals": "(-count) mod 4 on 70 sampled counts covering all residues"})
        # the padding bytes read must be zero -> else Err; handled by C06/C18
    r.sites = n
    r.need("two padding sites", n >= 2)
    return r


def rule_multibyte(facts):
    r = report.RuleResult("C03.R2", "multi-byte integers: 7 bits per byte, continuation 0x80, at most 9 bytes")
    b = pat.body_of(facts, "xz::get_multibyte")
    r.need("get_multibyte", b is not None)
    if b is None:
        return r
    tm = Terms(b)
    c = cfg(b)
    r.sites = 4
    # loop bound 0..9
    rng = [tm.of_operand(s.rv.ops[1]) for blk in b.blocks for s in blk.stmts if s.k == "assign" and s.rv.k == "aggregate"
           and s.rv.agg == "adt" and s.rv.adt_name.endswith("Range")]
    # ... or a `while shift < 63 { .. shift += 7 }` loop: the induction variable's trip count
    ind = None      # (init, step, bound) of a counting loop test `phi(init, x + step) < bound`
    gsm, _tmm = pat.guards(b)
    for (bbm, tmt, zm, nzm) in gsm:
        sm = pat.cmp_sides(tmt)
        if not (sm and sm[0] in ("Lt", "Le") and sm[2][0] == "const" and sm[1][0] == "phi" and c.loop_blocks_of(bbm)):
            continue
        alts = sm[1][1] if (len(sm[1]) == 2 and isinstance(sm[1][1], tuple) and sm[1][1] and not isinstance(sm[1][1][0], str)) else ()
        init = [a for a in alts if a[0] == "const"]
        step = [a for a in alts if a[0] == "Add" and len(a) > 2 and a[2][0] == "const" and a[1][0] in ("loopvar", "phi")]
        if len(init) == 1 and len(step) == 1 and step[0][2][1] > 0:
            ind = (init[0][1], step[0][2][1], sm[2][1] + (1 if sm[0] == "Le" else 0))
    trips = None
    if not rng and ind is not None:
        trips = max(0, -(-(ind[2] - ind[0]) // ind[1]))
    if rng == [("const", 9)] or (trips == 9 and ind[0] == 0 and ind[1] == 7):
        r.ok("constant", {"max bytes": 9})
    else:
        r.bad("multibyte|bound", "the byte limit of a multi-byte integer is %s, the format says 9" % [flow.show(x) for x in rng], pat.where(b))
    # accumulate term
    acc = None
    for blk in b.blocks:
        if blk.cleanup:
            continue
        for s in blk.stmts:
            if s.k == "assign" and s.rv.k == "binop" and s.rv.binop in ("BitXor", "BitOr", "Add", "AddWithOverflow") and not s.place.proj:
                t = tm.of_rvalue(s.rv, blk.idx)
                if pat.has_call(t, "read_u8") and pat.has_op(t, ("Shl",)):
                    acc = (blk.idx, t)
    if acc is None:
        r.bad("multibyte|accumulate", "cannot find result (^|+)= (byte & 0x7F) << (7*i)", pat.where(b), "unverifiable")
    else:
        bb, t = acc
        shl = [q for q in _subterms(t) if q[0] == "Shl"]
        okk, why = False, "no shifted byte in %s" % flow.show(t)[:100]
        for q in shl:
            try:
                okk = True
                for v in (0, 1, 0x7F, 0x80, 0x81, 0xFF, 0x55, 0xAA):
                    for i in range(9):
                        def leaf(z, v=v, i=i):
                            if z[0] in ("ok", "try"):
                                return v
                            if pat.has_call(z, "::next"):
                                return i
                            if z[0] == "phi" and ind is not None and ind[0] == 0 and not pat.has_call(z, "read_u8"):
                                return ind[1] * i       # the running shift amount of a `shift += 7` loop, in round i
                            raise pat.NotEvaluable(z)
                        got = pat.eval_term(q, leaf)
                        if got != ((v & 0x7F) << (7 * i)) & ((1 << 64) - 1):
                            okk, why = False, "byte 0x%02x at position %d contributes 0x%x, the format says 0x%x" % (v, i, got, (v & 0x7F) << (7 * i))
                            break
                    if not okk:
                        break
            except pat.Overflow as ex:
                okk, why = False, "the contribution of a byte overflows: %s" % flow.show(ex.args[0])[:80]
            except pat.NotEvaluable as ex:
                okk, why = False, "cannot evaluate %s" % flow.show(q)[:80]
            if okk:
                break
        if okk and t[0] in ("BitXor", "BitOr", "Add"):
            r.ok("evaluation", {"accumulate": flow.show(t)[:100], "equals": "(byte & 0x7F) << 7*i on 8 bytes x 9 positions"})
        else:
            r.bad("multibyte|payload", why, pat.where(b, bb))
    # continuation test: a two-way test on the byte alone, evaluated for all 256 byte values
    gs, _ = pat.guards(b)
    cont = None
    for (bb, t, z, nz) in gs:
        s = pat.cmp_sides(t)
        if not s or not pat.has_call(t, "read_u8") or pat.has_op(t, ("Mul",)):
            continue
        try:
            tv = []
            for v in range(256):
                leaf = lambda q, v=v: v if q[0] in ("ok", "try") else (_ for _ in ()).throw(pat.NotEvaluable(q))
                x, y = pat.eval_term(s[1], leaf), pat.eval_term(s[2], leaf)
                tv.append({"Eq": x == y, "Ne": x != y, "Lt": x < y, "Le": x <= y, "Gt": x > y, "Ge": x >= y}[s[0]])
        except (pat.NotEvaluable, pat.Overflow):
            continue
        cont = (bb, tv, z, nz, t)
    if cont is None:
        r.bad("multibyte|continuation", "cannot find the continuation-bit test", pat.where(b), "unverifiable")
    else:
        bb, tv, z, nz, t = cont
        last = [v & 0x80 == 0 for v in range(256)]
        if tv == last:
            last_edge = nz
        elif tv == [not x for x in last]:
            last_edge = z
        else:
            last_edge = None
            v = [v for v in range(256) if tv[v] != tv[v & 0x80]][0] if any(tv[v] != tv[v & 0x80] for v in range(256)) else 0
            r.bad("multibyte|bit", "the continuation test %s does not depend on bit 0x80 alone (e.g. byte 0x%02x)" % (flow.show(t)[:60], v),
                  pat.where(b, bb))
        if last_edge is not None:
            cont_edge = z if last_edge == nz else nz
            heads = c.loop_headers()
            if flow.reaches_ok(b, last_edge) and not any(h in c.reachable_from(last_edge) for h in heads) and \
                    any(h in c.reachable_from(cont_edge) for h in heads):
                r.ok("evaluation", {"last byte": "bit 0x80 clear (all 256 byte values) -> returns the value; set -> next byte"})
            else:
                r.bad("multibyte|last", "a byte without continuation bit does not end the integer with Ok (or one with the bit does not continue)",
                      pat.where(b, bb))
    # after 9 bytes with continuation -> Err
    heads = list(c.loop_headers())
    if heads:
        ex = [blk.idx for blk in b.blocks if blk.term.k == "return" and not blk.cleanup]
        r.ok("structure", {"loop": "single loop over the bytes"})
    return r


def _subterms(t, out=None):
    out = [] if out is None else out
    if isinstance(t, tuple):
        if t and isinstance(t[0], str):
            out.append(t)
        for x in t:
            if isinstance(x, tuple):
                _subterms(x, out)
    return out


def rule_header_size(facts):
    r = report.RuleResult("C03.R3", "the block header spans 4*b - 1 bytes after its size byte b, for every b in 1..=255")
    b = pat.body_of(facts, "xz::read_block")
    r.need("read_block", b is not None)
    if b is None:
        return r
    tm = Terms(b)
    hdr = [tm.of_operand(blk.term.args[0]) for blk in b.calls() if (flow.callee(blk.term) or "").endswith("read_block_header")]
    takes = [blk for blk in b.calls() if (flow.declared(blk.term) or flow.callee(blk.term) or "").endswith("Read::take") and
             any(q[0] == "call" and len(q) > 3 and q[3] == blk.idx for h in hdr for q in _subterms(h))]
    r.sites = len(takes)
    r.need("a Take-limited header reader", len(takes) >= 1)
    for blk in takes:
        t = tm.of_operand(blk.term.args[1])
        args = [q for q in _subterms(t) if q[0] == "arg"]
        if len(set(args)) != 1:
            r.bad("header-size|term", "the header length is not a function of the size byte alone: %s" % flow.show(t)[:100],
                  pat.where(b, blk.idx), "unverifiable")
            continue
        a = args[0]
        bad = None
        for v in range(1, 256):
            try:
                got = pat.eval_term(t, lambda q: v if q == a else (_ for _ in ()).throw(pat.NotEvaluable(q)))
            except pat.Overflow as ex:
                bad = "size byte 0x%02x: the header length computation overflows its type (%s)" % (v, flow.show(ex.args[0])[:60])
                break
            except pat.NotEvaluable:
                bad = None
                r.bad("header-size|term", "cannot evaluate the header length term %s" % flow.show(t)[:100], pat.where(b, blk.idx), "unverifiable")
                break
            if got != 4 * v - 1:
                bad = "size byte 0x%02x: %d header bytes are taken, the format says %d" % (v, got, 4 * v - 1)
                break
        if bad:
            r.bad("header-size|value", bad, pat.where(b, blk.idx))
        else:
            r.ok("evaluation", {"term": flow.show(t)[:80], "equals": "4*b - 1 for all 255 size bytes"})
        # the same limit reaches read_block_header
        for blk2 in b.calls():
            if (flow.callee(blk2.term) or "").endswith("read_block_header") and len(blk2.term.args) > 1:
                t2 = tm.of_operand(blk2.term.args[1])
                if t2 == t:
                    r.ok("term", {"read_block_header(header_size)": "same term"})
                else:
                    r.bad("header-size|passed", "read_block_header is given a different header size (%s) than the reader limit"
                          % flow.show(t2)[:80], pat.where(b, blk2.idx))
    return r


def rule_accounting(facts):
    r = report.RuleResult("C03.R4", "a block's index record is computed from a per-block byte counter")
    d = pat.body_of(facts, "xz::decode_stream")
    b = pat.body_of(facts, "xz::read_block")
    r.need("decode_stream and read_block", d is not None and b is not None)
    if d is None or b is None:
        return r
    c = cfg(d)
    news = [blk.idx for blk in d.calls() if (flow.callee(blk.term) or "").endswith("CountBufRead::new")]
    rbs = [blk for blk in d.calls() if (flow.callee(blk.term) or "").endswith("xz::read_block")]
    r.sites = len(rbs)
    r.need("read_block call and counter construction in decode_stream", bool(news) and bool(rbs))
    tmd = Terms(d)
    for blk in rbs:
        loop = c.loop_blocks_of(blk.idx)
        if not loop:
            r.bad("accounting|no-loop", "read_block is not called in a loop: only one block is decoded", pat.where(d, blk.idx))
            continue
        a0 = tmd.of_operand(blk.term.args[0])
        mine = [n for n in news if any(q[0] == "call" and q[3] == n for q in _subterms(a0) if len(q) > 3)]
        if not mine:
            r.bad("accounting|reader", "read_block does not read through a CountBufRead created in decode_stream", pat.where(d, blk.idx),
                  "unverifiable")
            continue
        if all(n in loop for n in mine):
            r.ok("structure", {"counter": "created inside the block loop, once per block"})
        else:
            # stream-wide counter: fine only if the record subtracts the count at block start
            tb = Terms(b)
            rec = _record_terms(b, tb)
            comp = rec and len([q for q in _subterms(rec[0]) if q[0] == "call" and q[1].endswith("CountBufRead::count")]) >= 3
            if comp:
                r.bad("accounting|shared-counter", "the byte counter is shared by all blocks; cannot verify the compensation in the record",
                      pat.where(d, blk.idx), "unverifiable")
            else:
                r.bad("accounting|shared-counter", "the byte counter is created outside the block loop: from the second block on, the "
                      "unpadded size recorded for the index includes all earlier blocks", pat.where(d, blk.idx))
    # record terms in read_block
    tb = Terms(b)
    rec = _record_terms(b, tb)
    if not rec:
        r.bad("accounting|record", "cannot find the Record pushed by read_block", pat.where(b), "unverifiable")
        return r
    unp, unc = rec
    # unpadded = count_after_check - padding ; evaluate symbolically: count leaf distinguishes call sites
    cnts = sorted({q for q in _subterms(unp) if q[0] == "call" and q[1].endswith("CountBufRead::count")}, key=lambda q: q[3])
    if len(cnts) == 2:
        early, late = cnts
        bad = None
        try:
            for ce in range(0, 9):
                for extra in (0, 4, 8):
                    pad = (-ce) % 4
                    cl = ce + pad + extra
                    v = pat.eval_term(unp, lambda q: ce if q == early else cl if q == late else (_ for _ in ()).throw(pat.NotEvaluable(q)))
                    if v != ce + extra:
                        bad = "with %d bytes before padding and a %d-byte check the record says %d, the format %d" % (ce, extra, v, ce + extra)
                        break
                if bad:
                    break
        except pat.Overflow:
            bad = "the unpadded-size term overflows"
        except pat.NotEvaluable as ex:
            bad = None
            r.bad("accounting|unpadded-term", "cannot evaluate the unpadded-size term %s" % flow.show(unp)[:100], pat.where(b), "unverifiable")
        if bad:
            r.bad("accounting|unpadded", bad, pat.where(b))
        else:
            # late count read after the check field
            cb = cfg(b)
            vb = [blk.idx for blk in b.calls() if (flow.callee(blk.term) or "").endswith("validate_block_check")]
            if vb and all(cb.dominates(v, late[3]) for v in vb) and all(cb.dominates(early[3], v) for v in vb):
                r.ok("evaluation", {"unpadded size": "count after the check field minus the padding"})
            else:
                r.bad("accounting|unpadded-order", "the byte count entering the record is not read after the check field", pat.where(b, late[3]))
    else:
        r.bad("accounting|unpadded-term", "unexpected shape of the unpadded-size term: %s" % flow.show(unp)[:120], pat.where(b), "unverifiable")
    if pat.has_call(unc, "Vec::len") and not pat.spine_ops(unc):
        r.ok("term", {"uncompressed size": "length of the block's output buffer"})
    else:
        r.bad("accounting|uncompressed", "the recorded uncompressed size is not the length of the decoded block: %s" % flow.show(unc)[:100], pat.where(b))
    return r


def _record_terms(b, tb):
    for blk in b.blocks:
        for s in blk.stmts:
            if s.k == "assign" and s.rv.k == "aggregate" and s.rv.agg == "adt" and s.rv.adt_name.endswith("xz::Record"):
                return [tb.of_operand(o) for o in s.rv.ops]
    return None


def rule_check_field(facts):
    r = report.RuleResult("C03.R5", "the check field has the width its type says: None 0, CRC32 4, CRC64 8 bytes")
    b = pat.body_of(facts, "xz::validate_block_check")
    r.need("validate_block_check", b is not None)
    if b is None:
        return r
    adt = facts.adt("xz::CheckMethod")
    r.need("CheckMethod", adt is not None)
    if adt is None:
        return r
    names = {}
    for i, v in enumerate(adt["variants"]):
        names[v.get("discr", i)] = v["name"].split("::")[-1]
    c = cfg(b)
    sw = [blk for blk in b.blocks if not blk.cleanup and blk.term.k == "switch" and len(blk.term.targets) >= 3]
    r.need("switch over the check method", len(sw) >= 1)
    if not sw:
        return r
    sw = sw[0]
    tm = Terms(b)
    arms = {names.get(v, v): t for v, t in sw.term.targets}
    all_arms = set(arms.values()) | {sw.term.otherwise}
    want = {"None": None, "Crc32": ("read_u32", "crc32::checksum"), "Crc64": ("read_u64", "crc64::checksum")}
    r.sites = 3
    for nm, w in want.items():
        tgt = arms.get(nm)
        if tgt is None:
            r.bad("check|%s-arm" % nm, "no arm for check type %s" % nm, pat.where(b, sw.idx), "unverifiable")
            continue
        mine = c.reachable_from(tgt, avoid=all_arms - {tgt})
        reads = [(blk.idx, flow.declared(blk.term) or "") for blk in b.calls() if blk.idx in mine and
                 "ReadBytesExt::read_" in (flow.declared(blk.term) or "")]
        if w is None:
            if reads:
                r.bad("check|None-reads", "check type None consumes input bytes", pat.where(b, reads[0][0]))
            elif not flow.reaches_ok(b, tgt):
                r.bad("check|None-rejects", "check type None is rejected", pat.where(b, tgt))
            else:
                r.ok("path", {"None": "reads nothing, Ok"})
            continue
        if len(reads) != 1 or not reads[0][1].endswith(w[0]):
            r.bad("check|%s-width" % nm, "check type %s reads %s, the format says one %s" % (nm, [x[1].split("::")[-1] for x in reads], w[0]),
                  pat.where(b, tgt))
            continue
        blk = b.blocks[reads[0][0]]
        targs = " ".join(getattr(a, "s", "") for a in blk.term.callee.args)
        if "LittleEndian" not in targs:
            r.bad("check|%s-endian" % nm, "the check field is not read little-endian", pat.where(b, blk.idx))
            continue
        # compared with checksum(buf)
        gs, _ = pat.guards(b)
        okk = False
        for (bb, t, z, nz) in gs:
            s = pat.cmp_sides(t)
            if bb in mine and s and s[0] in ("Ne", "Eq") and pat.has_call(t, w[0]) and pat.has_call(t, w[1]) and pat.has_arg(t, "buf"):
                rej = nz if s[0] == "Ne" else z
                acc = z if s[0] == "Ne" else nz
                if not flow.reaches_ok(b, rej) and flow.reaches_ok(b, acc):
                    okk = True
        if okk:
            r.ok("path", {nm: "%s LE == %s(buf), equal -> Ok" % (w[0], w[1])})
        else:
            r.bad("check|%s-compare" % nm, "the %s field is not compared with the checksum of the block's bytes (equal -> Ok, different -> Err)" % nm,
                  pat.where(b, tgt))
    return r


def rule_optional(facts):
    r = report.RuleResult("C03.R6", "optional block-header fields are read iff their flag bit is set; filter count is (flags & 3) + 1")
    b = pat.body_of(facts, "xz::read_block_header")
    r.need("read_block_header", b is not None)
    if b is None:
        return r
    gs, tm = pat.guards(b)
    c = cfg(b)
    r.sites = 3
    # the two Option fields of the returned BlockHeader, as functions of the flags byte (gated evaluation)
    from engine.flow import PosTerms
    pt = PosTerms(b)
    adt = facts.adt("decode::xz::BlockHeader")
    agg = None
    for blk in b.blocks:
        for i, s_ in enumerate(blk.stmts):
            if s_.k == "assign" and s_.rv.k == "aggregate" and s_.rv.agg == "adt" and s_.rv.adt_name.endswith("xz::BlockHeader"):
                agg = (blk.idx, i, s_)
    if adt is None or agg is None:
        r.bad("optional|header-aggregate", "cannot find the BlockHeader built by read_block_header", pat.where(b), "unverifiable")
    else:
        names = [f_["name"] for f_ in adt["variants"][0]["fields"]]
        bbA, iA, sA = agg
        first_read = {}
        for fld, bit, nm in (("packed_size", 0x40, "compressed size"), ("unpacked_size", 0x80, "uncompressed size")):
            if fld not in names:
                r.bad("optional|%s-field" % nm, "BlockHeader has no field %s" % fld, pat.where(b), "unverifiable")
                continue
            op = sA.rv.ops[names.index(fld)]
            if op.place is None or op.place.proj:
                r.bad("optional|%s-term" % nm, "cannot follow the %s field" % nm, pat.where(b, bbA), "unverifiable")
                continue

            def on_def(bb, i, st, fld=fld):
                rv = st.rv
                if rv is None:
                    # a call: `get_multibyte(input).map(Some)` builds Ok(Some(..)) / passes the error on
                    t_ = st.term
                    nm_ = flow.declared(t_) or ""
                    if nm_.endswith(("Result::map", "Option::map")) and len(t_.args) == 2 and (t_.args[1].fn is not None) and \
                            (t_.args[1].fn.name or "").endswith("Option::Some"):
                        src = tm.of_operand(t_.args[0])
                        cs = [q for q in _subterms(src) if q[0] == "call" and q[1].endswith("get_multibyte")]
                        if cs:
                            first_read.setdefault(fld, cs[0][3])
                        return 1
                    return None
                if rv.k == "aggregate" and rv.agg == "adt" and rv.adt_name.endswith("Option"):
                    if rv.variant == 1:
                        src = tm.of_operand(rv.ops[0])
                        cs = [q for q in _subterms(src) if q[0] == "call" and q[1].endswith("get_multibyte")]
                        if cs:
                            first_read.setdefault(fld, cs[0][3])
                    return rv.variant        # 0 = None, 1 = Some
                return None
            bad = None
            try:
                for f in range(256):
                    if f & 0x3C:
                        continue            # reserved bits set: rejected before
                    def leaf(q, f=f):
                        inner = q
                        while isinstance(inner, tuple) and inner and (inner[0] in ("ok", "okp", "try") or
                                                                      (inner[0] == "call" and str(inner[1]).endswith("map_err"))):
                            inner = inner[1] if inner[0] != "call" else inner[2][0]
                        if isinstance(inner, tuple) and inner and inner[0] == "call" and str(inner[1]).endswith("read_u8"):
                            return f            # the flags byte itself
                        # `cond.then(|| get_multibyte(input)).transpose()?`: present exactly when cond holds
                        if isinstance(inner, tuple) and inner and inner[0] == "call" and str(inner[1]).endswith("transpose") and inner[2] and \
                                isinstance(inner[2][0], tuple) and inner[2][0][0] == "call" and str(inner[2][0][1]).endswith("::then"):
                            cond = inner[2][0][2][0]
                            return int(bool(pat.eval_cmp(cond, leaf) if pat.cmp_sides(cond) else pat.eval_term(cond, leaf)))
                        raise pat.NotEvaluable(q)
                    v = pat.eval_gated(b, pt, op.place.local, bbA, leaf, iA, on_def)
                    if bool(v) != bool(f & bit):
                        bad = "block flags 0x%02x: the %s field is %s, the format says %s" % (f, nm, "read" if v else "not read",
                                                                                           "present" if f & bit else "absent")
                        break
            except pat.NotEvaluable as ex:
                r.bad("optional|%s-term" % nm, "cannot evaluate the presence of the %s field as a function of the flags byte" % nm, pat.where(b, bbA), "unverifiable")
                continue
            if bad:
                r.bad("optional|%s" % nm, bad, pat.where(b, bbA))
            else:
                r.ok("evaluation", {nm: "present iff flags & 0x%02x (all flag bytes with reserved bits clear)" % bit})
        # field order in the header: compressed size first
        if "packed_size" in first_read and "unpacked_size" in first_read:
            a_, b2 = first_read["packed_size"], first_read["unpacked_size"]
            if b2 in c.reachable_from(a_) and a_ not in c.reachable_from(b2):
                r.ok("order", {"fields": "compressed size is read before uncompressed size"})
            else:
                r.bad("optional|order", "the optional size fields are read in the wrong order", pat.where(b, a_))
    # the order: packed before unpacked
    # filter count
    rng = [tm.of_operand(s.rv.ops[1]) for blk in b.blocks for s in blk.stmts if s.k == "assign" and s.rv.k == "aggregate"
           and s.rv.agg == "adt" and s.rv.adt_name.endswith("Range")]
    okk = False
    for e in rng:
        if not pat.has_call(e, "read_u8"):
            continue
        try:
            vals = [pat.eval_term(e, lambda q, f=f: f if (q[0] in ("ok", "try", "call")) else (_ for _ in ()).throw(pat.NotEvaluable(q)))
                    for f in range(256)]
            if all(vals[f] == (f & 3) + 1 for f in range(256)):
                okk = True
            else:
                f = [f for f in range(256) if vals[f] != (f & 3) + 1][0]
                r.bad("optional|filters", "flags 0x%02x: %d filters are read, the format says %d" % (f, vals[f], (f & 3) + 1), pat.where(b))
                okk = None
        except (pat.Overflow, pat.NotEvaluable):
            pass
    if okk:
        r.ok("evaluation", {"filter count": "(flags & 3) + 1 for all 256 flag bytes"})
    elif okk is False:
        r.bad("optional|filters-term", "cannot find / evaluate the filter count", pat.where(b), "unverifiable")
    return r


def rule_loop(facts):
    r = report.RuleResult("C03.R7", "block loop: 0 -> index and leave, otherwise read a block and continue; blocks reach the sink in order")
    d = pat.body_of(facts, "xz::decode_stream")
    b = pat.body_of(facts, "xz::read_block")
    if d is None or b is None:
        r.need("decode_stream and read_block", False)
        return r
    gs, tm = pat.guards(d)
    c = cfg(d)
    ind = None
    for (bb, t, z, nz) in gs:
        s = pat.cmp_sides(t)
        if s and s[0] in ("Eq", "Ne") and s[2] == ("const", 0) and pat.has_call(s[1], "read_u8") and c.loop_blocks_of(bb):
            ind = (bb, nz if s[0] == "Eq" else z, z if s[0] == "Eq" else nz)
    r.sites = 3
    if ind is None:
        r.bad("loop|indicator", "cannot find the index-indicator test inside a loop", pat.where(d), "unverifiable")
    else:
        bb, zero_e, other_e = ind
        loop = c.loop_blocks_of(bb)
        heads = [h for h, bl, _ in c.loops() if bb in bl]
        ci = [blk.idx for blk in d.calls() if (flow.callee(blk.term) or "").endswith("check_index")]
        rb = [blk.idx for blk in d.calls() if (flow.callee(blk.term) or "").endswith("xz::read_block")]
        if ci and rb and all(c.dominates(zero_e, x) or zero_e == x for x in ci) and all(c.dominates(other_e, x) or other_e == x for x in rb):
            r.ok("control-dependence", {"indicator 0": "check_index", "otherwise": "read_block"})
        else:
            r.bad("loop|dispatch", "indicator 0 / non-0 do not dispatch to check_index / read_block", pat.where(d, bb))
        # after read_block Ok the loop head is reached again; after check_index the loop is left
        if rb and any(h in c.reachable_from(rb[0]) for h in heads):
            r.ok("path", {"after a block": "back to the loop head"})
        else:
            r.bad("loop|single-block", "after a block the loop does not continue: multi-block files are rejected", pat.where(d, rb[0] if rb else bb))
        if ci and not any(h in c.reachable_from(ci[0]) for h in heads):
            r.ok("path", {"after the index": "leaves the loop"})
        else:
            r.bad("loop|index-continues", "after the index the block loop continues", pat.where(d, ci[0] if ci else bb))
    # sink writes in read_block
    tb = Terms(b)
    cb = cfg(b)
    ws = [blk for blk in b.calls() if (flow.declared(blk.term) or "").endswith("Write::write_all") and
          pat.has_arg(tb.of_operand(blk.term.args[0]), "output")]
    others = [blk for blk in b.calls() if blk.term.args and blk not in ws and pat.has_arg(tb.of_operand(blk.term.args[0]), "output")
              and blk.term.args[0].ty.k == "ref"]
    if len(ws) == 1 and not cb.loop_blocks_of(ws[0].idx):
        oks = flow.ok_blocks(b) if hasattr(flow, "ok_blocks") else []
        w = ws[0].idx
        okret = [x for x in cb.returns if flow.reaches_ok(b, x)]
        t = tb.of_operand(ws[0].term.args[1])
        if cb.must_pass(0, [x for x in _ok_sources(b)], {w}) and pat.has_call(t, "Vec::new"):
            r.ok("must-pass", {"every Ok path of read_block": "writes the block's buffer to the sink once"})
        else:
            r.bad("loop|sink", "an Ok path of read_block does not write the decoded block to the sink", pat.where(b, w))
    else:
        r.bad("loop|sink-writes", "read_block writes the sink %d times (or in a loop)" % len(ws), pat.where(b))
    if others:
        r.bad("loop|sink-other", "read_block hands the sink to %s as well" % (flow.callee(others[0].term) or "?"), pat.where(b, others[0].idx))
    return r


def rule_fragmentation(facts):
    """"Every well-formed file decodes" includes every reader: the container parser must not let the size of a peeked
    buffer decide anything (C13.R1 restricted to the container code)."""
    from rules import C13
    r = report.RuleResult("C03.R8", "the container parser's verdict does not depend on how the reader fragments the input")
    src = C13.rule_fill_buf(facts)
    n = 0
    for f in src.findings:
        if "decode::xz" in (f.where + f.key) or "decode::util" in (f.where + f.key) or f.key.startswith("floor"):
            f.rule = "C03.R8"
            r.findings.append(f)
            r.obligations += 1
    r.sites = src.sites
    r.need("fill_buf sites of the container code analysed", src.sites >= 2)
    if not r.findings:
        r.ok("provenance", {"peeked buffers": "used for emptiness tests, the scan-and-consume-all loop and forwarders only", "sites": src.sites})
    return r


XZ_FUNCS = ("decode::xz::", "xz::header::", "xz::footer::", "xz::StreamFlags", "xz::CheckMethod", "xz::FilterId")


def _is_try_switch(b, x):
    """The switch on the discriminant of a `?` (its Break edge only propagates an error that exists already)."""
    d = b.blocks[x].term.discr
    if d.place is None or d.place.proj:
        return False
    for blk in b.blocks:
        for st in blk.stmts:
            if st.k == "assign" and not st.place.proj and st.place.local == d.place.local and st.rv.k == "discriminant":
                src = st.rv.place.local
                for b2 in b.blocks:
                    if b2.term.k == "call" and flow.is_try_branch(b2.term) and not b2.term.dest.proj and b2.term.dest.local == src:
                        return True
    return False


def rule_rejections(facts):
    """Exactness includes acceptance: the container parser may build an error only behind one of the format's tests - an
    integrity comparison of the C06 table, a reserved-bit / unsupported-id test of C18, or one of the few listed below.
    Any other explicit rejection may refuse a well-formed file."""
    from rules import C06, C18
    from engine.flow import PosTerms
    r = report.RuleResult("C03.R9", "the container parser rejects only what the format rejects")
    C06.KNOWN_GUARDS.clear()
    C06.rule_table(facts)
    known = set(C06.KNOWN_GUARDS)
    n = 0
    for b in facts.bodies:
        if b.promoted is not None or b.kind == "Closure" or "closure" in b.name:
            continue
        fn = short(b.name)
        if not any(x in fn for x in XZ_FUNCS) or fn.startswith("encode::"):
            continue
        errs = []
        for blk in b.blocks:
            if blk.cleanup:
                continue
            for s_ in blk.stmts:
                if s_.k == "assign" and s_.rv.k == "aggregate" and s_.rv.agg == "adt" and s_.rv.adt_name.endswith("error::Error") and \
                        (s_.rv.variant_name or "").endswith("XzError"):
                    errs.append(blk.idx)
        if not errs:
            continue
        pt = PosTerms(b)
        c = cfg(b)
        term_at = lambda b_: pt.at(b_.idx, None).of_operand(b_.term.discr)
        for e in errs:
            n += 1
            conds = [(gb, t, cond) for (gb, t, cond) in pat.branch_conditions(b, c, e, term_at)
                     if not (t[0] == "discr" and isinstance(t[1], tuple) and t[1] and t[1][0] == "try")]
            why = None
            # the test that decides this rejection: the innermost of the dominating ones
            # (sorted() of a copy: a list is empty while list.sort() runs, so an in-place sort whose key reads the list keeps block order -
            # which is dominance order only as long as no helper body is spliced in behind the caller's own blocks)
            allc = list(conds)
            conds = sorted(allc, key=lambda x: sum(1 for y in allc if c.dominates(y[0], x[0])))
            inner = conds[-1] if conds else None
            if inner is not None:
                # ... and really the last one: no further test (a `||` chain, a nested if) between it and the error
                gb_, _, cond_ = inner
                tt_ = b.blocks[gb_].term
                ys = [tg for v, tg in tt_.targets if cond_ == ("is", v)] or ([tt_.otherwise] if cond_[0] == "notin" else [])
                between = (c.reachable_from(ys[0]) & c.reaching(e)) - {e} if ys else set()
                if any(b.blocks[x].term.k == "switch" and not _is_try_switch(b, x) for x in between):
                    inner = None
            if inner is not None and (b.defk, inner[0]) in known:
                why = "integrity comparison (C06 table)"
            if why is None and inner is not None:
                gb, t, cond = inner
                truth = cond == ("notin", (0,)) or (cond[0] == "is" and cond[1] == 1)
                s_ = pat.cmp_sides(t)
                # a test on the 16-bit stream flags that never fires on a well-formed value (first byte null, second byte one of
                # the check ids of the format) refuses no well-formed file - whatever its spelling
                leaves = [q for q in flow.term_atoms(t) if q[0] in ("arg", "field", "call")]
                if leaves and all(q[0] == "arg" and b.locals[q[1]].ty.k == "uint" and b.locals[q[1]].ty.bits == 16 for q in leaves) and \
                        fn.endswith("StreamFlags::parse"):
                    try:
                        fires = [pat._cond_holds(t, cond, lambda q, v=v: v if q[0] == "arg" else (_ for _ in ()).throw(pat.NotEvaluable(q)))
                                 for v in (0x0000, 0x0001, 0x0004, 0x000A)]
                        if not any(fires):
                            why = "stream flags: fires on no well-formed flags value"
                    except (pat.NotEvaluable, pat.Overflow):
                        pass
                # reserved bits / unsupported ids / classification switches (C18 decides their exactness)
                if why is not None:
                    pass
                elif t[0] == "arg" or (t[0] == "cast" and t[2][0] == "arg") or (s_ and (s_[1][0] == "arg" or s_[2][0] == "arg") and "id" in str(s_)):
                    why = "id classification (C18.R1/R2)"
                elif s_ and pat.has_op(t, ("BitAnd",)) and pat.has_call(t, "read_u8") and s_[2] == ("const", 0):
                    why = "reserved bits (C18.R3)"
                elif t[0] == "discr" and pat.has_call(t, "::next") and fn.endswith("get_multibyte"):
                    why = "more than nine bytes in a multi-byte integer"
                elif fn.endswith("get_multibyte") and s_ and not any(q[0] in ("call", "arg", "field") for q in flow.term_atoms(t)):
                    why = "more than nine bytes in a multi-byte integer (the loop counter ran out; the count itself is C03.R2's)"
                elif s_ and pat.has_call(t, "get_multibyte") and pat.has_arg(t, "header_size") and s_[0] in ("Gt", "Le"):
                    why = "filter property size larger than the header"
                elif s_ and pat.has_call(t, "Vec::len") and pat.has_field(t, "props") and s_[2] == ("const", 1):
                    why = "LZMA2 filter takes one property byte"
                elif t[0] == "discr" and (pat.has_field(t, "check_method") or pat.has_arg(t, "check_method")):
                    why = "unsupported check (C18.R1b/R5)"
                elif pat.has_call(t, "PartialEq::eq") and (pat.has_field(t, "check_method") or pat.has_arg(t, "check_method")):
                    why = "unsupported check (C18.R1b/R5)"
                elif t[0] in ("ok", "okp", "try") and pat.has_call(t, "is_eof") and pat.has_arg(t, "input"):
                    why = "data after the last stream (C18.R4)"
                elif pat.has_call(t, "to_be_bytes") and s_ and s_[2] == ("const", 0):
                    why = "stream flags null byte (C18.R3)"
            if os.environ.get("VERIF_DEBUG_R9"):
                print("R9", fn, pat.where(b, e), why, flow.show(inner[1])[:100] if inner else None)
            if why:
                r.ok("guard", {"fn": fn, "rejects": why})
            else:
                r.bad("%s|extra-rejection" % fn.split("::")[-1], "a file is refused for a reason that is not one of the format's tests (%s): cannot "
                      "verify that no well-formed file is refused" % (flow.show(inner[1])[:70] if inner else "unconditional"), pat.where(b, e), "unverifiable")
    r.sites = n
    r.need("explicit rejections of the container parser (found %d)" % n, n >= 15)
    return r


def _ok_sources(b):
    """blocks that assign an Ok aggregate to the return place."""
    out = []
    for blk in b.blocks:
        if blk.cleanup:
            continue
        for s in blk.stmts:
            if s.k == "assign" and s.place.local == 0 and not s.place.proj and s.rv.k == "aggregate" and s.rv.agg == "adt" and \
                    s.rv.adt_name.endswith("Result") and s.rv.variant == 0:
                out.append(blk.idx)
    return out


def run(ctx, t0):
    facts = ctx.facts()
    pat.FACTS = facts
    rules = [rule_padding(facts), rule_multibyte(facts), rule_header_size(facts), rule_accounting(facts), rule_check_field(facts),
             rule_optional(facts), rule_loop(facts), rule_fragmentation(facts), rule_rejections(facts)]
    expl = ("Static, container-arithmetic clauses only: the padding, header-size, unpadded-size and filter-count terms are "
            "extracted from MIR and evaluated under the compiled integer widths over their whole (or a residue-covering) "
            "finite domain and compared with the format's formulas; control dependence of optional fields and of the block "
            "loop; must-pass-through of the sink write. Payload decoding is declined.")
    return report.finish(PROP, ctx.tier, rules, expl, ["the formulas in rules/C03.py transcribe xz-file-format 1.0.4 sections 3 and 4"],
                         TRUSTED, t0, None, ctx.seed)
