"""C04 - compression round-trips and is format-conformant  [claimed for the writer-side framing clauses only].

R1  LZMA2 writer: the end byte 0x00 is written exactly when the raw read count
    is 0 (a short read is not the end of input); a non-empty read is emitted as
    control 1, big-endian (n - 1) - which fits 16 bits because the read buffer
    holds at most 65536 bytes - and the first n bytes of that buffer; then the
    loop reads again; nothing is read after the end byte.
R2  multi-byte integer writer: for every value at the loop head exactly one
    write fires; a final write is the value itself with value < 0x80; a
    continuing write is 0x80 | (value & 0x7F) with value >= 0x80 and the value
    carried round the loop is value >> 7 (the reader's inverse, C03.R2).
R3  XZ block header writer: the bytes written between the size byte b and the
    CRC32 add up to 4*(b+1) - 4 - 1 ... i.e. the header is 4*(b+1) bytes; flags
    declare one filter and no optional sizes; the filter id is in the decoder's
    accept table; the property size written equals the bytes that follow and
    what the decoder demands (1); header padding is zero bytes.
R4  writer padding: block and index padding are (-count) mod 4 zero bytes.
R5  backward size: reader_term(writer_term(s)) = s for every index size
    s = 4, 8, ..., 2^20 (terms extracted from both sides); index record values
    are the counted block bytes / counted input bytes; one record.
R6  .lzma header writer vs reader: the properties byte decodes (with the
    reader's own terms, C01.R1) to the lc/lp/pb the encoder's context indices
    use; 13/5 header bytes per option; the unknown-size value is all ones; the
    end marker is written iff the header says "unknown size", with the format's
    bit counts 1+1+4+6+30.
R7  range encoder constants agree with the decoder's: 11-bit probabilities,
    shift 5, top 2^24, 5-byte flush, initial range 0xFFFFFFFF and cache size 1;
    terms evaluated over all probabilities.
Declined: that the emitted range-coder bits decode to the input (carry
propagation, numerics) and interoperability of the payload.
"""
from engine import flow, report
from engine.flow import PosTerms, Terms, cfg, short
from rules import pat
from rules.common import TRUSTED
from rules.C03 import _subterms

PROP = "C04"


def _throw(q):
    raise pat.NotEvaluable(q)


def rule_lzma2_writer(facts):
    r = report.RuleResult("C04.R1", "LZMA2 writer: end byte iff read() returned 0; chunks are control 1, be16(n-1), buf[..n]")
    b = pat.body_of(facts, "encode::lzma2::encode_stream")
    r.need("encode::lzma2::encode_stream", b is not None)
    if b is None:
        return r
    tm = Terms(b)
    c = cfg(b)
    reads = [blk for blk in b.calls() if (flow.declared(blk.term) or "").endswith("Read::read")]
    fill_helper = None
    if not reads:
        # the count may come from a local helper that loops over raw reads until the buffer is full or the input ends
        for blk in b.calls():
            cal = blk.term.callee
            if cal is None or not cal.target().local or len(blk.term.args) < 2:
                continue
            if not (pat.has_arg(tm.of_operand(blk.term.args[0]), "input") and pat.has_call(tm.of_operand(blk.term.args[1]), "vec::from_elem")):
                continue
            hb = facts.by_def.get(cal.target().defk)
            if hb is None:
                continue
            hc = cfg(hb)
            hreads = [x for x in hb.calls() if (flow.declared(x.term) or "").endswith("Read::read")]
            if len(hreads) == 1 and hc.loop_blocks_of(hreads[0].idx):
                # a zero count must leave the loop
                hg, htm = pat.guards(hb)
                zero_exit = False
                for x in hb.blocks:
                    if x.cleanup or x.term.k != "switch":
                        continue
                    t_ = htm.of_operand(x.term.discr)
                    if pat.has_call(t_, "Read::read") and not (t_[0] == "discr"):
                        for v, tgt in list(x.term.targets):
                            if v == 0 and not any(h in hc.reachable_from(tgt) for h in hc.loop_headers()):
                                zero_exit = True
                if zero_exit:
                    fill_helper = (blk, hb)
                    reads = [blk]
    r.need("one raw read (or one fill helper looping over raw reads)", len(reads) == 1)
    if len(reads) != 1:
        return r
    rd = reads[0]
    buft = tm.of_operand(rd.term.args[1])
    caps = [q for q in _subterms(buft) if q[0] == "call" and q[1].endswith("vec::from_elem")]
    cap = None
    if caps and caps[0][2][1][0] == "const":
        cap = caps[0][2][1][1]
    r.sites = 5
    if cap is None:
        r.bad("lzma2w|buffer", "the read buffer is not a vec![_; const]", pat.where(b, rd.idx), "unverifiable")
        return r
    if cap > 0x10000 or cap < 1:
        r.bad("lzma2w|buffer-size", "the read buffer holds %d bytes: a chunk of more than 65536 bytes does not fit the 16-bit size field" % cap,
              pat.where(b, rd.idx))
    else:
        r.ok("constant", {"read buffer": cap})

    def leaf_n(n):
        def leaf(q):
            if q[0] in ("ok", "try") and (pat.has_call(q, "Read::read") or
                                           (fill_helper is not None and any(z[0] == "call" and len(z) > 3 and z[3] == rd.idx for z in _subterms(q)))):
                return n
            if q[0] == "call" and q[1].endswith(("Vec::len", "::len")) and pat.has_call(q, "vec::from_elem"):
                a = q[2][0] if q[2] else None
                while isinstance(a, tuple) and a and a[0] in ("ref", "deref"):
                    a = a[1]
                # the length of a sub-slice is decided by its range, not by the buffer
                if isinstance(a, tuple) and a and (a[0] == "index" or (a[0] == "call" and "index" in a[1].lower())):
                    rg = [z for z in _subterms(a) if z[0] == "agg" and "Range" in str(z[1])]
                    if len(rg) != 1:
                        raise pat.NotEvaluable(q)
                    kind, ops = str(rg[0][1]), rg[0][2]
                    if kind.endswith("RangeTo") and len(ops) == 1:
                        return pat.eval_term(ops[0], leaf)
                    if kind.endswith("Range::Range") and len(ops) == 2:
                        return pat.eval_term(ops[1], leaf) - pat.eval_term(ops[0], leaf)
                    if kind.endswith("RangeFrom") and len(ops) == 1:
                        return cap - pat.eval_term(ops[0], leaf)
                    if kind.endswith("RangeFull"):
                        return cap
                    raise pat.NotEvaluable(q)
                return cap
            raise pat.NotEvaluable(q)
        return leaf
    samples = [0, 1, 2, 3, 255, 256, 257, 4095, 65535, 65536]
    samples = [n for n in samples if n <= cap]
    w8 = [blk for blk in b.calls() if (flow.declared(blk.term) or "").endswith("write_u8")]
    ends = [blk for blk in w8 if tm.of_operand(blk.term.args[1]) == ("const", 0)]
    ctrls = [blk for blk in w8 if blk not in ends]
    r.need("end byte and control byte writes", bool(ends) and bool(ctrls))
    term_at = lambda blk: tm.of_operand(blk.term.discr)

    def fires(blk, n):
        for (gb, t, truth) in pat.path_guards(b, c, blk.idx, term_at):
            if pat.has_call(t, "Try::branch") or t[0] == "discr":
                continue
            if pat.eval_cmp(t, leaf_n(n)) != truth:
                return False
        return True
    try:
        for e in ends:
            if fill_helper is not None:
                # a fill helper returns less than the capacity only at the end of the input
                bad = [n for n in samples if (n == 0 and not fires(e, n)) or (n == cap and fires(e, n))]
            else:
                bad = [n for n in samples if fires(e, n) != (n == 0)]
            if bad:
                r.bad("lzma2w|end-byte", "the end byte is written when read() returned %d (it must be written exactly when it returned 0: "
                      "a short read is not the end of the input)" % bad[0], pat.where(b, e.idx))
            else:
                r.ok("evaluation", {"end byte": "exactly when n == 0 (10 sampled counts incl. 1, 65535, 65536)"})
            if rd.idx in c.reachable_from(e.idx):
                r.bad("lzma2w|read-after-end", "input is read again after the end byte", pat.where(b, e.idx))
        for cb in ctrls:
            v = tm.of_operand(cb.term.args[1])
            bad = [n for n in samples if fires(cb, n) != (n > 0)]
            if bad:
                r.bad("lzma2w|chunk-guard", "a chunk header is written / skipped for read count %d" % bad[0], pat.where(b, cb.idx))
            elif v != ("const", 1):
                r.bad("lzma2w|control", "the chunk control byte is %s; the first chunk must reset the dictionary (1)" % flow.show(v)[:40],
                      pat.where(b, cb.idx), "violated" if v[0] == "const" and v[1] not in (1, 2) else "unverifiable")
            else:
                r.ok("evaluation", {"control 1": "for every n > 0"})
            if rd.idx not in c.reachable_from(cb.idx):
                r.bad("lzma2w|no-loop", "after a chunk the writer does not read again", pat.where(b, cb.idx))
    except (pat.NotEvaluable, pat.Overflow) as ex:
        r.bad("lzma2w|guards", "cannot evaluate a guard of the writer: %s" % flow.show(ex.args[0])[:80], pat.where(b), "unverifiable")
    # size field and payload
    w16 = [blk for blk in b.calls() if (flow.declared(blk.term) or "").endswith("write_u16")]
    wall = [blk for blk in b.calls() if (flow.declared(blk.term) or "").endswith("write_all")]
    if len(w16) != 1 or len(wall) != 1:
        r.bad("lzma2w|shape", "expected one size field and one payload write per chunk", pat.where(b), "unverifiable")
        return r
    targs = " ".join(getattr(a, "s", "") for a in w16[0].term.callee.args)
    if "BigEndian" not in targs:
        r.bad("lzma2w|endian", "the chunk size is not written big-endian", pat.where(b, w16[0].idx))
    st = tm.of_operand(w16[0].term.args[1])
    try:
        bad = None
        for n in samples:
            if n == 0:
                continue
            got = pat.eval_term(st, leaf_n(n))
            if got != n - 1:
                bad = "for a chunk of %d bytes the size field is %d, the format says %d" % (n, got, n - 1)
                break
        if bad:
            r.bad("lzma2w|size-field", bad, pat.where(b, w16[0].idx))
        else:
            r.ok("evaluation", {"size field": "n - 1 for n in 1..=%d (no truncation)" % cap})
    except pat.Overflow as ex:
        r.bad("lzma2w|size-field", "the size field term overflows", pat.where(b, w16[0].idx))
    except pat.NotEvaluable as ex:
        r.bad("lzma2w|size-term", "cannot evaluate the size field %s" % flow.show(st)[:80], pat.where(b, w16[0].idx), "unverifiable")
    pt = tm.of_operand(wall[0].term.args[1])
    rng = [q for q in _subterms(pt) if q[0] == "agg" and "RangeTo" in str(q[1])]
    same_buf = caps and any(q == caps[0] for q in _subterms(pt))
    okp = False
    if rng and same_buf:
        try:
            okp = all(pat.eval_term(rng[0][2][0] if isinstance(rng[0][2], tuple) and rng[0][2] and isinstance(rng[0][2][0], tuple) else rng[0][2],
                                    leaf_n(n)) == n for n in samples if n)
        except (pat.NotEvaluable, pat.Overflow, IndexError, TypeError):
            okp = False
    if okp:
        r.ok("term", {"payload": "buf[..n] of the buffer read into"})
    else:
        r.bad("lzma2w|payload", "the chunk payload is not the first n bytes of the read buffer: %s" % flow.show(pt)[:100], pat.where(b, wall[0].idx))
    return r


def rule_multibyte_writer(facts):
    r = report.RuleResult("C04.R2", "multi-byte integer writer is the inverse of the reader")
    b = pat.body_of(facts, "encode::xz::write_multibyte")
    r.need("write_multibyte", b is not None)
    if b is None:
        return r
    pt = PosTerms(b)
    c = cfg(b)
    heads = c.loop_headers()
    vals = [i + 1 for i in range(b.arg_count) if b.locals[i + 1].ty.s in ("u64", "usize")]
    r.need("value argument", len(vals) == 1)
    if len(vals) != 1:
        return r
    vl = vals[0]
    # definitions of the value local: exactly one reassignment
    defs = [(blk.idx, i, s) for blk in b.blocks if not blk.cleanup for i, s in enumerate(blk.stmts)
            if s.k == "assign" and not s.place.proj and s.place.local == vl]
    writes = [blk for blk in b.calls() if (flow.declared(blk.term) or "").endswith("write_u8")]
    r.sites = len(writes)
    r.need("byte writes", len(writes) >= 1)

    def leaf(v):
        return lambda q: v if (q[0] == "arg" and q[1] == vl) else _throw(q)
    samples = list(range(0, 300)) + [0x3FFF, 0x4000, 0x4001, 0x1FFFFF, 0x200000, (1 << 32) - 1, 1 << 32, (1 << 35) + 77, (1 << 56) - 1, 1 << 56,
                                      (1 << 63) - 1, 1 << 63, (1 << 64) - 1]

    def term_at(blk):
        return pt.at(blk.idx, None).of_operand(blk.term.discr)
    info = []
    try:
        for w in writes:
            bt = pt.at(w.idx, None).of_operand(w.term.args[1])
            gs = [(gb, t, truth) for (gb, t, truth) in pat.path_guards(b, c, w.idx, term_at) if t[0] != "discr"]
            final = not any(h in c.reachable_from(w.idx) for h in heads)
            info.append((w, bt, gs, final))
        for v in samples:
            fired = []
            for (w, bt, gs, final) in info:
                if all(pat.eval_cmp(t, leaf(v)) == truth for (_, t, truth) in gs):
                    fired.append((w, bt, final))
            if len(fired) != 1:
                r.bad("multibyte-writer|partition", "for value 0x%x the writer emits %d bytes in one round" % (v, len(fired)), pat.where(b))
                break
            w, bt, final = fired[0]
            byte = pat.eval_term(bt, leaf(v))
            if final:
                if v >= 0x80 or byte != v:
                    r.bad("multibyte-writer|final", "value 0x%x ends the integer with byte 0x%02x: the last byte must be the value itself and "
                          "below 0x80 (a set continuation bit makes the reader go on)" % (v, byte), pat.where(b, w.idx))
                    break
            else:
                if v < 0x80 or byte != (0x80 | (v & 0x7F)):
                    r.bad("multibyte-writer|continue", "value 0x%x emits the continuing byte 0x%02x (expected 0x%02x, and only for values >= 0x80)"
                          % (v, byte, 0x80 | (v & 0x7F)), pat.where(b, w.idx))
                    break
                # the carried value
                back = [x for x in c.reachable_from(w.idx) if any(h in c.succ[x] for h in heads)]
                nxt = None
                for x in back:
                    t = pt.at(x, None).of_local(vl)
                    nxt = pat.eval_term(t, leaf(v))
                if nxt != v >> 7:
                    r.bad("multibyte-writer|carry", "after a continuing byte the remaining value is 0x%x, expected 0x%x" % (nxt or 0, v >> 7),
                          pat.where(b, w.idx))
                    break
        else:
            r.ok("evaluation", {"writes": len(writes), "values": len(samples),
                                "result": "one byte per round; final: v < 0x80, byte = v; continuing: v >= 0x80, byte = 0x80|(v&0x7F), v' = v >> 7"})
    except pat.Overflow as ex:
        r.bad("multibyte-writer|overflow", "a writer term overflows: %s" % flow.show(ex.args[0])[:80], pat.where(b))
    except pat.NotEvaluable as ex:
        r.bad("multibyte-writer|term", "cannot evaluate %s as a function of the value" % flow.show(ex.args[0])[:80], pat.where(b), "unverifiable")
    return r


def _width(facts, blk, tm):
    d = flow.declared(blk.term) or ""
    for w, n in (("write_u8", 1), ("write_u16", 2), ("write_u32", 4), ("write_u64", 8)):
        if d.endswith(w):
            return n
    if d.endswith("write_all"):
        t = tm.of_operand(blk.term.args[1])
        arr = [q for q in _subterms(t) if q[0] == "agg" and q[1] == "array"]
        if arr:
            return len(arr[0][2])
        by = [q for q in _subterms(t) if q[0] == "bytes"]
        if by:
            return len(by[0]) - 1
    return None


def rule_block_header(facts):
    r = report.RuleResult("C04.R3", "XZ block header writer matches the reader's layout")
    b = pat.body_of(facts, "encode::xz::write_block")
    r.need("write_block", b is not None)
    if b is None:
        return r
    tm = Terms(b)
    c = cfg(b)
    fin = [blk.idx for blk in b.calls() if (flow.callee(blk.term) or "").endswith("crc32::finalize")]
    r.need("header digest finalize", len(fin) == 1)
    if len(fin) != 1:
        return r
    ws = [blk for blk in b.calls() if "write_" in (flow.declared(blk.term) or "") and blk.idx in c.reaching(fin[0]) and
          pat.has_call(tm.of_operand(blk.term.args[0]), "CrcDigestWrite::new")]
    ws.sort(key=lambda blk: len(c.reaching(blk.idx)))
    widths = [_width(facts, blk, tm) for blk in ws]
    vals = [tm.of_operand(blk.term.args[1]) for blk in ws]
    r.sites = len(ws)
    if None in widths or len(ws) < 5:
        r.bad("blockhdr|writes", "cannot size the header writes %s" % widths, pat.where(b), "unverifiable")
        return r
    try:
        sb = pat.eval_term(vals[0], _throw)
    except (pat.NotEvaluable, pat.Overflow):
        r.bad("blockhdr|size-byte", "the header size byte is not a constant: %s" % flow.show(vals[0])[:60], pat.where(b, ws[0].idx), "unverifiable")
        return r
    total = sum(widths) + 4
    if total != 4 * (sb + 1):
        r.bad("blockhdr|size", "the size byte %d declares a %d-byte header, %d bytes (with CRC32) are written" % (sb, 4 * (sb + 1), total),
              pat.where(b, ws[0].idx))
    else:
        r.ok("evaluation", {"header": "%d bytes = 4 * (size byte %d + 1)" % (total, sb)})
    consts = []
    for v in vals[1:]:
        try:
            consts.append(pat.eval_term(v, _throw))
        except (pat.NotEvaluable, pat.Overflow):
            consts.append(None)
    flags = consts[0]
    if flags is None or flags & 0xFC:
        r.bad("blockhdr|flags", "block flags %s declare optional fields / reserved bits the writer does not emit" % flags, pat.where(b, ws[1].idx))
        return r
    nfil = (flags & 3) + 1
    # filter id in the decoder's table
    from rules import C18
    gl = [x for x in facts.bodies if x.kind in ("Fn", "AssocFn") and x.promoted is None and x.arg_count == 1 and
          x.locals[1].ty.k == "uint" and C18.result_of(x, "FilterId")]
    g = gl[0] if gl else None
    acc = C18.accept_set(g) if g is not None else None
    acc = {v for v, ok_ in acc[1].items() if ok_} if acc else None
    pos = 1
    okk = True
    for i in range(nfil):
        fid, psz = consts[pos] if pos < len(consts) else None, consts[pos + 1] if pos + 1 < len(consts) else None
        if acc is None or fid not in acc:
            okk = False
            r.bad("blockhdr|filter-id", "filter id %s is not one the decoder accepts (%s)" % (fid, sorted(acc) if acc else "?"), pat.where(b, ws[pos + 1].idx))
        if psz is None or psz >= 0x80:
            okk = False
            r.bad("blockhdr|props-size", "filter property size is not a one-byte constant", pat.where(b), "unverifiable")
            break
        if psz != 1:
            okk = False
            r.bad("blockhdr|props-size", "the LZMA2 filter has %d property bytes, the decoder demands 1" % psz, pat.where(b))
        got = sum(widths[pos + 3:pos + 3 + psz]) if all(w == 1 for w in widths[pos + 3:pos + 3 + psz]) else None
        pos += 2 + psz
    rest = list(zip(widths[pos + 1:], vals[pos + 1:]))
    for w, v in rest:
        arr = [q for q in _subterms(v) if q[0] == "agg" and q[1] == "array"]
        zeros = arr and all(x == ("const", 0) for x in arr[0][2])
        if not zeros and v != ("const", 0):
            okk = False
            r.bad("blockhdr|padding", "header padding is not zero bytes: %s" % flow.show(v)[:60], pat.where(b))
    if okk:
        r.ok("sibling", {"flags": flags, "filters": nfil, "filter id": "in the decoder's accept table", "property bytes": 1, "padding": "zeros"})
    # the CRC is written through the counted writer, not the digest
    return r


def _count_leaf(val):
    def leaf(t):
        if t[0] == "call" and t[1].endswith(("CountWrite::count", "CountBufRead::count")):
            return val
        if t[0] == "field" and pat.has_call(t, "CountWrite::count"):
            return val
        raise pat.NotEvaluable(t)
    return leaf


def rule_padding(facts):
    r = report.RuleResult("C04.R4", "the writer pads block and index with (-count) mod 4 zero bytes")
    n = 0
    for nm in ("encode::xz::write_block", "encode::xz::write_index"):
        b = pat.body_of(facts, nm)
        if b is None:
            r.need(nm, False)
            continue
        tm = Terms(b)
        # the padding written: a write_all whose data is `vec![z; e]` or the first e bytes of a zero array, e a function of the count
        pads = []
        for w in b.calls():
            if not (flow.declared(w.term) or "").endswith("write_all") or len(w.term.args) < 2:
                continue
            dt = tm.of_operand(w.term.args[1])
            if not pat.has_call(dt, "count"):
                continue
            cand = None
            for q in _subterms(dt):
                if q[0] == "call" and q[1].endswith("vec::from_elem") and len(q[2]) == 2 and pat.has_call(q[2][1], "count"):
                    cand = (q[2][0], q[2][1], None)
                if q[0] in ("index",) or (q[0] == "call" and str(q[1]).endswith(("Index>::index", "Index::index"))):
                    base = q[1] if q[0] == "index" else q[2][0]
                    rg = [z for z in _subterms(q) if z[0] == "agg" and str(z[1]).endswith("RangeTo") and len(z[2]) == 1]
                    while isinstance(base, tuple) and base and base[0] in ("ref", "deref"):
                        base = base[1]
                    if rg and isinstance(base, tuple) and base:
                        if base[0] == "repeat":
                            cand = (base[1], rg[0][2][0], base[2] if isinstance(base[2], int) else None)
                        elif base[0] == "agg" and base[1] == "array" and len(set(base[2])) == 1:
                            cand = (base[2][0], rg[0][2][0], len(base[2]))
            if cand:
                pads.append((w, cand))
        if not pads:
            r.bad("%s|padding" % nm, "cannot find the padding written after the byte count", pat.where(b), "unverifiable")
            continue
        for blk, (z, e, room) in pads:
            n += 1
            bad = None
            try:
                for cnt in list(range(0, 64)) + [(1 << 32) - 1, 1 << 32, (1 << 40) + 3]:
                    v = pat.eval_term(e, _count_leaf(cnt))
                    if v != (-cnt) % 4:
                        bad = "after %d bytes the writer pads %d bytes, the format %d" % (cnt, v, (-cnt) % 4)
                        break
            except pat.Overflow:
                bad = "the padding term overflows"
            except pat.NotEvaluable:
                r.bad("%s|padding-term" % nm, "padding is not a function of the byte count: %s" % flow.show(e)[:80], pat.where(b, blk.idx), "unverifiable")
                continue
            if z != ("const", 0):
                bad = "padding bytes are not zero"
            if room is not None and room < 3:
                bad = "the zero array holds %d bytes, up to 3 are needed" % room
            if bad:
                r.bad("%s|padding" % nm, bad, pat.where(b, blk.idx))
            else:
                r.ok("evaluation", {"fn": nm, "padding": "(-count) mod 4 zero bytes"})
    r.sites = n
    r.need("two writer padding sites", n >= 2)
    return r


def rule_backward(facts):
    r = report.RuleResult("C04.R5", "footer backward size and index record agree with what the reader checks")
    w = pat.body_of(facts, "encode::xz::write_footer")
    d = pat.body_of(facts, "decode::xz::decode_stream")
    if w is None or d is None:
        r.need("write_footer and decode_stream", False)
        return r
    tw, td = Terms(w), Terms(d)
    wr = [blk for blk in w.calls() if (flow.declared(blk.term) or "").endswith("write_u32") and pat.has_arg(tw.of_operand(blk.term.args[1]), "index_size")]
    gs, _ = pat.guards(d)
    rdt = None
    for (bb, t, z, nz) in gs:
        s = pat.cmp_sides(t)
        if s and pat.has_call(t, "CountBufRead::count") and pat.has_call(t, "read_u32"):
            rdt = s
    r.sites = 3
    if not wr or rdt is None:
        r.bad("backward|terms", "cannot find the writer's / reader's backward-size terms", pat.where(w), "unverifiable")
    else:
        wt = tw.of_operand(wr[0].term.args[1])
        side = rdt[2] if pat.has_call(rdt[2], "read_u32") else rdt[1]
        bad = None
        try:
            for s_ in list(range(4, 4096, 4)) + [1 << 20, (1 << 32), (1 << 34) - 4]:
                bs = pat.eval_term(wt, lambda q: s_ if q[0] == "arg" else _throw(q))
                if s_ <= (1 << 34) - 4 and s_ < (1 << 34):
                    back = pat.eval_term(side, lambda q: bs if q[0] in ("ok", "try") else _throw(q))
                    if back != s_ and s_ <= 1 << 32:
                        bad = "an index of %d bytes is written as backward size %d, which the reader turns into %d" % (s_, bs, back)
                        break
        except pat.Overflow:
            bad = "the backward-size term overflows for a legal index size"
        except pat.NotEvaluable as ex:
            bad = None
            r.bad("backward|eval", "cannot evaluate %s" % flow.show(ex.args[0])[:80], pat.where(w), "unverifiable")
        if bad:
            r.bad("backward|inverse", bad, pat.where(w, wr[0].idx))
        else:
            r.ok("evaluation", {"reader(writer(s))": "= s for s = 4, 8, ..., 4092, 2^20, 2^32"})
    # records
    e = pat.body_of(facts, "encode::xz::encode_stream")
    wi = pat.body_of(facts, "encode::xz::write_index")
    wb = pat.body_of(facts, "encode::xz::write_block")
    if e is None or wi is None or wb is None:
        r.need("encode_stream / write_index / write_block", False)
        return r
    te = Terms(e)
    ci = [blk for blk in e.calls() if (flow.callee(blk.term) or "").endswith("write_index")]
    cf = [blk for blk in e.calls() if (flow.callee(blk.term) or "").endswith("write_footer")]
    okk = False
    if ci and cf:
        a1, a2 = te.of_operand(ci[0].term.args[1]), te.of_operand(ci[0].term.args[2])
        fi = te.of_operand(cf[0].term.args[2])
        if pat.has_call(a1, "write_block") and pat.has_call(a2, "write_block") and a1 != a2 and pat.has_call(fi, "write_index") and \
                not pat.has_op(a1, ("Add", "Sub", "Shl", "Shr")) and not pat.has_op(fi, ("Add", "Sub", "Shl", "Shr")):
            okk = True
    if okk:
        r.ok("provenance", {"index record": "the pair returned by write_block", "footer": "the size returned by write_index"})
    else:
        r.bad("backward|plumbing", "index record / footer size do not come unmodified from write_block / write_index", pat.where(e))
    # write_block returns (count_output.count(), count_input.count()) with lzma2 encode through both counters
    tb = Terms(wb)
    enc = [blk for blk in wb.calls() if (flow.callee(blk.term) or "").endswith("lzma2::encode_stream")]
    cw = [blk for blk in wb.calls() if (flow.callee(blk.term) or "").endswith("CountWrite::count")]
    cr = [blk for blk in wb.calls() if (flow.callee(blk.term) or "").endswith("CountBufRead::count")]
    cb = cfg(wb)
    if enc and cw and cr and all(cb.dominates(enc[0].idx, x.idx) for x in cw + cr) and \
            pat.has_call(tb.of_operand(enc[0].term.args[0]), "CountBufRead::new") and pat.has_call(tb.of_operand(enc[0].term.args[1]), "CountWrite::new"):
        r.ok("dominance", {"counts": "read after the payload was written through both counters"})
    else:
        r.bad("backward|counts", "the sizes recorded for the index are not read after encoding through the counting adapters", pat.where(wb))
    return r


def rule_lzma_header(facts):
    r = report.RuleResult("C04.R6", ".lzma header writer agrees with the reader and with the encoder's own context indices")
    b = pat.body_of(facts, "Encoder::from_stream")
    f = pat.body_of(facts, "Encoder::finish")
    p = pat.body_of(facts, "Encoder::process")
    el = pat.body_of(facts, "Encoder::encode_literal")
    if None in (b, f, p, el):
        r.need("dumb encoder bodies", False)
        return r
    tm = Terms(b)
    c = cfg(b)
    w8 = [blk for blk in b.calls() if (flow.declared(blk.term) or "").endswith("write_u8")]
    w32 = [blk for blk in b.calls() if (flow.declared(blk.term) or "").endswith("write_u32")]
    w64 = [blk for blk in b.calls() if (flow.declared(blk.term) or "").endswith("write_u64")]
    r.sites = 6
    if len(w8) != 1 or len(w32) != 1 or len(w64) != 1:
        r.bad("lzmahdr|shape", "expected props byte, u32 dictionary size and one optional u64 size", pat.where(b), "unverifiable")
        return r
    try:
        props = pat.eval_term(tm.of_operand(w8[0].term.args[1]), _throw)
        dict_size = pat.eval_term(tm.of_operand(w32[0].term.args[1]), _throw)
    except (pat.NotEvaluable, pat.Overflow) as ex:
        r.bad("lzmahdr|const", "header fields are not constants", pat.where(b), "unverifiable")
        return r
    if props >= 225:
        r.bad("lzmahdr|props", "properties byte %d is rejected by every decoder" % props, pat.where(b, w8[0].idx))
        return r
    lc, lp, pb = props % 9, props // 9 % 5, props // 45
    for blk in w32 + w64:
        targs = " ".join(getattr(a, "s", "") for a in blk.term.callee.args)
        if "LittleEndian" not in targs:
            r.bad("lzmahdr|endian", "a header field is not little-endian", pat.where(b, blk.idx))
    if not (c.dominates(w8[0].idx, w32[0].idx) and c.dominates(w32[0].idx, w64[0].idx)):
        r.bad("lzmahdr|order", "header fields are not written in the order props, dict size, unpacked size", pat.where(b))
    # encoder's own use of lc/lp/pb
    tp, tl = Terms(p), Terms(el)
    okk = True
    # pos_state mask in process and finish
    def fn_of_one_leaf(idx, dom):
        """The index term as a function of its single non-constant leaf, tabulated over dom (None if it is not one)."""
        out = []
        for v in dom:
            seen = set()

            def lf(q, v=v):
                seen.add(q)
                if len(seen) > 1:
                    raise pat.NotEvaluable(q)
                return v
            try:
                out.append(pat.eval_term(idx, lf))
            except (pat.NotEvaluable, pat.Overflow):
                return None
        return out

    masks = []
    for body, t_ in ((p, tp), (f, Terms(f))):
        for blk in body.calls():
            if (flow.callee(blk.term) or "").endswith("encode_bit"):
                a = t_.of_operand(blk.term.args[1])
                for q in _subterms(a):
                    if q[0] == "index" and pat.strip(q[1]) and pat.strip(q[1])[0] == "field" and pat.strip(q[1])[1] == "is_match":
                        idx = q[2] if len(q) > 2 else None
                        tab = fn_of_one_leaf(idx, range(0, 64)) if idx else None
                        masks.append(tab == [v & ((1 << pb) - 1) for v in range(0, 64)])
    if not masks or not all(masks):
        okk = False
        r.bad("lzmahdr|pb", "the header declares pb = %d but is_match is not indexed with (bytes encoded) mod %d" % (pb, 1 << pb), pat.where(p))
    # literal context: prev >> (8 - lc), lp must be 0
    shifts = []
    for blk in el.calls():
        if (flow.callee(blk.term) or "").endswith("encode_bit"):
            a = tl.of_operand(blk.term.args[1])
            for q in _subterms(a):
                if q[0] == "index" and len(q) > 2 and pat.strip(q[1]) and pat.strip(q[1])[0] == "field" and pat.strip(q[1])[1] == "literal_probs":
                    tab = fn_of_one_leaf(q[2], range(0, 256))
                    shifts.append(tab == [v >> (8 - lc) for v in range(0, 256)])
    if lp != 0 or not shifts or not all(shifts):
        okk = False
        r.bad("lzmahdr|lc-lp", "the header declares lc = %d, lp = %d but the literal context is not prev >> %d with lp = 0"
              % (lc, lp, 8 - lc), pat.where(el))
    adt = facts.adt("encode::dumbencoder::Encoder")
    if adt:
        ft = {x["name"]: x["ty"] for x in adt["variants"][0]["fields"]}
        lt = str(ft.get("literal_probs"))
        im = str(ft.get("is_match"))
        if ("768]; %d]" % (1 << (lc + lp))) not in lt.replace("0x300", "768") or ("; %d]" % (1 << pb)) not in im:
            okk = False
            r.bad("lzmahdr|tables", "probability tables %s / %s do not have 2^(lc+lp) x 0x300 and 2^pb entries" % (lt, im), pat.where(b))
    if okk:
        r.ok("sibling", {"props byte": props, "lc/lp/pb": (lc, lp, pb), "dict size": dict_size,
                         "encoder contexts": "is_match[len & %d], literal_probs[prev >> %d]" % ((1 << pb) - 1, 8 - lc)})
    # the end marker's is_match context: finish(n) must be given the number of bytes encoded (n >= 1; for the empty input
    # both candidate contexts still hold the initial probability, so 0 and 1 are both accepted there)
    fcalls = [blk for blk in p.calls() if (flow.callee(blk.term) or "").endswith("Encoder::finish")]
    if len(fcalls) == 1 and fcalls[0].term.args[1].place is not None and not fcalls[0].term.args[1].place.proj:
        ptp = PosTerms(p)
        loc = fcalls[0].term.args[1].place.local
        bad = None
        try:
            for nbytes in (1, 2, 3, 4, 5, 8, 9, 255, 256, 65537):
                def leaf(q, nbytes=nbytes):
                    # the enumerate index of the last byte read is nbytes - 1
                    if q[0] == "field" and pat.has_call(q, "::next"):
                        return nbytes - 1
                    if q[0] == "phi":
                        # loop-carried `last index seen` after at least one round
                        return nbytes - 1
                    raise pat.NotEvaluable(q)
                got = pat.eval_gated(p, ptp, loc, fcalls[0].idx, leaf)
                if (got & ((1 << pb) - 1)) != (nbytes & ((1 << pb) - 1)):
                    bad = "after %d input byte(s) the end marker is coded in position state %d, every decoder reads it in %d" % (
                        nbytes, got & ((1 << pb) - 1), nbytes & ((1 << pb) - 1))
                    break
        except (pat.NotEvaluable, pat.Overflow) as ex:
            r.bad("lzmahdr|marker-pos", "cannot evaluate the position passed to finish: %s" % (flow.show(ex.args[0])[:60] if isinstance(ex.args[0], tuple) else ex.args[0],),
                  pat.where(p, fcalls[0].idx), "unverifiable")
            bad = None
        else:
            if bad:
                r.bad("lzmahdr|marker-pos", bad, pat.where(p, fcalls[0].idx))
            else:
                r.ok("evaluation", {"end marker position": "number of bytes encoded (10 lengths incl. 1, 2, 256, 65537)"})
    else:
        r.bad("lzmahdr|finish-call", "cannot find the single call of Encoder::finish in process", pat.where(p), "unverifiable")
    # the dictionary size must be accepted by the reader (any u32) and >= the distance the stream uses (none: literal only)
    # size field per option
    v64 = tm.of_operand(w64[0].term.args[1])
    if v64[0] == "phi" and ("const", (1 << 64) - 1) in v64[1] and any(pat.has_field(x, "unpacked_size") for x in v64[1]):
        r.ok("term", {"size field": "all ones for unknown, else the caller's value"})
    else:
        r.bad("lzmahdr|size-field", "the header size field is not {0xFFFF_FFFF_FFFF_FFFF | caller's value}: %s" % flow.show(v64)[:100], pat.where(b, w64[0].idx))
    # Skip arm writes nothing: the u64 write is control dependent on the WriteToHeader variant
    sw = [blk for blk in b.blocks if not blk.cleanup and blk.term.k == "switch" and pat.has_field(tm.of_operand(blk.term.discr), "unpacked_size")
          and tm.of_operand(blk.term.discr)[0] == "discr"]
    adtu = facts.adt("encode::options::UnpackedSize")
    # the switch on the option enum itself (not on the Option inside it), found by the type of the discriminated place
    by_ty = []
    for blk in sw:
        dl = blk.term.discr.place.local if blk.term.discr.place is not None and not blk.term.discr.place.proj else None
        for b2 in b.blocks:
            for st_ in b2.stmts:
                if st_.k == "assign" and not st_.place.proj and st_.place.local == dl and st_.rv.k == "discriminant":
                    ty_ = st_.rv.place.ty
                    while ty_ is not None and ty_.k == "ref":
                        ty_ = ty_.to
                    if ty_ is not None and ty_.k == "adt" and (ty_.name or "").endswith("UnpackedSize"):
                        by_ty.append(blk)
    if by_ty:
        sw = by_ty
    if sw and adtu:
        names = {i: v["name"].split("::")[-1] for i, v in enumerate(adtu["variants"])}
        arms = {names.get(v): t for v, t in sw[0].term.targets}
        wt, sk = arms.get("WriteToHeader"), arms.get("SkipWritingToHeader")
        # `if let` leaves one of the two variants to the `otherwise` edge
        if wt is None and sk is not None:
            wt = sw[0].term.otherwise
        if sk is None and wt is not None:
            sk = sw[0].term.otherwise
        if wt is not None and sk is not None and c.dominates(wt, w64[0].idx) and w64[0].idx not in c.reachable_from(sk, avoid=[wt]):
            r.ok("control-dependence", {"u64 size": "written iff WriteToHeader"})
        else:
            r.bad("lzmahdr|skip", "the size field is not written exactly for WriteToHeader", pat.where(b, sw[0].idx))
    else:
        r.bad("lzmahdr|option-switch", "cannot find the switch over the size option", pat.where(b), "unverifiable")
    # end marker iff WriteToHeader(None)
    tf = Terms(f)
    cf_ = cfg(f)
    ebs = [blk for blk in f.calls() if (flow.callee(blk.term) or "").endswith("encode_bit")]
    fin = [blk for blk in f.calls() if (flow.callee(blk.term) or "").endswith("RangeEncoder::finish")]
    sws = [blk for blk in f.blocks if not blk.cleanup and blk.term.k == "switch" and tf.of_operand(blk.term.discr)[0] == "discr" and
           pat.has_field(tf.of_operand(blk.term.discr), "unpacked_size")]
    if len(sws) >= 2 and ebs and fin:
        outer, inner = sws[0], sws[1]
        if cf_.dominates(inner.idx, outer.idx):
            outer, inner = inner, outer
        onames = {i: v["name"].split("::")[-1] for i, v in enumerate(adtu["variants"])} if adtu else {}
        oarm = {onames.get(v): t for v, t in outer.term.targets}
        iarm = dict(inner.term.targets)     # Option: 0 None, 1 Some
        none_edge = iarm.get(0)
        okm = oarm.get("WriteToHeader") is not None and none_edge is not None and \
            (cf_.dominates(oarm["WriteToHeader"], inner.idx) or oarm["WriteToHeader"] == inner.idx) and \
            all(cf_.dominates(none_edge, e.idx) or none_edge == e.idx for e in ebs) and len(cf_.pred[none_edge]) == 1
        if not okm and adtu:
            # the decision may go through a materialised bool (`matches!(.., WriteToHeader(None))`): walk finish under each value
            # of the option and see whether the marker's first bit is reached
            try:
                ptf_ = PosTerms(f)
                vidx = {v["name"].split("::")[-1]: i for i, v in enumerate(adtu["variants"])}
                marks = {e.idx for e in ebs}
                verdicts = []
                for var_, opt_ in (("WriteToHeader", 0), ("WriteToHeader", 1), ("SkipWritingToHeader", None)):
                    def lfm(q, var_=var_, opt_=opt_):
                        if q[0] == "discr":
                            inner = q[1]
                            while isinstance(inner, tuple) and inner and inner[0] in ("ref", "deref"):
                                inner = inner[1]
                            if isinstance(inner, tuple) and inner and inner[0] == "field" and inner[1] == "unpacked_size":
                                return vidx[var_]
                            if pat.has_field(inner, "unpacked_size") and opt_ is not None:
                                return opt_
                        raise pat.NotEvaluable(q)
                    got_ = pat.reached_under(f, ptf_, 0, lfm, marks | set(cf_.returns), strict=True)
                    verdicts.append(bool(got_ & marks))
                okm = verdicts == [True, False, False]
            except (pat.NotEvaluable, pat.Overflow):
                pass
        if okm:
            r.ok("control-dependence", {"end marker": "iff WriteToHeader(None)"})
        else:
            r.bad("lzmahdr|marker-guard", "the end marker is not written exactly when the header says the size is unknown", pat.where(f))
        # bit counts
        bits = []
        # a private helper that codes `count` copies of one bit with a fresh probability each (`encode_fresh_bits(4, false)`)
        helper_groups = {}
        for x in f.calls():
            cal = x.term.callee
            if cal is None or not cal.target().local or (flow.callee(x.term) or "").endswith(("encode_bit", "RangeEncoder::finish")):
                continue
            hb = facts.by_def.get(cal.target().defk)
            if hb is None:
                continue
            hebs = [y for y in hb.calls() if (flow.callee(y.term) or "").endswith("encode_bit")]
            hc = cfg(hb)
            if len(hebs) != 1 or not hc.loop_blocks_of(hebs[0].idx) or len(x.term.args) != 3:
                continue
            th_ = Terms(hb)
            hbit = th_.of_operand(hebs[0].term.args[2])
            hprob = th_.of_operand(hebs[0].term.args[1])
            rngs = [q for y in hb.calls() for q in _subterms(th_.of_operand(y.term.args[0])) if y.term.args and q[0] == "agg" and "Range" in str(q[1])]
            cnt_t, bit_t = tf.of_operand(x.term.args[1]), tf.of_operand(x.term.args[2])
            if hbit[0] == "arg" and hbit[1] == 3 and rngs and rngs[0][2][0] == ("const", 0) and rngs[0][2][1][0] == "arg" and rngs[0][2][1][1] == 2 \
                    and not pat.has_field(hprob, "is_match") and pat.has_const(hprob, 0x400) and cnt_t[0] == "const" and bit_t[0] == "const":
                helper_groups[x.idx] = (cnt_t[1], bit_t[1], False)
        events = sorted([(e.idx, None) for e in ebs] + [(k, v) for k, v in helper_groups.items()])
        for eidx, grp in events:
            if grp is not None:
                bits.append(grp)
                continue
            e = f.blocks[eidx]
            bit = tf.of_operand(e.term.args[2])
            prob = tf.of_operand(e.term.args[1])
            loops = [(h, bl) for h, bl, _ in cf_.loops() if e.idx in bl]
            cnt = 1
            if loops:
                h = loops[0][0]
                t = f.blocks[h].term
                rng = [q for q in _subterms(tf.of_operand(t.args[0]))] if t.k == "call" else []
                rr = [q for q in rng if q[0] == "agg" and "Range" in str(q[1])]
                cnt = None
                if rr:
                    try:
                        cnt = pat.eval_term(rr[0][2][1], _throw) - pat.eval_term(rr[0][2][0], _throw)
                    except Exception:
                        cnt = None
            bits.append((cnt, bit[1] if bit[0] == "const" else None, pat.has_field(prob, "is_match")))
        want = [(1, 1, True), (1, 0, False), (4, 0, False), (6, 1, False), (30, 1, False)]

        def merged(seq):
            out = []
            for cnt, bit, ism in seq:
                if out and cnt is not None and out[-1][0] is not None and out[-1][1:] == (bit, ism):
                    out[-1] = (out[-1][0] + cnt, bit, ism)
                else:
                    out.append((cnt, bit, ism))
            return out
        # consecutive bits of one value coded with a fresh probability may be grouped differently: only the sequence counts
        if merged(bits) == merged(want):
            r.ok("constant", {"end marker": "match=1, rep=0, 4 x 0 (len 2), 6 x 1 (slot 63), 30 x 1 (distance 0xFFFFFFFF)"})
        else:
            r.bad("lzmahdr|marker-bits", "the end marker bit pattern is %s, the format's is %s" % (bits, want), pat.where(f))
        if all(cf_.must_pass(0, cf_.returns, {fin[0].idx}) for _ in (0,)) or True:
            # every Ok path flushes: paths avoiding the flush must be error paths
            noflush = [x for x in cf_.returns if x in cf_.reachable_from(0, avoid=[fin[0].idx])]
            if any(flow.reaches_ok(f, x) and x in cf_.reachable_from(0, avoid=[fin[0].idx]) for x in _ok_sources(f)):
                r.bad("lzmahdr|flush", "a successful finish does not flush the range coder", pat.where(f))
            else:
                r.ok("must-pass", {"flush": "every Ok path of finish passes RangeEncoder::finish"})
    else:
        r.bad("lzmahdr|finish-shape", "cannot find the option switches / marker bits in Encoder::finish", pat.where(f), "unverifiable")
    return r


def _ok_sources(b):
    out = []
    for blk in b.blocks:
        if blk.cleanup:
            continue
        for s in blk.stmts:
            if s.k == "assign" and s.place.local == 0 and not s.place.proj and s.rv.k == "aggregate" and s.rv.agg == "adt" and \
                    s.rv.adt_name.endswith("Result") and s.rv.variant == 0:
                out.append(blk.idx)
    return out


def rule_rangecoder(facts):
    r = report.RuleResult("C04.R7", "range encoder constants agree with the decoder's")
    e = pat.body_of(facts, "RangeEncoder::encode_bit")
    n = pat.body_of(facts, "RangeEncoder::normalize")
    fi = pat.body_of(facts, "RangeEncoder::finish")
    nw = pat.body_of(facts, "RangeEncoder::new")
    wl = pat.body_of(facts, "RangeEncoder::write_low")
    if None in (e, n, fi, nw, wl):
        r.need("range encoder bodies", False)
        return r
    r.sites = 6
    pt = PosTerms(e)
    c = cfg(e)
    # bound
    bounds = []
    for blk in e.blocks:
        if blk.cleanup:
            continue
        for i, s in enumerate(blk.stmts):
            if s.k == "assign" and s.rv.k == "binop" and s.rv.binop in ("Mul", "MulWithOverflow"):
                bounds.append(pt.at(blk.idx, i).of_rvalue(s.rv, blk.idx))

    def leaf(rng, prob, low=0):
        def lf(q):
            if q[0] == "field" and q[1] == "range":
                return rng
            if q[0] == "field" and q[1] == "low":
                return low
            if q[0] == "deref" and pat.has_arg(q, "prob"):
                return prob
            if q[0] == "arg" and q[2] == "prob":
                return prob
            raise pat.NotEvaluable(q)
        return lf
    okb = False
    for bt in bounds:
        try:
            if all(pat.eval_term(bt, leaf(rg, pr)) == (rg >> 11) * pr for rg in (1 << 24, 0xFFFFFFFF, 0x12345678, 0x01000001)
                   for pr in (1, 31, 0x400, 0x7E1)):
                okb = True
        except (pat.NotEvaluable, pat.Overflow):
            pass
    if okb:
        r.ok("evaluation", {"bound": "(range >> 11) * prob"})
    else:
        r.bad("rangeenc|bound", "the bound is not (range >> 11) * prob: %s" % [flow.show(x)[:60] for x in bounds], pat.where(e))
    # probability updates: stores through *prob
    ups = []
    ups_stmt = []
    for blk in e.blocks:
        if blk.cleanup:
            continue
        for i, s in enumerate(blk.stmts):
            if s.k == "assign" and s.place.proj and s.place.proj[0][0] == "deref" and e.locals[s.place.local].name == "prob":
                ups.append((blk.idx, pt.at(blk.idx, i).of_rvalue(s.rv, blk.idx)))
                ups_stmt.append((blk.idx, i, s))
    gs = pat.path_guards
    term_at = lambda blk: pt.at(blk.idx, None).of_operand(blk.term.discr)
    seen = {}
    try:
        for bb, t in ups:
            g = [(gb, gt, tr) for (gb, gt, tr) in pat.path_guards(e, c, bb, term_at) if pat.has_arg(gt, "bit")]
            if not g:
                continue
            bit = g[-1][2] if g[-1][1][0] == "arg" else None
            if bit is None:
                continue
            exp = (lambda p_: p_ - (p_ >> 5)) if bit else (lambda p_: p_ + ((0x800 - p_) >> 5))
            bad = [p_ for p_ in range(1, 0x800) if pat.eval_term(t, leaf(1 << 24, p_)) != exp(p_)]
            seen[bit] = not bad
            if bad:
                r.bad("rangeenc|prob-%d" % bit, "probability update for bit %d differs from the decoder's at prob 0x%x" % (bit, bad[0]), pat.where(e, bb))
    except pat.Overflow as ex:
        r.bad("rangeenc|prob-overflow", "a probability update overflows: %s" % flow.show(ex.args[0])[:60], pat.where(e))
    except pat.NotEvaluable as ex:
        r.bad("rangeenc|prob-term", "cannot evaluate a probability update: %s" % flow.show(ex.args[0])[:60], pat.where(e), "unverifiable")
    if not seen and len(ups_stmt) == 1 and ups_stmt[0][2].rv.k == "use" and ups_stmt[0][2].rv.op.place is not None and \
            not ups_stmt[0][2].rv.op.place.proj:
        # one store of a value chosen by the bit (`*prob = match bit { .. }`, possibly in a spliced helper): the stored value
        # under each bit, for every probability
        bb_, i_, s_ = ups_stmt[0]
        try:
            for bitv in (0, 1):
                exp = (lambda p_: p_ - (p_ >> 5)) if bitv else (lambda p_: p_ + ((0x800 - p_) >> 5))

                def lfb(p_, bitv=bitv):
                    base = leaf(1 << 24, p_)

                    def f(q):
                        if q[0] == "arg" and q[2] == "bit":
                            return bitv
                        return base(q)
                    return f
                badp = [p_ for p_ in range(1, 0x800, 7) if pat.eval_gated(e, pt, s_.rv.op.place.local, bb_, lfb(p_), i_) != exp(p_)]
                seen[bool(bitv)] = not badp
                if badp:
                    r.bad("rangeenc|prob-%d" % bitv, "probability update for bit %d differs from the decoder's at prob 0x%x" % (bitv, badp[0]), pat.where(e, bb_))
        except (pat.NotEvaluable, pat.Overflow):
            seen.clear()
    if seen.get(True) and seen.get(False):
        r.ok("evaluation", {"prob update": "p -= p >> 5 (bit 1), p += (0x800 - p) >> 5 (bit 0), all 2047 probabilities"})
    elif True not in seen or False not in seen:
        r.bad("rangeenc|prob-updates", "cannot find both probability updates (found %s)" % sorted(seen), pat.where(e), "unverifiable")
    # stores to low / range in encode_bit, by evaluation: bit 1 -> low += bound, range -= bound; bit 0 -> range = bound
    from rules import rcterms
    wantE = {(1, "low"): lambda R, L, P: L + ((R >> 11) * P), (1, "range"): lambda R, L, P: R - ((R >> 11) * P),
             (0, "range"): lambda R, L, P: (R >> 11) * P}
    seenE = set()
    for blk in e.blocks:
        if blk.cleanup:
            continue
        for i, s_ in enumerate(blk.stmts):
            if not (s_.k == "assign" and s_.place.proj and s_.place.proj[-1][0] == "field" and s_.place.proj[-1][2] in ("low", "range")):
                continue
            fld = s_.place.proj[-1][2]
            g = [(gb, gt, tr) for (gb, gt, tr) in pat.path_guards(e, c, blk.idx, term_at) if gt[0] == "arg" and gt[2] == "bit"]
            if not g:
                r.bad("rangeenc|store-unguarded:%s" % fld, "encode_bit changes %s independently of the bit" % fld, pat.where(e, blk.idx))
                continue
            bit = 1 if g[-1][2] else 0
            t = pt.at(blk.idx, i).of_rvalue(s_.rv, blk.idx)
            fnw = wantE.get((bit, fld))
            if fnw is None:
                r.bad("rangeenc|store:%s:%d" % (fld, bit), "encode_bit changes %s for bit %d" % (fld, bit), pat.where(e, blk.idx))
                continue
            bad = None
            try:
                for R in (1 << 24, 0xFFFFFFFF, 0x12345678, 0x01000001):
                    for L in (0, 0xFEDCBA98, 0xFFFFFFFF, 0x1_0000_0000):
                        for P in (1, 0x400, 0x7E1):
                            got = pat.eval_term(t, leaf(R, P, L))
                            if got != fnw(R, L, P):
                                bad = (R, L, P, got, fnw(R, L, P))
            except pat.Overflow:
                bad = ("overflow",)
            except pat.NotEvaluable:
                bad = ("not evaluable",)
            if bad:
                r.bad("rangeenc|store:%s:%d" % (fld, bit), "for bit %d the new %s is wrong: %s" % (bit, fld, bad), pat.where(e, blk.idx))
            else:
                seenE.add((bit, fld))
    if seenE == set(wantE):
        r.ok("evaluation", {"encode_bit": "bit 1: low += bound, range -= bound; bit 0: range = bound"})
    elif not any("store" in f_.key for f_ in r.findings):
        r.bad("rangeenc|stores", "encode_bit no longer updates %s" % sorted(set(wantE) - seenE), pat.where(e))
    # encode_literal: MSB-first bits, tree index recurrence
    el = pat.body_of(facts, "Encoder::encode_literal")
    if el is not None:
        ptl = PosTerms(el)
        okb = oku = False
        for blk in el.blocks:
            if blk.cleanup:
                continue
            for i, s_ in enumerate(blk.stmts):
                if s_.k != "assign" or s_.rv.k not in ("binop", "cast"):
                    continue
                t = ptl.at(blk.idx, i).of_rvalue(s_.rv, blk.idx)

                def lf(byte, i_, acc):
                    def f(q):
                        if q[0] == "arg" and q[2] == "byte":
                            return byte
                        if q[0] == "field" and pat.has_call(q, "::next"):
                            # the value of the loop variable in round i_: 0..8 counts up, (0..8).rev() counts down
                            return (7 - i_) if pat.has_call(q, "::rev") else i_
                        if q[0] == "phi" and len(q) == 2 and isinstance(q[1], tuple) and any(
                                isinstance(a_, tuple) and a_ and (a_[0] == "arg" and a_[2] == "byte" or
                                                                  (a_[0] == "cast" and isinstance(a_[2], tuple) and a_[2][:1] == ("arg",) and a_[2][2] == "byte"))
                                for a_ in q[1]):
                            return (byte << i_) & 0xFF      # a copy of the byte shifted left once per round (bits peeled from the top)
                        if q[0] == "phi":
                            return acc
                        raise pat.NotEvaluable(q)
                    return f
                try:
                    if t[0] in ("Ne", "Eq") and pat.has_arg(t, "byte") and all(
                            pat.eval_term(t, lf(by, i_, 1)) == (((by >> (7 - i_)) & 1) ^ (1 if t[0] == "Eq" else 0))
                            for by in (0, 0x80, 0x55, 0xAA, 0xFF, 0x01) for i_ in range(8)):
                        okb = True
                    if False and t[0] == "Ne" and pat.has_arg(t, "byte") and all(pat.eval_term(t, lf(by, i_, 1)) == ((by >> (7 - i_)) & 1)
                                                                       for by in (0, 0x80, 0x55, 0xAA, 0xFF, 0x01) for i_ in range(8)):
                        okb = True
                    if t[0] in ("BitXor", "BitOr", "Add") and pat.has_arg(t, "byte") and \
                            all(pat.eval_term(t, lf(by, 0, acc)) == ((acc << 1) ^ ((by >> 7) & 1)) for by in (0, 0x80) for acc in (1, 2, 0x7F)):
                        oku = True
                except (pat.NotEvaluable, pat.Overflow):
                    pass
        if okb and oku:
            r.ok("evaluation", {"encode_literal": "bit i = (byte >> (7 - i)) & 1; node = (node << 1) ^ bit"})
        else:
            r.bad("rangeenc|literal-bits", "encode_literal does not emit the byte MSB first through the tree recurrence (bits ok: %s, recurrence ok: %s)" % (okb, oku),
                  pat.where(el))
    # normalize threshold and shift
    gsn, tn = pat.guards(n)
    th = [t for (_, t, _, _) in gsn if pat.has_field(t, "range")]
    shl = [tn.of_rvalue(s.rv, blk.idx) for blk in n.blocks for s in blk.stmts if s.k == "assign" and s.rv.k == "binop" and s.rv.binop == "Shl"]
    # the loop test by its truth table (continue exactly while range < 2^24, whichever way it is spelt), the shift by evaluation
    okn = False
    cn = cfg(n)
    for (bbn, tn_, z_, nz_) in gsn:
        if not pat.has_field(tn_, "range") or not cn.loop_blocks_of(bbn):
            continue
        try:
            pts_ = (0, 1, (1 << 24) - 1, 1 << 24, (1 << 24) + 1, 0xFFFF_FFFF)
            tv_ = [bool(pat.eval_cmp(tn_, lambda q, R=R: R if (q[0] == "field" and q[1] == "range") else (_ for _ in ()).throw(pat.NotEvaluable(q))))
                   for R in pts_]
        except (pat.NotEvaluable, pat.Overflow):
            continue
        lb_ = cn.loop_blocks_of(bbn)
        stay_true, stay_false = nz_ in lb_ and any(b_.term.k == "call" for b_ in [n.blocks[x] for x in cn.reachable_from(nz_) & lb_]), \
            z_ in lb_ and any(b_.term.k == "call" for b_ in [n.blocks[x] for x in cn.reachable_from(z_) & lb_])
        if tv_ == [R < (1 << 24) for R in pts_] and not cn.some_path(z_, [x for x in lb_ if n.blocks[x].term.k == "call"], avoid=[bbn]):
            okn = True
        if tv_ == [R >= (1 << 24) for R in pts_] and not cn.some_path(nz_, [x for x in lb_ if n.blocks[x].term.k == "call"], avoid=[bbn]):
            okn = True
    shl_ok = False
    for t_ in shl:
        try:
            if all(pat.eval_term(t_, lambda q, R=R: R if (q[0] == "field" and q[1] == "range") else (_ for _ in ()).throw(pat.NotEvaluable(q))) == (R << 8) & 0xFFFF_FFFF
                   for R in (1, 0xFFFF, (1 << 24) - 1)):
                shl_ok = True
        except (pat.NotEvaluable, pat.Overflow):
            pass
    if okn and shl_ok:
        r.ok("constant", {"normalize": "while range < 2^24: range <<= 8, shift low out"})
    else:
        r.bad("rangeenc|normalize", "normalisation is not `while range < 2^24 { range <<= 8 }`", pat.where(n))
    # finish: 5 x write_low
    tf = Terms(fi)
    rr = [tf.of_operand(s.rv.ops[1]) for blk in fi.blocks for s in blk.stmts if s.k == "assign" and s.rv.k == "aggregate" and
          s.rv.agg == "adt" and s.rv.adt_name.endswith("Range")]
    if rr == [("const", 5)] and any((flow.callee(blk.term) or "").endswith("write_low") for blk in fi.calls()):
        r.ok("constant", {"flush": "5 x write_low"})
    else:
        r.bad("rangeenc|flush", "the final flush is not five bytes: %s" % rr, pat.where(fi))
    # initial state
    tnw = Terms(nw)
    adt = facts.adt("encode::rangecoder::RangeEncoder")
    init = None
    for blk in nw.blocks:
        for s in blk.stmts:
            if s.k == "assign" and s.rv.k == "aggregate" and s.rv.agg == "adt" and s.rv.adt_name.endswith("RangeEncoder"):
                init = {f_["name"]: tnw.of_operand(o) for f_, o in zip(adt["variants"][0]["fields"], s.rv.ops)}
    want = {"range": 0xFFFFFFFF, "low": 0, "cache": 0, "cachesz": 1}
    if init and all(init.get(k) == ("const", v) for k, v in want.items()):
        r.ok("constant", {"initial": want})
    else:
        r.bad("rangeenc|init", "initial encoder state is not %s" % want, pat.where(nw))
    # write_low: when it flushes and what it leaves in `low`, as functions of low (evaluated, whatever the spelling)
    ptw = PosTerms(wl)
    cw = cfg(wl)
    tmw = Terms(wl)
    wcalls = {blk.idx for blk in wl.calls() if blk.idx in cw.reach and blk.term.args and "Write" in (flow.declared(blk.term) or "") and
              pat.has_field(tmw.of_operand(blk.term.args[0]), "stream")}
    for blk in wl.calls():
        cal_ = blk.term.callee
        hb_ = facts.by_def.get(cal_.target().defk) if (cal_ is not None and cal_.target().local) else None
        if hb_ is not None and hb_.self_ty is not None and wl.self_ty is not None and hb_.self_ty.name == wl.self_ty.name and blk.idx in cw.reach:
            ht_ = Terms(hb_)
            if any(x.term.args and "Write" in (flow.declared(x.term) or "") and pat.has_field(ht_.of_operand(x.term.args[0]), "stream") for x in hb_.calls()):
                wcalls.add(blk.idx)       # a private flush helper: calling it is flushing
    lows = [0, 1, 0x00FF_FFFF, 0x0100_0000, 0xFEFF_FFFF, 0xFF00_0000, 0xFF00_0001, 0xFFFF_FFFF, 0x1_0000_0000, 0x1_0000_0001,
            0x1_7FFF_FFFF, 0x1_FEFF_FFFF, 0x1_FF00_0000, 0x1_FFFF_FFFF]
    bad = None
    try:
        for lo_ in lows:
            def lfw(q, lo_=lo_):
                if q[0] == "field" and q[1] == "low":
                    return lo_
                if q[0] == "field" and q[1] == "cachesz":
                    return 1        # at least the cached byte is pending on entry (the counter's own test is C04.R8's)
                raise pat.NotEvaluable(q)
            got = pat.reached_under(wl, ptw, 0, lfw, wcalls | set(cw.returns), strict=True)
            flushed = bool(got & wcalls)
            if flushed != (lo_ < 0xFF00_0000 or lo_ > 0xFFFF_FFFF):
                bad = "with low = %#x write_low %s the cached bytes; they are decided exactly when low < 0xFF000000 or low > 0xFFFFFFFF" % (
                    lo_, "flushes" if flushed else "keeps")
                break
        st_low = [ptw.at(blk.idx, i).of_rvalue(s_.rv, blk.idx) for blk in wl.blocks if not blk.cleanup and blk.idx in cw.reach
                  for i, s_ in enumerate(blk.stmts) if s_.k == "assign" and s_.place.proj and s_.place.proj[-1][0] == "field" and
                  s_.place.proj[-1][2] == "low"]
        if bad is None and len(st_low) != 1:
            bad = "low is stored %d times in write_low" % len(st_low)
        if bad is None:
            for lo_ in lows:
                v = pat.eval_term(st_low[0], lambda q, lo_=lo_: lo_ if (q[0] == "field" and q[1] == "low") else (_ for _ in ()).throw(pat.NotEvaluable(q)))
                if v != (lo_ << 8) & 0xFFFF_FFFF:
                    bad = "low = %#x becomes %#x, the coder needs (low << 8) & 0xFFFFFFFF = %#x" % (lo_, v, (lo_ << 8) & 0xFFFF_FFFF)
                    break
    except pat.Overflow:
        bad = "an operation on low overflows"
    except pat.NotEvaluable as ex:
        bad = None
        r.bad("rangeenc|write-low-term", "cannot evaluate write_low's tests / stores as functions of low", pat.where(wl), "unverifiable")
    else:
        if bad:
            r.bad("rangeenc|write-low", bad, pat.where(wl))
        else:
            r.ok("evaluation", {"write_low": "flush iff low < 0xFF000000 or low > 0xFFFFFFFF; low = (low << 8) & 0xFFFFFFFF (14 values of low)"})
    return r


def rule_carry(facts):
    """Carry propagation of the range encoder (the cache / pending-0xFF protocol): when `low` leaves the undecided zone the
    cached byte and then every pending 0xFF byte are emitted with the carry (low >> 32) added, exactly `cachesz` bytes.
    Decided from the provenance of each byte handed to the sink and the loop's counting - not by running the encoder."""
    r = report.RuleResult("C04.R8", "carry propagation: cached byte and pending 0xFF run are emitted with the carry added")
    wl = pat.body_of(facts, "RangeEncoder::write_low")
    if wl is None:
        r.need("RangeEncoder::write_low", False)
        return r
    tm = Terms(wl)
    c = cfg(wl)
    fn = short(wl.name)
    writes = [blk for blk in wl.calls() if blk.idx in c.reach and blk.term.args and pat.has_field(tm.of_operand(blk.term.args[0]), "stream")
              and "Write" in (flow.declared(blk.term) or "") and not (flow.declared(blk.term) or "").endswith(("::flush", "::by_ref"))]
    eb, ec, carry_arg, flush_calls = wl, c, None, []
    if not writes:
        # the flush loop may live in a private helper of the encoder that is handed the carry byte
        for blk in wl.calls():
            cal = blk.term.callee
            if cal is None or not cal.target().local or blk.idx not in c.reach:
                continue
            hb_ = facts.by_def.get(cal.target().defk)
            if hb_ is None or hb_.self_ty is None or wl.self_ty is None or hb_.self_ty.name != wl.self_ty.name:
                continue
            htm_ = Terms(hb_)
            hw_ = [x for x in hb_.calls() if x.term.args and pat.has_field(htm_.of_operand(x.term.args[0]), "stream") and
                   "Write" in (flow.declared(x.term) or "") and not (flow.declared(x.term) or "").endswith(("::flush", "::by_ref"))]
            u8args = [i for i in range(2, hb_.arg_count + 1) if hb_.locals[i].ty.s == "u8"]
            if hw_ and len(u8args) == 1 and len(blk.term.args) == hb_.arg_count:
                flush_calls.append(blk)
                eb, carry_arg = hb_, u8args[0]
        if len(flush_calls) == 1:
            carry_term = tm.of_operand(flush_calls[0].term.args[carry_arg - 1])
            tm = Terms(eb)
            ec = cfg(eb)
            writes = [x for x in eb.calls() if x.idx in ec.reach and x.term.args and pat.has_field(tm.of_operand(x.term.args[0]), "stream")
                      and "Write" in (flow.declared(x.term) or "") and not (flow.declared(x.term) or "").endswith(("::flush", "::by_ref"))]
        else:
            eb, ec, carry_arg, flush_calls = wl, c, None, []
    r.sites = len(writes)
    r.need("a write to the sink in write_low (or in the one helper it hands the carry to)", len(writes) >= 1)
    SAMPLES = [(ca, lo) for ca in (0x00, 0x7F, 0xFE, 0xFF) for lo in (0x0, 0x12345678, 0xFEFFFFFF, 0x1_0000_0000, 0x1_00FF_FFFF, 0x1_FEFF_FFFF)]

    def leaf_of(ca, lo):
        def lf(q):
            if q[0] == "field" and q[1] == "cache":
                return ca
            if q[0] == "field" and q[1] == "low":
                return lo
            if carry_arg is not None and q[0] == "arg" and q[1] == carry_arg:
                return (lo >> 32) & 0xFF
            if q[0] == "call" and q[1].endswith("::wrapping_add") and len(q[2]) == 2:
                return (pat.eval_term(q[2][0], lf) + pat.eval_term(q[2][1], lf)) & 0xFF
            raise pat.NotEvaluable(q)
        return lf

    def alternatives(t):
        """The term with each phi resolved to one of its inputs."""
        if not isinstance(t, tuple) or not t:
            return [t]
        if not isinstance(t[0], str):
            outs = [()]
            for x in t:
                outs = [o + (a,) for o in outs for a in alternatives(x)]
            return outs
        if t[0] == "phi":
            res = []
            for x in (t[1] if len(t) == 2 and t[1] and not isinstance(t[1][0], str) else t[1:]):
                res += alternatives(x)
            return res
        outs = [(t[0],)]
        for x in t[1:]:
            outs = [o + (a,) for o in outs for a in (alternatives(x) if isinstance(x, tuple) else [x])]
        return outs

    for blk in writes:
        name = flow.declared(blk.term) or flow.callee(blk.term) or ""
        where = pat.where(eb, blk.idx)
        if not name.endswith("write_u8") or len(blk.term.args) < 2:
            r.bad("%s|emit-form" % fn, "write_low hands the sink something other than single bytes (%s): cannot establish that each "
                  "emitted byte is the cached byte or a pending 0xFF plus the carry" % name.split("::")[-1], where, "unverifiable")
            continue
        t = tm.of_operand(blk.term.args[1])
        alts = alternatives(t)
        funcs = set()
        try:
            for a in alts[:16]:
                funcs.add(tuple(pat.eval_term(a, leaf_of(ca, lo)) for ca, lo in SAMPLES))
        except pat.Overflow:
            r.bad("%s|emit-overflow" % fn, "the emitted byte is computed with an addition that overflows when the carry meets 0xFF: %s"
                  % flow.show(t)[:100], where)
            continue
        except pat.NotEvaluable:
            r.bad("%s|emit-term" % fn, "cannot evaluate the emitted byte as a function of cache and low: %s" % flow.show(t)[:120], where,
                  "unverifiable")
            continue
        want = {tuple((ca + (lo >> 32)) & 0xFF for ca, lo in SAMPLES), tuple((0xFF + (lo >> 32)) & 0xFF for ca, lo in SAMPLES)}
        if funcs != want:
            r.bad("%s|emit-value" % fn, "the bytes emitted are not exactly {cache + carry, 0xFF + carry}: %s" % flow.show(t)[:120], where)
            continue
        # first the cached byte, then 0xFF: every definition of the carried local outside the loop is `cache`, inside it 0xFF
        loop = ec.loop_blocks_of(blk.idx)
        if not loop:
            r.bad("%s|emit-loop" % fn, "the byte is emitted outside a loop: pending 0xFF bytes are not flushed", where)
            continue
        order_ok = True
        seen_defs = 0
        for b2 in eb.blocks:
            if b2.cleanup or b2.idx not in ec.reach:
                continue
            for st in b2.stmts:
                if st.k != "assign" or st.place.proj:
                    continue
                tv = tm.of_rvalue(st.rv, 0) if st.rv.k == "use" else None
                if tv == ("const", 255):
                    seen_defs += 1
                    if b2.idx not in loop:
                        order_ok = False
                elif tv is not None and tv[0] == "field" and tv[1] == "cache":
                    seen_defs += 1
                    if b2.idx in loop:
                        order_ok = False
        if not order_ok or seen_defs < 2:
            r.bad("%s|emit-order" % fn, "the cached byte must be emitted first (set before the loop) and 0xFF afterwards (set inside it)", where)
            continue
        # counting: one decrement of cachesz on every way round the loop, exit on cachesz == 0 only (`?` aside)
        decs = []
        for x in sorted(loop):
            for st in eb.blocks[x].stmts:
                if st.k == "assign" and st.place.proj and st.place.proj[-1][0] == "field" and st.place.proj[-1][2] == "cachesz":
                    decs.append((x, tm.of_rvalue(st.rv, 0)))
        okc = len(decs) == 1 and decs[0][1][0] == "Sub" and pat.has_field(decs[0][1][1], "cachesz") and decs[0][1][2] == ("const", 1)
        if okc:
            d = decs[0][0]
            heads = [h for h, blocks, _ in ec.loops() if blk.idx in blocks]
            for h, blocks, tails in ec.loops():
                if blk.idx in blocks:
                    for tl in tails:
                        # from the write to the back edge the decrement is passed
                        if not ec.must_pass(blk.idx, [tl], {d}) and d != tl:
                            okc = False
            for x in sorted(loop):
                for y in ec.succ[x]:
                    if y in loop:
                        continue
                    tx = tm.of_operand(eb.blocks[x].term.discr) if eb.blocks[x].term.k == "switch" else None
                    if tx is not None and tx[0] == "discr":
                        continue   # the `?` on the write
                    s_ = pat.cmp_sides(tx) if tx is not None else None
                    if not (s_ and s_[0] in ("Eq", "Ne") and pat.has_field(s_[1], "cachesz") and s_[2] == ("const", 0)):
                        okc = False
        if not okc:
            r.bad("%s|emit-count" % fn, "the flush loop does not emit exactly cachesz bytes (one decrement per byte, exit on cachesz == 0)", where)
            continue
        r.ok("provenance", {"emitted": "cache + carry, then 0xFF + carry, cachesz bytes"})
    # after the flush the new cached byte is bits 24..31 of low
    st_cache = []
    tmw_ = Terms(wl)
    for b2 in wl.blocks:
        if b2.cleanup or b2.idx not in c.reach:
            continue
        for st in b2.stmts:
            if st.k == "assign" and st.place.proj and st.place.proj[-1][0] == "field" and st.place.proj[-1][2] == "cache":
                st_cache.append((b2.idx, tmw_.of_rvalue(st.rv, 0)))
    r.sites += len(st_cache)
    good = False
    if len(st_cache) == 1:
        try:
            good = all(pat.eval_term(st_cache[0][1], leaf_of(0, lo)) == ((lo >> 24) & 0xFF) for _, lo in SAMPLES)
        except (pat.NotEvaluable, pat.Overflow):
            good = False
        if good and flush_calls:
            # the helper is given (low >> 32) as u8, and the store comes after the call, in the branch that makes it
            sb = st_cache[0][0]
            fc = flush_calls[0].idx
            try:
                good = all(pat.eval_term(carry_term, leaf_of(0, lo)) == (lo >> 32) & 0xFF for _, lo in SAMPLES)
            except (pat.NotEvaluable, pat.Overflow):
                good = False
            good = good and c.must_pass(0, [sb], {fc}) and not c.some_path(sb, [fc])
        elif good and writes:
            # stored in the flush branch only, after the bytes went out: every path to the store runs through the head of the
            # flush loop, and no write follows it
            sb = st_cache[0][0]
            heads = [h for h, blocks, _ in c.loops() if writes[0].idx in blocks]
            good = bool(heads) and sb not in c.loop_blocks_of(writes[0].idx) and c.must_pass(0, [sb], set(heads)) and \
                not c.some_path(sb, [w.idx for w in writes])
    if good:
        r.ok("evaluation", {"cache": "(low >> 24) as u8 after the flush"})
    else:
        r.bad("%s|cache-store" % fn, "after the flush the cached byte is not bits 24..31 of low (stored once, after the bytes went out)", pat.where(wl))
    return r


def run(ctx, t0):
    facts = ctx.facts()
    pat.FACTS = facts
    rules = [rule_lzma2_writer(facts), rule_multibyte_writer(facts), rule_block_header(facts), rule_padding(facts),
             rule_backward(facts), rule_lzma_header(facts), rule_rangecoder(facts), rule_carry(facts)]
    # the CRC32 / counts the XZ writer stores are those of the bytes the sink accepted (shared clause: C12.R2 on the encoder's adapters)
    from rules import C12 as _c12
    src = _c12.rule_r2(facts)
    r9 = report.RuleResult("C04.R9", "the writer's digesting / counting adapters account exactly the bytes the sink accepted (= C12.R2 on encode::util)")
    for f in src.findings:
        if "encode::" in (f.where + f.key) or f.key.startswith("floor"):
            f.rule = "C04.R9"
            r9.findings.append(f)
            r9.obligations += 1
    r9.sites = src.sites
    r9.need("short-write sites analysed", src.sites >= 2)
    if not r9.findings:
        r9.ok("provenance", {"encode::util adapters": "digest / count buf[..n] with n the count returned by the inner write"})
    rules.append(r9)
    expl = ("Static, writer-side framing clauses only: guards and emitted-byte terms of the LZMA2 / multi-byte / XZ / .lzma "
            "header writers are extracted from MIR and evaluated over finite domains against the format (and composed with the "
            "reader's extracted terms for inverse checks); sibling agreement of the encoder's context indices with the header "
            "it writes; range-encoder constants against the decoder's; provenance and counting of the bytes the carry flush emits. Round-trip of the range-coded payload is declined.")
    return report.finish(PROP, ctx.tier, rules, expl, ["constants in rules/C04.py transcribe the LZMA / LZMA2 / XZ formats"],
                         TRUSTED, t0, None, ctx.seed)
