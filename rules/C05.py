"""C05 - streaming decoder equals one-shot decoder under every chunking  [claimed for the structural clauses only].

R1  dry-run purity: in every function of the symbol decoder that takes the
    `update` flag (found by a fixpoint from process_next_inner), each store
    through a caller-visible reference and each call that lends one mutably -
    other than to the (temporary) range decoder - is control dependent on
    `update`, or goes to a callee of the same family that receives the very
    same flag.  try_process_next passes `false` and a range decoder built over
    the look-ahead slice, never the real one.
R2  look-ahead constants: both "fewer than T bytes" tests use the capacity of
    the carry-over array (T = 20, the worst-case symbol: 22 coded + 26 direct
    bits); the header staging array holds at least 13 + 5 bytes.
R3  staging-buffer discipline: every slice of a staging array handed to a
    reader ends at the array's fill position; a staging position is only set
    to position + n (fill), n (first fill, position == 0), end - consumed
    right after copying [consumed, end) to the front, or 0 right after the
    decoder consumed the staged bytes.
R4  refill: on the carry-over path the buffer is topped up from the input for
    every fill level below capacity (guards evaluated for all levels).
R5  commit discipline: with fewer than T bytes available in Partial mode a
    symbol is committed only after its dry run succeeded; after a failed dry
    run nothing is committed in this call.
R6  state carry: each call rebuilds the range decoder from the saved (range,
    code) and saves them back on success; the carry-over decoder's (range,
    code) are copied back after a committed symbol; staged bytes are decoded
    before new input; write returns the cursor position of its input.
Declined: that 20 bytes always suffice and the value-level equality with the
one-shot decoder (range-coder numerics); these need the symbol semantics.
"""
from engine import flow, report
from engine.flow import Terms, cfg, short
from rules import pat
from rules.common import TRUSTED
from rules.C03 import _subterms

PROP = "C05"
T_REQUIRED = 20
STAGES = ("tmp", "partial_input_buf")



CAPS = {}      # staging field -> array capacity (filled from the ADT definitions by the rules)


def _constval(t):
    """value of a closed arithmetic term (e.g. MAX_REQUIRED_INPUT / 2, or the length of a staging array), else None"""
    def leaf(q):
        if q[0] == "call" and q[1].endswith("::len"):
            for f_, cap in CAPS.items():
                if pat.has_field(q, f_) and cap is not None:
                    return cap
        if q[0] == "PtrMetadata":
            for f_, cap in CAPS.items():
                if pat.has_field(q, f_) and cap is not None:
                    return cap
        raise pat.NotEvaluable(q)
    try:
        return pat.eval_term(t, leaf)
    except (pat.NotEvaluable, pat.Overflow):
        return None


def _is_rangedecoder(ty):
    s = getattr(ty, "s", "") or ""
    return "RangeDecoder" in s


def _update_param(b):
    for i in range(b.arg_count):
        l = b.locals[i + 1]
        if l.ty.k == "bool" and (l.name or "") == "update":
            return i + 1
    bools = [i + 1 for i in range(b.arg_count) if b.locals[i + 1].ty.k == "bool"]
    return bools[0] if len(bools) == 1 else None


def update_family(facts):
    root = pat.body_of(facts, "DecoderState::process_next_inner")
    if root is None:
        return None, {}
    fam = {}
    work = [root]
    while work:
        b = work.pop()
        if b.defk in fam:
            continue
        fam[b.defk] = b
        for blk in b.calls():
            cal = blk.term.callee
            if cal is None:
                continue
            tgt = cal.target()
            if not tgt.local:
                continue
            nb = facts.by_def.get(tgt.defk) if hasattr(facts, "by_def") else None
            if nb is None:
                nb = facts.body(tgt.name) if hasattr(facts, "body") else None
            if nb is not None and nb.promoted is None and _update_param(nb) is not None:
                work.append(nb)
    return root, fam


def rule_purity(facts):
    r = report.RuleResult("C05.R1", "a dry run (update = false) changes nothing but its temporary range decoder")
    root, fam = update_family(facts)
    r.need("process_next_inner", root is not None)
    if root is None:
        return r
    r.need("the update-flag family (symbol decoder, literal, distance, length, bit trees, decode_bit)", len(fam) >= 6)
    nsites = 0
    for b in fam.values():
        up = _update_param(b)
        tm = Terms(b)
        c = cfg(b)
        fn = short(b.name)
        # blocks protected by update == true
        prot = set()
        for blk in b.blocks:
            if blk.cleanup or blk.term.k != "switch":
                continue
            t = tm.of_operand(blk.term.discr)
            if t == ("arg", up, b.locals[up].name) and len(blk.term.targets) == 1 and blk.term.targets[0][0] == 0:
                te = blk.term.otherwise
                if len(c.pred[te]) == 1:
                    prot |= {x for x in c.reach if c.dominates(te, x)}
        def visible(term):
            """term reaches caller-visible memory other than a range decoder"""
            for q in _subterms(term):
                if q[0] == "arg" and isinstance(q[1], int) and q[1] != up:
                    ty = b.locals[q[1]].ty
                    if ty.k == "ref" and not _is_rangedecoder(ty.to if hasattr(ty, "to") else ty) and not _is_rangedecoder(ty):
                        return q
            return None
        for blk in b.blocks:
            if blk.cleanup or blk.idx not in c.reach:
                continue
            for s in blk.stmts:
                if s.k != "assign" or not any(pr[0] == "deref" for pr in s.place.proj):
                    continue
                base = tm.of_local(s.place.local)
                q = visible(base)
                if q is None:
                    continue
                nsites += 1
                if blk.idx in prot:
                    r.ok("control-dependence", None)
                else:
                    r.bad("%s|store:%s" % (fn, flow.show(tm.of_place(s.place))[:60] if hasattr(tm, "of_place") else fn),
                          "a store through `%s` happens even when update is false: a dry run modifies the decoder state"
                          % q[2], pat.where(b, blk.idx))
            t = blk.term
            if t.k != "call" or t.callee is None:
                continue
            muts = []
            for a in t.args:
                if a.ty.k == "ref" and a.ty.mut and not _is_rangedecoder(a.ty.to):
                    q = visible(tm.of_operand(a))
                    if q is not None:
                        muts.append(q)
            if not muts:
                continue
            nsites += 1
            tgt = t.callee.target()
            nm = flow.callee(t) or ""
            if blk.idx in prot:
                r.ok("control-dependence", None)
                continue
            if tgt.local and tgt.defk in fam:
                cb = fam[tgt.defk]
                cup = _update_param(cb)
                passed = tm.of_operand(t.args[cup - 1])
                if passed == ("arg", up, b.locals[up].name) or passed == ("const", 0):
                    r.ok("flag-forwarded", None)
                else:
                    r.bad("%s|flag:%s" % (fn, short(nm)), "%s is called with update = %s instead of the caller's flag" % (short(nm), flow.show(passed)[:40]),
                          pat.where(b, blk.idx))
                continue
            # std helpers that only re-borrow (index_mut, deref_mut, as_mut_slice, iter_mut ...) are not writes
            if nm.endswith(("index_mut", "deref_mut", "as_mut_slice", "as_mut", "get_mut", "iter_mut", "IntoIterator::into_iter", "Iterator::next")):
                r.ok("reborrow", None)
                continue
            r.bad("%s|call:%s" % (fn, short(nm)), "%s receives a mutable reference into the decoder/window even when update is false"
                  % short(nm), pat.where(b, blk.idx))
    r.sites = nsites
    r.need("at least 30 store / lending sites classified (found %d)" % nsites, nsites >= 30)
    # try_process_next
    tp = pat.body_of(facts, "DecoderState::try_process_next")
    if tp is None:
        r.need("try_process_next", False)
        return r
    tm = Terms(tp)
    calls = [blk for blk in tp.calls() if (flow.callee(blk.term) or "").endswith("process_next_inner")]
    if len(calls) != 1:
        r.bad("try_process_next|call", "try_process_next does not call process_next_inner exactly once", pat.where(tp), "unverifiable")
        return r
    t = calls[0].term
    upi = _update_param(root)
    flag = tm.of_operand(t.args[upi - 1])
    rc = tm.of_operand(t.args[2])
    if flag != ("const", 0):
        r.bad("try_process_next|flag", "the dry run passes update = %s" % flow.show(flag), pat.where(tp, calls[0].idx))
    elif not (pat.has_call(rc, "RangeDecoder::from_parts") and pat.has_call(rc, "Cursor::new") and pat.has_arg(rc, "buf")) or \
            any(q[0] == "arg" and _is_rangedecoder(tp.locals[q[1]].ty) for q in _subterms(rc)):
        r.bad("try_process_next|decoder", "the dry run does not use a temporary range decoder over the look-ahead slice: %s" % flow.show(rc)[:100],
              pat.where(tp, calls[0].idx))
    else:
        r.ok("term", {"dry run": "update = false, RangeDecoder::from_parts(Cursor::new(buf), range, code)"})
    return r


def _array_cap(facts, adt_name, field):
    adt = facts.adt(adt_name)
    if not adt:
        return None
    for f in adt["variants"][0]["fields"]:
        if f["name"] == field:
            import re
            m = re.search(r"\[u8; (\d+)\]", str(f["ty"]))
            return int(m.group(1)) if m else None
    return None


def _fill_caps(facts):
    CAPS["partial_input_buf"] = _array_cap(facts, "decode::lzma::DecoderState", "partial_input_buf")
    CAPS["tmp"] = _array_cap(facts, "decode::stream::Stream", "tmp")


def rule_constants(facts):
    r = report.RuleResult("C05.R2", "look-ahead threshold = carry-over capacity = 20; header staging holds >= 13 + 5 bytes")
    _fill_caps(facts)
    cap = _array_cap(facts, "decode::lzma::DecoderState", "partial_input_buf")
    tcap = _array_cap(facts, "decode::stream::Stream", "tmp")
    r.need("staging arrays", cap is not None and tcap is not None)
    if cap is None or tcap is None:
        return r
    p = pat.body_of(facts, "DecoderState::process_mode")
    r.need("process_mode", p is not None)
    if p is None:
        return r
    gs, tm = pat.guards(p)
    ths = []
    for (bb, t, z, nz) in gs:
        s = pat.cmp_sides(t)
        if s and s[0] in ("Lt", "Le", "Gt", "Ge") and _constval(s[2]) is not None and (
                (pat.has_field(s[1], "partial_input_buf") and pat.has_call(s[1], "Cursor::position")) or pat.has_call(s[1], "fill_buf")):
            c_ = cfg(p)
            tries_ = [blk.idx for blk in p.calls() if (flow.callee(blk.term) or "").endswith("try_process_next")]
            if _constval(s[2]) != 0 and any(c_.dominates(nz, x) for x in tries_):
                ths.append((bb, s[0], _constval(s[2])))
    r.sites = len(ths) + 2
    r.need("two look-ahead tests", len(ths) >= 2)
    for bb, op, v in ths:
        if op == "Lt" and v == cap and v >= T_REQUIRED:
            r.ok("constant", {"test": "available < %d" % v, "capacity": cap})
        else:
            r.bad("constants|threshold", "look-ahead test `%s %d` with a carry-over capacity of %d (a symbol can need %d bytes)" % (op, v, cap, T_REQUIRED),
                  pat.where(p, bb))
    if cap < T_REQUIRED:
        r.bad("constants|capacity", "carry-over buffer of %d bytes: the longest symbol needs %d" % (cap, T_REQUIRED), pat.where(p))
    if tcap >= 18:
        r.ok("constant", {"header staging": tcap})
    else:
        r.bad("constants|tmp", "the header staging buffer holds %d bytes, header + range-coder preamble need 18" % tcap, pat.where(p))
    return r


def _nosite(t):
    """term with call-site ids removed (two calls of the same pure accessor compare equal)"""
    if isinstance(t, tuple):
        if t and t[0] == "call" and len(t) > 3:
            return ("call", t[1], _nosite(t[2]))
        return tuple(_nosite(x) for x in t)
    return t


def _stage_of(term):
    """which staging array a slice term is taken from (through get_ref/get_mut or a copy of it)"""
    for q in _subterms(term):
        if q[0] == "field" and q[1] in STAGES:
            return q[1]
    return None


def _eff_range(t, leaf, cap):
    """Effective [start, end) within the underlying array of a (possibly nested) slice term, ranges evaluated under leaf."""
    t = pat.strip(t)
    while isinstance(t, tuple) and t and t[0] in ("ref", "deref"):
        t = t[1]
    if isinstance(t, tuple) and t and (t[0] == "index" or (t[0] == "call" and str(t[1]).endswith(("::index", "Index::index", "index_mut")))):
        base = t[1] if t[0] == "index" else t[2][0]
        rg = t[2] if t[0] == "index" else t[2][1]
        s0, e0 = _eff_range(base, leaf, cap)
        rg = pat.strip(rg)
        if isinstance(rg, tuple) and rg and rg[0] == "agg":
            kind, ops = str(rg[1]), rg[2]
            if kind.endswith("Range::Range") and len(ops) == 2:
                return s0 + pat.eval_term(ops[0], leaf), s0 + pat.eval_term(ops[1], leaf)
            if kind.endswith("RangeTo") and len(ops) == 1:
                return s0, s0 + pat.eval_term(ops[0], leaf)
            if kind.endswith("RangeFrom") and len(ops) == 1:
                return s0 + pat.eval_term(ops[0], leaf), e0
            if kind.endswith("RangeFull"):
                return s0, e0
        raise pat.NotEvaluable(t)
    return 0, cap


def _compaction_by_eval(b, tm, c, blk, v, st):
    """set_position(v) after the unconsumed staged bytes were moved to the front, decided under valuations of (end E of the
    staged bytes, consumed K <= E): v = E - K, and a dominating copy moves exactly [K, E) to [0, E - K) of the same array
    (copy_from_slice from a snapshot, or copy_within)."""
    def leaf_of(E, K):
        def lf(q):
            if q[0] == "call" and q[1].endswith("Cursor::position"):
                if pat.has_call(q, "Cursor::new"):
                    return K            # the temporary reader over the staged bytes: how much the decoder consumed
                if _stage_of(q) == st:
                    return E
            if q[0] == "arg" and b.locals[q[1]].ty.k == "uint" and getattr(b, "spliced", False):
                raise pat.NotEvaluable(q)
            raise pat.NotEvaluable(q)
        return lf
    pts = [(5, 0), (5, 2), (20, 7), (20, 20), (1, 1)]
    try:
        if not all(pat.eval_term(v, leaf_of(E, K)) == E - K for E, K in pts):
            return False
        for x in b.calls():
            nm = flow.callee(x.term) or ""
            if not c.dominates(x.idx, blk.idx):
                continue
            if nm.endswith("copy_from_slice") and len(x.term.args) == 2:
                d, s_ = tm.of_operand(x.term.args[0]), tm.of_operand(x.term.args[1])
                if _stage_of(d) != st or _stage_of(s_) != st:
                    continue
                if all(_eff_range(d, leaf_of(E, K), 20) == (0, E - K) and _eff_range(s_, leaf_of(E, K), 20) == (K, E) for E, K in pts):
                    return True
            if nm.endswith("copy_within") and len(x.term.args) == 3:
                d = tm.of_operand(x.term.args[0])
                if _stage_of(d) != st:
                    continue
                rg = pat.strip(tm.of_operand(x.term.args[1]))
                if rg[0] == "agg" and str(rg[1]).endswith("Range::Range") and all(
                        (pat.eval_term(rg[2][0], leaf_of(E, K)), pat.eval_term(rg[2][1], leaf_of(E, K)),
                         pat.eval_term(tm.of_operand(x.term.args[2]), leaf_of(E, K))) == (K, E, 0) for E, K in pts):
                    return True
    except (pat.NotEvaluable, pat.Overflow, IndexError, TypeError):
        return False
    return False


def rule_staging(facts):
    r = report.RuleResult("C05.R3", "staged bytes: slices handed to readers end at the fill position; positions move only by fill / compaction / drain")
    _fill_caps(facts)
    bodies = [pat.body_of(facts, "Stream as std::io::Write>::write"), pat.body_of(facts, "DecoderState::process_mode"),
              pat.body_of(facts, "decode::stream::Stream::finish"), pat.body_of(facts, "DecoderState::read_partial_input_buf")]
    r.need("Stream::write, process_mode, Stream::finish, read_partial_input_buf", None not in bodies)
    nsl = nsp = 0
    for b in bodies:
        if b is None:
            continue
        tm = Terms(b)
        c = cfg(b)
        fn = short(b.name)
        # (a) reader slices
        for blk in b.calls():
            nm = flow.callee(blk.term) or ""
            if not (nm.endswith("Cursor::new") or nm.endswith("try_process_next")):
                continue
            arg = blk.term.args[0] if nm.endswith("Cursor::new") else blk.term.args[2]
            t = tm.of_operand(arg)
            st = _stage_of(t)
            if st is None:
                continue
            idx = [q for q in _subterms(t) if q[0] == "call" and q[1].endswith(("::index", "Index::index")) and _stage_of(q)]
            if not idx:
                if any(q[0] == "agg" and q[1] == "array" for q in _subterms(t)):
                    continue       # Cursor::new([0; N]) in a constructor
                r.bad("%s|slice:%s" % (fn, st), "the whole staging array `%s` is handed to a reader" % st, pat.where(b, blk.idx))
                continue
            nsl += 1
            rng = idx[0][2][1]
            okk = False
            if rng[0] == "agg" and rng[1].endswith(("Range::Range", "RangeTo::RangeTo")):
                end = rng[2][-1]
                e = pat.strip(end)
                if e and e[0] == "call" and e[1].endswith("Cursor::position") and _stage_of(e) == st:
                    okk = True
            if okk:
                r.ok("term", {"fn": fn, "reader over": "%s[..position]" % st})
            else:
                r.bad("%s|slice-bound:%s" % (fn, st), "a reader is given %s%s: bytes beyond the fill position are stale, not input"
                      % (st, flow.show(rng)[:70]), pat.where(b, blk.idx))
        # (a2) fills: input is staged into the array up to its end (the header needs up to 13 + 5 bytes whatever the option:
        # a destination capped below the capacity can starve the header parser for ever)
        for blk in b.calls():
            d_ = flow.declared(blk.term) or ""
            nm = flow.callee(blk.term) or ""
            if not (d_.endswith("Read::read") or nm.endswith("read_into")) or len(blk.term.args) < 2:
                continue
            t = tm.of_operand(blk.term.args[1])
            st = _stage_of(t)
            if st is None:
                continue
            idx = [q for q in _subterms(t) if q[0] == "call" and q[1].endswith("index_mut") and _stage_of(q)]
            if not idx:
                continue
            rng = idx[0][2][1]
            capv = _constval(rng[2][-1]) if (rng[0] == "agg" and rng[1].endswith(("Range::Range", "RangeTo::RangeTo", "RangeInclusive"))) else None
            full = rng[0] == "agg" and rng[1].endswith(("RangeFrom::RangeFrom", "RangeFull::RangeFull"))
            if full or (capv is not None and CAPS.get(st) is not None and capv >= CAPS[st]):
                r.ok("term", {"fn": fn, "fill of %s" % st: "up to the end of the array"})
            else:
                r.bad("%s|fill-capped:%s" % (fn, st), "input is staged into `%s` only up to %s, not to the end of the array: with an option that "
                      "needs more header bytes than that the header can never be parsed" % (st, flow.show(rng[2][-1])[:50] if rng[0] == "agg" else "?"),
                      pat.where(b, blk.idx))
        # (b) position updates
        for blk in b.calls():
            nm = flow.callee(blk.term) or ""
            if not nm.endswith("Cursor::set_position"):
                continue
            st = _stage_of(tm.of_operand(blk.term.args[0]))
            if st is None:
                continue
            nsp += 1
            v = tm.of_operand(blk.term.args[1])
            where = pat.where(b, blk.idx)
            pos = lambda q: q[0] == "call" and q[1].endswith("Cursor::position")
            vs = pat.strip(v)
            if v == ("const", 0):
                # drain: dominated by a read_data / process call that was given the staged bytes
                dr = [x.idx for x in b.calls() if (flow.callee(x.term) or "").endswith(("Stream::read_data", "DecoderState::process"))
                      and any(_stage_of(tm.of_operand(a)) == st for a in x.term.args)]
                if any(c.dominates(d, blk.idx) for d in dr):
                    r.ok("dominance", {"fn": fn, "%s := 0" % st: "after the decoder consumed the staged bytes"})
                else:
                    r.bad("%s|discard:%s" % (fn, st), "the staged bytes in `%s` are discarded without having been decoded" % st, where)
            elif vs[0] == "Add" and pos(pat.strip(vs[1])) and _stage_of(vs[1]) == st and (pat.has_call(vs[2], "Read::read") or pat.has_call(vs[2], "read_into")):
                r.ok("term", {"fn": fn, "%s fill" % st: "position + bytes read"})
            elif pat.has_call(vs, "Read::read") and not pat.has_op(vs, ("Add", "Sub", "Mul", "Shl", "Shr")):
                # first fill: needs position == 0 on the path
                gs, _ = pat.guards(b)
                okk = False
                for (bb, t, z, nz) in gs:
                    s = pat.cmp_sides(t)
                    if s and s[0] == "Eq" and s[2] == ("const", 0) and pos(pat.strip(s[1])) and _stage_of(s[1]) == st and \
                            (c.dominates(nz, blk.idx)) and len(c.pred[nz]) == 1:
                        okk = True
                if okk:
                    r.ok("term", {"fn": fn, "%s first fill" % st: "bytes read, position was 0"})
                else:
                    r.bad("%s|overwrite:%s" % (fn, st), "`%s` is refilled from its start although it may hold staged bytes" % st, where)
            elif vs[0] == "Sub" and pos(pat.strip(vs[1])) and _stage_of(vs[1]) == st:
                consumed = vs[2]
                # preceded by copy_from_slice(dst[0..new_len] or [..new_len], src[consumed..end])
                cps = [x for x in b.calls() if (flow.callee(x.term) or "").endswith("copy_from_slice") and c.dominates(x.idx, blk.idx)]
                okk = False
                for x in cps:
                    d, s_ = tm.of_operand(x.term.args[0]), tm.of_operand(x.term.args[1])
                    di = [q for q in _subterms(d) if q[0] == "call" and q[1].endswith("index_mut")]
                    si = [q for q in _subterms(s_) if q[0] == "call" and q[1].endswith(("::index", "Index::index"))]
                    if not di or not si or _stage_of(di[0]) != st or _stage_of(si[0]) != st:
                        continue
                    dr_, sr_ = di[0][2][1], si[0][2][1]
                    d_ok = dr_[0] == "agg" and dr_[1].endswith(("Range::Range", "RangeTo::RangeTo")) and _nosite(pat.strip(dr_[2][-1])) == _nosite(vs) and \
                        (len(dr_[2]) == 1 or dr_[2][0] == ("const", 0))
                    s_ok = sr_[0] == "agg" and sr_[1].endswith("Range::Range") and _nosite(pat.strip(sr_[2][0])) == _nosite(pat.strip(consumed)) and \
                        _nosite(pat.strip(sr_[2][1])) == _nosite(pat.strip(vs[1]))
                    if d_ok and s_ok:
                        okk = True
                # consumed is the position of a cursor over the staged bytes
                cons_ok = pat.has_call(consumed, "Cursor::position") and pat.has_call(consumed, "Cursor::new") and _stage_of(consumed) == st
                if okk and cons_ok:
                    r.ok("term", {"fn": fn, "%s compaction" % st: "[consumed, end) moved to the front, position = end - consumed"})
                elif _compaction_by_eval(b, tm, c, blk, v, st):
                    r.ok("evaluation", {"fn": fn, "%s compaction" % st: "[consumed, end) moved to the front, position = end - consumed"})
                else:
                    r.bad("%s|compaction:%s" % (fn, st), "`%s` position is set to %s without moving the unconsumed bytes [consumed, end) to the front"
                          % (st, flow.show(v)[:80]), where)
            elif _compaction_by_eval(b, tm, c, blk, v, st):
                r.ok("evaluation", {"fn": fn, "%s compaction" % st: "[consumed, end) moved to the front, position = end - consumed"})
            else:
                r.bad("%s|position:%s" % (fn, st), "unrecognised update of the `%s` fill position: %s" % (st, flow.show(v)[:100]), where, "unverifiable")
    r.sites = nsl + nsp
    r.need("at least 5 reader slices and 6 position updates (found %d, %d)" % (nsl, nsp), nsl >= 5 and nsp >= 6)
    return r


def rule_refill(facts):
    r = report.RuleResult("C05.R4", "the carry-over buffer is topped up whenever it has room")
    p = pat.body_of(facts, "DecoderState::process_mode")
    r.need("process_mode", p is not None)
    if p is None:
        return r
    cap = _array_cap(facts, "decode::lzma::DecoderState", "partial_input_buf") or T_REQUIRED
    tm = Terms(p)
    c = cfg(p)
    gs, _ = pat.guards(p)
    branch = None
    for (bb, t, z, nz) in gs:
        s = pat.cmp_sides(t)
        if s and s[0] in ("Gt", "Ne") and s[2] == ("const", 0) and pat.has_field(s[1], "partial_input_buf") and c.loop_blocks_of(bb):
            branch = (bb, nz, z)
    r.need("the `carry-over buffer non-empty` branch", branch is not None)
    if branch is None:
        return r
    bb0, yes, no = branch
    inb = {x for x in c.reach if c.dominates(yes, x)}
    refills = [blk for blk in p.calls() if (flow.callee(blk.term) or "").endswith("read_partial_input_buf") and blk.idx in inb]
    commits = [blk for blk in p.calls() if (flow.callee(blk.term) or "").endswith(("process_next", "try_process_next")) and blk.idx in inb]
    r.sites = 2
    if not refills or not commits:
        r.bad("refill|shape", "no refill / no decoding step on the carry-over path", pat.where(p, bb0), "unverifiable")
        return r
    term_at = lambda blk: tm.of_operand(blk.term.discr)

    def leaf(pos):
        def lf(q):
            if q[0] == "call" and q[1].endswith("Cursor::position") and pat.has_field(q, "partial_input_buf"):
                return pos
            raise pat.NotEvaluable(q)
        return lf
    rf = refills[0]
    bad = None
    try:
        for pos in range(1, cap):
            fires = True
            for (gb, t, truth) in pat.path_guards(p, c, rf.idx, term_at):
                if gb not in inb:
                    continue        # tests before the branch do not decide whether the branch refills
                if pat.eval_cmp(t, leaf(pos)) != truth:
                    fires = False
            if not fires:
                bad = pos
                break
    except (pat.NotEvaluable, pat.Overflow) as ex:
        r.bad("refill|guard", "cannot evaluate the guards of the refill: %s" % flow.show(ex.args[0])[:80], pat.where(p, rf.idx), "unverifiable")
        return r
    if bad is not None:
        r.bad("refill|skipped", "with %d bytes carried over (room for %d more) the buffer is not topped up from the input: a symbol that needs "
              "more bytes fails its dry run although the bytes were supplied" % (bad, cap - bad), pat.where(p, rf.idx))
    else:
        r.ok("evaluation", {"refill": "for every fill level 1..%d" % (cap - 1)})
    if all(c.dominates(rf.idx, x.idx) for x in commits):
        r.ok("dominance", {"refill": "before the dry run and before the committed step"})
    else:
        # dominance is required only when the refill is conditional-free; with guards the evaluation above decides
        if any(not c.dominates(rf.idx, x.idx) and rf.idx not in c.reaching(x.idx) for x in commits):
            r.bad("refill|order", "a symbol is decoded from the carry-over buffer before it was topped up", pat.where(p, rf.idx))
        else:
            r.ok("dominance", {"refill": "on the path to every decoding step (guards evaluated)"})
    return r


def rule_commit(facts):
    r = report.RuleResult("C05.R5", "with < T bytes available in Partial mode a symbol is committed only after a successful dry run")
    _fill_caps(facts)
    p = pat.body_of(facts, "DecoderState::process_mode")
    r.need("process_mode", p is not None)
    if p is None:
        return r
    tm = Terms(p)
    c = cfg(p)
    gs, _ = pat.guards(p)
    heads = c.loop_headers()
    inloop = set()
    for h_, bl_, _ in c.loops():
        inloop |= bl_
    # the decoder may stop early ("wait for more input") only when a dry run has failed: any other early success in
    # Partial mode leaves symbols undecoded that the input already determines
    from rules import C08 as _c08
    errsw_true = []
    for (bb_, t_, z_, nz_) in gs:
        if pat.has_call(t_, "Result::is_err") and pat.has_call(t_, "try_process_next"):
            errsw_true.append(nz_)
    oksrc = [o for o, k in flow.ret_sources(p).items() if k in ("ok", "any", "other")]
    for o in oksrc:
        if _c08.partial_guarded(facts, p, gs, c, o):
            if any(c.dominates(e, o) or e == o for e in errsw_true):
                r.ok("path", None)
            else:
                r.bad("commit|early-stop", "in Partial mode the decoder can stop early although no dry run has failed: output that the input "
                      "already determines is held back", pat.where(p, o))
    # the protocol concerns the decoding loop; steps after it (e.g. end-marker handling in Finish mode) are not streaming steps
    tries = [blk for blk in p.calls() if (flow.callee(blk.term) or "").endswith("try_process_next") and blk.idx in inloop]
    commits = [blk for blk in p.calls() if (flow.callee(blk.term) or "").endswith("DecoderState::process_next") and blk.idx in inloop]
    r.sites = len(commits)
    r.need("dry runs and committed steps inside the decoding loop, one dry run per committed step", len(tries) >= 1 and len(tries) == len(commits))
    if not tries or len(tries) != len(commits):
        return r
    for tr in tries:
        fn = "process_mode"
        # the committed step that follows this dry run
        mine = [x for x in commits if x.idx in c.reachable_from(tr.idx, avoid=heads)]
        if len(mine) != 1:
            r.bad("commit|pairing", "cannot pair a dry run with its committed step", pat.where(p, tr.idx), "unverifiable")
            continue
        cm = mine[0]
        # is_err test on the dry run result
        errsw = None
        for (bb, t, z, nz) in gs:
            if pat.has_call(t, "Result::is_err") and any(q[0] == "call" and len(q) > 3 and q[3] == tr.idx for q in _subterms(t)):
                errsw = (bb, nz, z)
            elif t[0] == "discr" and any(q[0] == "call" and len(q) > 3 and q[3] == tr.idx for q in _subterms(t)):
                errsw = errsw
        if errsw is None:
            r.bad("commit|result", "the result of the dry run is not tested", pat.where(p, tr.idx))
            continue
        bb, failed, passed = errsw
        if cm.idx in c.reachable_from(failed, avoid=heads) or any(x.idx in c.reachable_from(failed, avoid=heads) for x in commits):
            r.bad("commit|after-failure", "after a failed dry run the symbol is committed anyway", pat.where(p, bb))
            continue
        if any(h in c.reachable_from(failed) for h in heads):
            r.bad("commit|loop-after-failure", "after a failed dry run the loop continues (it would spin on the same bytes)", pat.where(p, bb))
            continue
        # the dry run is taken whenever mode == Partial and available < T: the commit is not reachable from the `< T` true edge
        # without passing the dry run
        lt = None
        for (gb, t, z, nz) in gs:
            s = pat.cmp_sides(t)
            if s and s[0] == "Lt" and (_constval(s[2]) or 0) >= 2 and (c.dominates(nz, tr.idx)) and len(c.pred[nz]) == 1:
                lt = (gb, nz, _constval(s[2]))
        modesw = None
        for (gb, t, z, nz) in gs:
            if pat.has_call(t, "PartialEq::eq") and pat.has_arg(t, "mode") and c.dominates(nz, tr.idx) and len(c.pred[nz]) == 1:
                modesw = (gb, nz, t)
        by_walk = False
        if modesw is None and lt is not None:
            # another spelling of the mode test (`matches!(mode, Partial)`, a `match`): the dry run is not reached in a concrete walk of
            # the round with the mode set to a non-Partial variant (C13.mode_guarded), and the test is the switch on mode's discriminant
            from rules import C13 as _c13
            if _c13.mode_guarded(facts, p, Terms(p), c, tr.idx):
                tmx = Terms(p)
                for blkx in p.blocks:
                    if blkx.cleanup or blkx.term.k != "switch":
                        continue
                    tx = tmx.of_operand(blkx.term.discr)
                    if isinstance(tx, tuple) and tx and tx[0] == "discr" and pat.has_arg(tx, "mode") and not pat.has_call(tx, "") and \
                            c.dominates(blkx.idx, tr.idx):
                        modesw = (blkx.idx, None, None)
                        by_walk = True
        if lt is None or modesw is None:
            r.bad("commit|guards", "the dry run is not guarded by `mode == Partial && available < T`", pat.where(p, tr.idx), "unverifiable")
            continue
        # mode constant is Partial
        pv = None if by_walk else (pat.promoted_variants(facts, modesw[2]) if hasattr(pat, "promoted_variants") else None)
        if pv is not None and "Partial" not in str(pv):
            r.bad("commit|mode", "the dry run is taken in mode %s, not in Partial mode" % pv, pat.where(p, modesw[0]))
            continue
        if cm.idx in c.reachable_from(lt[1], avoid=list(heads) + [tr.idx]):
            r.bad("commit|bypass", "with fewer than %d bytes the symbol can be committed without a dry run" % lt[2], pat.where(p, lt[0]))
            continue
        # every path from the loop head to the commit passes the mode test
        h = [x for x in heads if cm.idx in c.loop_blocks_of(x) or True]
        if not c.must_pass(modesw[0], [cm.idx], {modesw[0]}) or not c.dominates(modesw[0], cm.idx):
            r.bad("commit|untested", "a committed step is reachable without the look-ahead test", pat.where(p, cm.idx))
            continue
        r.ok("path", {"dry run at": pat.where(p, tr.idx), "failed -> return, passed -> commit; < %d bytes" % lt[2]: "never commits without it"})
    return r


def rule_carry(facts):
    r = report.RuleResult("C05.R6", "range-decoder state and staged bytes are carried across calls")
    rd = pat.body_of(facts, "decode::stream::Stream::read_data")
    w = pat.body_of(facts, "Stream as std::io::Write>::write")
    p = pat.body_of(facts, "DecoderState::process_mode")
    r.need("Stream::read_data / write / process_mode", None not in (rd, w, p))
    if None in (rd, w, p):
        return r
    r.sites = 5
    tm = Terms(rd)
    c = cfg(rd)
    fp = [blk for blk in rd.calls() if (flow.callee(blk.term) or "").endswith("RangeDecoder::from_parts")]
    ps = [blk for blk in rd.calls() if (flow.callee(blk.term) or "").endswith("process_stream")]
    if fp and ps:
        a1, a2 = tm.of_operand(fp[0].term.args[1]), tm.of_operand(fp[0].term.args[2])
        if pat.has_field(a1, "range") and pat.has_field(a2, "code") and pat.has_arg(a1, "state") and pat.has_arg(a2, "state") and \
                not pat.has_op(a1, ("Add", "Sub", "Shl", "Shr")) and pat.has_arg(tm.of_operand(fp[0].term.args[0]), "input"):
            r.ok("provenance", {"read_data": "RangeDecoder::from_parts(input, state.range, state.code)"})
        else:
            r.bad("carry|rebuild", "the range decoder is not rebuilt from the saved (range, code)", pat.where(rd, fp[0].idx))
        saved = {}
        for blk in rd.blocks:
            if blk.cleanup:
                continue
            for s in blk.stmts:
                if s.k == "assign" and s.place.proj and s.place.proj[-1][0] == "field" and s.place.proj[-1][2] in ("range", "code") and \
                        pat.has_arg(tm.of_local(s.place.local), "state"):
                    t = tm.of_rvalue(s.rv, blk.idx)
                    saved[s.place.proj[-1][2]] = (blk.idx, t)
        okk = True
        for f_ in ("range", "code"):
            if f_ not in saved or not (pat.has_field(saved[f_][1], f_) and pat.has_call(saved[f_][1], "from_parts")) or \
                    not c.dominates(ps[0].idx, saved[f_][0]):
                okk = False
        if okk:
            r.ok("provenance", {"read_data": "state.range / state.code saved back after process_stream"})
        else:
            r.bad("carry|save", "the range decoder's (range, code) are not saved back after a successful call", pat.where(rd))
    else:
        r.bad("carry|read_data", "read_data does not rebuild a range decoder and run process_stream", pat.where(rd), "unverifiable")
    # process_mode: rangecoder.set(tmp.range, tmp.code) after the committed step on the carry-over path
    tp = Terms(p)
    cp = cfg(p)
    sets = [blk for blk in p.calls() if (flow.callee(blk.term) or "").endswith("RangeDecoder::set")]
    cm = [blk for blk in p.calls() if (flow.callee(blk.term) or "").endswith("DecoderState::process_next") and
          pat.has_call(tp.of_operand(blk.term.args[2]), "from_parts")]
    if sets and cm:
        a1, a2 = tp.of_operand(sets[0].term.args[1]), tp.of_operand(sets[0].term.args[2])
        rc0 = tp.of_operand(sets[0].term.args[0])
        if pat.has_field(a1, "range") and pat.has_field(a2, "code") and pat.has_call(a1, "from_parts") and pat.has_call(a2, "from_parts") and \
                pat.has_arg(rc0, "rangecoder") and cp.dominates(cm[0].idx, sets[0].idx):
            r.ok("provenance", {"carry-over": "rangecoder.set(tmp.range, tmp.code) after the committed step"})
        else:
            r.bad("carry|set", "the real range decoder does not receive the temporary decoder's (range, code)", pat.where(p, sets[0].idx))
    else:
        r.bad("carry|set-missing", "after a symbol decoded from the carry-over buffer the real range decoder is not updated", pat.where(p))
    # write: Data arm decodes staged bytes before new input; returns input.position()
    tw = Terms(w)
    cw = cfg(w)
    rds = [blk for blk in w.calls() if (flow.callee(blk.term) or "").endswith("Stream::read_data")]
    staged = [x for x in rds if _stage_of(tw.of_operand(x.term.args[1])) == "tmp"]
    fresh = [x for x in rds if pat.has_arg(tw.of_operand(x.term.args[1]), "data") and x not in staged]
    if staged and fresh and all(f_.idx in cw.reachable_from(s_.idx) for s_ in staged for f_ in fresh) and \
            not any(s_.idx in cw.reachable_from(f_.idx) for s_ in staged for f_ in fresh):
        r.ok("order", {"write": "staged bytes are decoded before the new input"})
    else:
        r.bad("carry|order", "the Data arm of write does not decode staged bytes before (and separately from) the new input", pat.where(w))
    from rules.C03 import _ok_sources
    oks = []
    for blk in w.blocks:
        for s in blk.stmts:
            if s.k == "assign" and s.place.local == 0 and not s.place.proj and s.rv.k == "aggregate" and s.rv.agg == "adt" and \
                    s.rv.adt_name.endswith("Result") and s.rv.variant == 0:
                oks.append(tw.of_operand(s.rv.ops[0]))
    if oks and all(pat.has_call(t, "Cursor::position") and pat.has_arg(t, "data") and not pat.has_op(t, ("Add", "Sub")) for t in oks):
        r.ok("term", {"write returns": "input.position()"})
    else:
        r.bad("carry|return", "write does not return the number of bytes its input cursor consumed: %s" % [flow.show(t)[:60] for t in oks], pat.where(w))
    return r


def rule_header_retry(facts):
    r = report.RuleResult("C05.R7", "a header cut anywhere is 'need more bytes': every header read fails with HeaderTooShort, which the stream decoder retries")
    h = pat.body_of(facts, "LzmaParams::read_header")
    sh = pat.body_of(facts, "decode::stream::Stream::read_header")
    r.need("LzmaParams::read_header and Stream::read_header", h is not None and sh is not None)
    if h is None or sh is None:
        return r
    n = 0
    seen_bodies = set()

    def check(b, inp):
        """every consuming read on parameter `inp` of body b fails with HeaderTooShort (local helpers are followed)"""
        nonlocal n
        if b.defk in seen_bodies:
            return
        seen_bodies.add(b.defk)
        tm = Terms(b)
        for blk in b.calls():
            d = flow.declared(blk.term) or ""
            cal = blk.term.callee
            if not blk.term.args:
                continue
            ai = [i for i, a_ in enumerate(blk.term.args) if pat.has_arg(tm.of_operand(a_), inp) and a_.ty.k == "ref"]
            if not ai:
                continue
            if cal is not None and cal.target().local and facts.by_def.get(cal.target().defk) is not None and \
                    not short(cal.target().name).startswith(("decode::util", "util::")):
                hb = facts.by_def[cal.target().defk]
                check(hb, hb.locals[ai[0] + 1].name)
                continue
            if not (d.split("::")[-1].startswith("read") or d.endswith(("fill_buf", "consume"))):
                continue
            n += 1
            # the result must flow into map_err(_, Error::HeaderTooShort) before it is tested / propagated
            okk = False
            for x in b.calls():
                if (flow.declared(x.term) or "").endswith("Result::map_err"):
                    t0_ = tm.of_operand(x.term.args[0])
                    if t0_[0] == "call" and len(t0_) > 3 and t0_[3] == blk.idx:
                        f_ = flow.show(tm.of_operand(x.term.args[1]))
                        if "HeaderTooShort" in f_ and "closure" not in f_:
                            okk = True
            if okk:
                r.ok("error-class", {"fn": short(b.name), "read": d.split("::")[-1], "on failure": "Error::HeaderTooShort"})
            else:
                r.bad("retry|%s|%s" % (short(b.name), d.split("::")[-1]), "a header read (%s in %s) does not fail with Error::HeaderTooShort: a header "
                      "cut there is fatal for the stream decoder but fine for the one-shot decoder" % (d.split("::")[-1], short(b.name)), pat.where(b, blk.idx))
    check(h, "input")
    r.sites = n
    r.need("at least 3 header reads (found %d)" % n, n >= 3)
    # "stay in the Header state" may be answered only for the two reasons that mean "need more bytes": HeaderTooShort from
    # read_header, or a range-decoder preamble that could not be read - never because of how much the reader shows at once
    tsh = Terms(sh)
    csh = cfg(sh)
    hdr_aggs = [blk.idx for blk in sh.blocks if not blk.cleanup for s_ in blk.stmts
                if s_.k == "assign" and s_.rv.k == "aggregate" and s_.rv.agg == "adt" and s_.rv.adt_name.endswith("stream::State") and
                (s_.rv.variant_name or "").endswith("Header")]
    rh = [blk.idx for blk in sh.calls() if (flow.callee(blk.term) or "").endswith("LzmaParams::read_header")]
    rn = [blk.idx for blk in sh.calls() if (flow.callee(blk.term) or "").endswith("RangeDecoder::new")]
    for hb_ in hdr_aggs:
        if rh and (csh.dominates(rh[0], hb_)):
            r.ok("cause", None)
        else:
            r.bad("retry|other-cause", "Stream::read_header answers 'need more bytes' without having tried to parse the header: whether a "
                  "short stream is ever decoded then depends on something else (e.g. how many bytes are visible at once)", pat.where(sh, hb_))
    # Stream::read_header: HeaderTooShort -> Ok(State::Header(output)); a failing range-decoder preamble likewise
    ts = Terms(sh)
    c = cfg(sh)
    adt = facts.adt("error::Error")
    hts = None
    if adt:
        for i, v in enumerate(adt["variants"]):
            if v["name"].endswith("HeaderTooShort"):
                hts = i
    sw = None
    for blk in sh.blocks:
        if blk.cleanup or blk.term.k != "switch":
            continue
        t = ts.of_operand(blk.term.discr)
        if t[0] == "discr" and pat.has_call(t, "LzmaParams::read_header") and flow.term_has(t, lambda q: q[0] == "as" and q[1] == "Err"):
            sw = blk
    if sw is None or hts is None:
        r.bad("retry|arm", "cannot find the match on the error of read_header in Stream::read_header", pat.where(sh), "unverifiable")
        return r
    tgt = dict(sw.term.targets).get(hts)
    if tgt is None:
        r.bad("retry|not-retried", "Stream::read_header does not single out Error::HeaderTooShort", pat.where(sh, sw.idx))
    else:
        hdr = []
        for x in c.reachable_from(tgt):
            for s_ in sh.blocks[x].stmts:
                if s_.k == "assign" and s_.rv.k == "aggregate" and s_.rv.agg == "adt" and s_.rv.adt_name.endswith("stream::State"):
                    hdr.append(s_.rv.variant_name or "")
        errs = [x for x in flow.err_blocks(sh)] if hasattr(flow, "err_blocks") else []
        if any(v.endswith("Header") for v in hdr) and flow.reaches_ok(sh, tgt) and not any(x in c.reachable_from(tgt) for x in errs if x != tgt):
            r.ok("path", {"HeaderTooShort": "Ok(State::Header(output)): retried with more bytes"})
        else:
            r.bad("retry|arm-effect", "on HeaderTooShort the stream decoder does not stay in the Header state", pat.where(sh, tgt))
    return r


def run(ctx, t0):
    facts = ctx.facts()
    pat.FACTS = facts
    rules = [rule_purity(facts), rule_constants(facts), rule_staging(facts), rule_refill(facts), rule_commit(facts), rule_carry(facts), rule_header_retry(facts),
             __import__('rules.C01', fromlist=['x']).rule_state_writers(facts, 'C05.R8')]
    expl = ("Static, structural clauses only: effect analysis of the update-flag family (every caller-visible store / mutable loan is "
            "control dependent on the flag or forwards it), capacity constants from the ADT definitions against the look-ahead tests, "
            "provenance terms of every slice of a staging array handed to a reader and of every fill-position update, finite evaluation "
            "of the refill guards over all fill levels, path checks of the dry-run / commit protocol, provenance of the saved range-decoder "
            "state. Equality with the one-shot decoder at value level is declined.")
    return report.finish(PROP, ctx.tier, rules, expl, ["T = 20 bytes is the worst-case symbol (22 coded + 26 direct bits), transcribed from the format"],
                         TRUSTED, t0, None, ctx.seed)
