"""C06 - XZ integrity: success implies every check passed.

R1  obligation table: each integrity field of the format is compared with its
    counterpart (rows identified by the provenance of the two operands); the
    mismatch edge reaches only Err; from the field's read no successful return
    is reachable without passing the comparison.
R2  digests cover the right bytes: the digest finalized in a CRC comparison is
    the one the preceding reads were routed through (CrcDigestRead wrapper).
R3  exact comparison: no lossy operation (narrowing cast, arithmetic that can
    wrap in its type) between an input field and its comparison.
R4  record bookkeeping: the per-block record pushed for the index carries
    (bytes counted - padding, decoded length).
Declined: that CRC32/CRC64 detect every corruption.
"""
import re

from engine import flow, report
from engine.flow import Terms, cfg, short
from rules.common import TRUSTED
from rules import C18

PROP = "C06"

XZ_MAGIC = (0xFD, 0x37, 0x7A, 0x58, 0x5A, 0x00)
XZ_FOOTER = (0x59, 0x5A)


def has_call(t, suffix):
    return flow.term_has(t, lambda q: q[0] == "call" and q[1].endswith(suffix))


def has_field(t, name):
    return flow.term_has(t, lambda q: q[0] == "field" and q[1] == name)


def has_arg(t):
    return flow.term_has(t, lambda q: q[0] == "arg")


def calls_of(t, suffix):
    out = []

    def w(q):
        if q[0] == "call" and q[1].endswith(suffix):
            out.append(q)
        return False
    flow.term_has(t, w)
    return out


def guards(body):
    return C18.guards(body)


def sides(t):
    if t[0] in ("Ne", "Eq") and len(t) >= 3:
        return t[1], t[2]
    if t[0] == "call" and t[1].endswith(("PartialEq::ne", "PartialEq::eq")) and len(t[2]) == 2:
        return t[2][0], t[2][1]
    return None


def reject_edge(t, z, nz):
    """Edge taken when the compared values differ."""
    if t[0] == "Ne" or (t[0] == "call" and t[1].endswith("::ne")):
        return nz
    if t[0] == "Eq" or (t[0] == "call" and t[1].endswith("::eq")):
        return z
    # boolean result of a validating call (read_tag, flush_zero_padding, is_eof): false edge
    return z


def tybits(s):
    m = re.match(r"^[ui](\d+)$", s)
    if m:
        return int(m.group(1))
    if s in ("usize", "isize"):
        return 64
    if s == "bool":
        return 1
    return None


def bits_of(t):
    """Upper bound on the number of significant bits of an unsigned term."""
    if not isinstance(t, tuple) or not t:
        return 64
    h = t[0]
    if h == "const":
        return max(1, int(t[1]).bit_length())
    if h in ("ok", "okp", "try"):
        return bits_of(t[1])
    if h == "call":
        m = re.search(r"read_u(\d+)$", t[1])
        if m:
            return int(m.group(1))
        if t[1].endswith(("::count", "::len")):
            return 63
        if t[1].endswith("get_multibyte"):
            return 63
        return 64
    if h == "cast":
        tb = tybits(t[1]) or 64
        return min(tb, bits_of(t[2]))
    if h == "Add":
        return max(bits_of(t[1]), bits_of(t[2])) + 1
    if h == "Sub":
        return bits_of(t[1])
    if h == "Mul":
        return bits_of(t[1]) + bits_of(t[2])
    if h == "Shl":
        k = t[2][1] if t[2][0] == "const" else 64
        return bits_of(t[1]) + k
    if h == "Shr":
        k = t[2][1] if t[2][0] == "const" else 0
        return max(1, bits_of(t[1]) - k)
    if h == "BitAnd":
        return min(bits_of(t[1]), bits_of(t[2]))
    if h in ("BitOr", "BitXor"):
        return max(bits_of(t[1]), bits_of(t[2]))
    if h == "field" and isinstance(t[-1], tuple):
        return 64
    return 64


def lossy_ops(t, out=None):
    """Operations inside a comparison operand that can lose information."""
    if out is None:
        out = []
    if not isinstance(t, tuple) or not t:
        return out
    if not isinstance(t[0], str):
        for x in t:
            lossy_ops(x, out)
        return out
    h = t[0]
    if h == "cast" and len(t) >= 4:
        tb, sb = tybits(t[1]), tybits(t[3])
        if tb is not None and sb is not None and tb < sb and bits_of(t[2]) > tb:
            out.append("narrowing cast %s -> %s of %s" % (t[3], t[1], flow.show(t[2])))
    if h in ("Add", "Mul", "Shl") and len(t) >= 4:
        tb = tybits(t[3])
        if tb is not None and bits_of(t) > tb:
            out.append("%s in %s can wrap: %s" % (h, t[3], flow.show(t)))
    if h == "call":
        # the arguments of a call build the value's source (readers, adapters), they are not arithmetic on the
        # compared value - except for value-transparent conversions
        if not (isinstance(t[1], str) and t[1].endswith(("::from", "::into", "::try_from", "::try_into", "::unwrap", "::unwrap_or"))):
            return out
    for x in t[1:]:
        if isinstance(x, tuple):
            lossy_ops(x, out)
    return out


def first_read_block(t):
    """Block of the first input-consuming call mentioned in a term."""
    best = None

    def w(q):
        nonlocal best
        if q[0] == "call" and (re.search(r"read_u\d+$", q[1]) or q[1].endswith(("get_multibyte", "read_tag", "flush_zero_padding",
                                                                              "is_eof", "decode_filter"))):
            if best is None:
                best = q[3]
        return False
    flow.term_has(t, w)
    return best


class Row:
    def __init__(self, rid, what, fn, pred, start=None):
        self.rid = rid
        self.what = what
        self.fn = fn
        self.pred = pred
        self.start = start


def option_some_edge(body, tm, field, before=None):
    """Target of the Some edge of the switch on discr(<...>.field); with several such switches the one whose Some
    edge dominates block `before` (the comparison) and is closest to it."""
    if before is not None:
        c = flow.cfg(body)
        cands = []
        for blk in body.blocks:
            if blk.cleanup or blk.term.k != "switch":
                continue
            t = tm.of_operand(blk.term.discr)
            if t[0] == "discr" and isinstance(t[1], tuple) and t[1][0] == "field" and t[1][1] == field:
                for v, tgt in blk.term.targets:
                    if v == 1 and (c.dominates(tgt, before) or tgt == before):
                        cands.append(tgt)
        if cands:
            best = cands[0]
            for x in cands[1:]:
                if c.dominates(best, x):
                    best = x
            return best
    for blk in body.blocks:
        if blk.cleanup or blk.term.k != "switch":
            continue
        t = tm.of_operand(blk.term.discr)
        if t[0] == "discr" and isinstance(t[1], tuple) and t[1][0] == "field" and t[1][1] == field:
            for v, tgt in blk.term.targets:
                if v == 1:
                    return tgt
    return None


def rows():
    R = []

    def cmp2(t, p1, p2):
        s = sides(t)
        if s is None:
            return False
        a, b = s
        return (p1(a) and p2(b)) or (p1(b) and p2(a))

    R.append(Row(1, "header magic", "StreamHeader::parse",
                 lambda t: t[0] in ("ok", "okp") and has_call(t, "read_tag") and
                 (flow.term_has(t, lambda q: q[0] == "bytes" and tuple(q[1]) == XZ_MAGIC) or
                  flow.term_has(t, lambda q: q[0] == "constval" and "XZ_MAGIC" in q[1] and "FOOTER" not in q[1]))))
    R.append(Row(2, "header CRC32", "StreamHeader::parse",
                 lambda t: cmp2(t, lambda a: has_call(a, "read_u32") and not has_call(a, "finalize"),
                                lambda b: has_call(b, "finalize"))))
    R.append(Row(5, "block header CRC32", "decode::xz::read_block",
                 lambda t: cmp2(t, lambda a: has_call(a, "read_u32") and not has_call(a, "finalize"),
                                lambda b: has_call(b, "finalize"))))
    R.append(Row(6, "block header padding is zero", "decode::xz::read_block_header",
                 lambda t: t[0] in ("ok", "okp") and has_call(t, "flush_zero_padding")))
    R.append(Row(7, "declared compressed size", "decode::xz::read_block",
                 lambda t: cmp2(t, lambda a: has_call(a, "decode_filter"), lambda b: has_field(b, "packed_size")),
                 start=("some", "packed_size")))
    R.append(Row(8, "declared uncompressed size", "decode::xz::read_block",
                 lambda t: cmp2(t, lambda a: has_call(a, "Vec::len") or has_call(a, "::len"),
                                lambda b: has_field(b, "unpacked_size") and has_call(b, "read_block_header")),
                 start=("some", "unpacked_size")))
    R.append(Row(9, "block padding is zero", "decode::xz::read_block",
                 lambda t: cmp2(t, lambda a: has_call(a, "read_u8"), lambda b: b == ("const", 0)) or
                 (t[0] in ("ok", "okp") and _padding_helper_call(t) and has_call(t, "count"))))
    R.append(Row(10, "block check CRC32", "decode::xz::validate_block_check",
                 lambda t: cmp2(t, lambda a: has_call(a, "read_u32"), lambda b: has_call(b, "checksum") and has_arg(b))))
    R.append(Row(10.5, "block check CRC64", "decode::xz::validate_block_check",
                 lambda t: cmp2(t, lambda a: has_call(a, "read_u64"), lambda b: has_call(b, "checksum") and has_arg(b))))
    R.append(Row(11, "index record count", "decode::xz::check_index",
                 lambda t: cmp2(t, lambda a: has_call(a, "get_multibyte"),
                                lambda b: (has_call(b, "::len")) and has_arg(b) and not has_call(b, "get_multibyte"))))
    R.append(Row(12, "index unpadded size", "decode::xz::check_index",
                 lambda t: cmp2(t, lambda a: has_call(a, "get_multibyte"), lambda b: has_field(b, "unpadded_size"))))
    R.append(Row(13, "index uncompressed size", "decode::xz::check_index",
                 lambda t: cmp2(t, lambda a: has_call(a, "get_multibyte"), lambda b: has_field(b, "unpacked_size"))))
    R.append(Row(14, "index padding is zero", "decode::xz::check_index",
                 lambda t: cmp2(t, lambda a: has_call(a, "read_u8"), lambda b: b == ("const", 0)) or
                 (t[0] in ("ok", "okp") and _padding_helper_call(t) and has_call(t, "count"))))
    R.append(Row(15, "index CRC32", "decode::xz::check_index",
                 lambda t: cmp2(t, lambda a: has_call(a, "read_u32") and not has_call(a, "finalize"),
                                lambda b: has_call(b, "finalize"))))
    R.append(Row(16, "footer CRC32", "decode::xz::decode_stream",
                 lambda t: cmp2(t, lambda a: has_call(a, "read_u32") and not has_call(a, "finalize") and not has_call(a, "::count"),
                                lambda b: has_call(b, "finalize"))))
    R.append(Row(17, "backward size vs real index size", "decode::xz::decode_stream",
                 lambda t: cmp2(t, lambda a: has_call(a, "::count"), lambda b: has_call(b, "read_u32"))))
    R.append(Row(18, "footer flags equal header flags", "decode::xz::decode_stream",
                 lambda t: cmp2(t, lambda a: has_field(a, "stream_flags") and has_call(a, "StreamHeader::parse"),
                                lambda b: has_call(b, "StreamFlags::parse") and has_call(b, "read_u16"))))
    R.append(Row(19, "footer magic", "decode::xz::decode_stream",
                 lambda t: t[0] in ("ok", "okp") and has_call(t, "read_tag") and
                 (flow.term_has(t, lambda q: q[0] == "bytes" and tuple(q[1]) == XZ_FOOTER) or
                  flow.term_has(t, lambda q: q[0] == "constval" and "FOOTER" in q[1]))))
    return R


KNOWN_GUARDS = set()        # (function def, block) of every integrity comparison matched by the table (used by C03.R9)


def rule_table(facts):
    r = report.RuleResult("C06.R1", "every integrity field is compared with its counterpart; mismatch -> Err; no Ok path skips it")
    r3 = report.RuleResult("C06.R3", "comparisons are exact: no narrowing cast or wrapping arithmetic on a compared field")
    matched = {}
    find_padding_helpers(facts)
    for row in rows():
        b = facts.body(row.fn) or next((x for x in facts.bodies if short(x.name).endswith(row.fn)), None)
        r.need("function %s" % row.fn, b is not None)
        if b is None:
            continue
        gs, tm = guards(b)
        c = cfg(b)
        oks = flow.ok_blocks(b)
        hit = [(bb, t, z, nz) for (bb, t, z, nz) in gs if safe(row.pred, t)]
        fn = short(b.name)
        if not hit:
            r.bad("row%s|missing" % row.rid, "integrity check missing: %s (no comparison with these operands in %s)"
                  % (row.what, fn), "%s (%s)" % (fn, b.span))
            continue
        matched[row.rid] = len(hit)
        for (bb, t, z, nz) in hit:
            KNOWN_GUARDS.add((b.defk, bb))
            r.sites += 1
            where = "%s (%s)" % (fn, b.blocks[bb].term.span)
            rej = reject_edge(t, z, nz)
            if flow.reaches_ok(b, rej):
                r.bad("row%s|edge" % row.rid, "%s: a mismatch can still end in success" % row.what, where)
            else:
                r.ok("path", {"row": row.rid, "check": row.what, "mismatch": "Err only"})
            # must-pass from the start point
            start = None
            if row.start and row.start[0] == "some":
                start = option_some_edge(b, tm, row.start[1], bb)
            if start is None:
                start = first_read_block(t)
            if start is None:
                start = 0
            if flow.reaches_ok(b, start, avoid=[bb]) and start != bb:
                r.bad("row%s|bypass" % row.rid, "%s: a successful return is reachable without this comparison" % row.what, where)
            else:
                r.ok("must-pass", {"row": row.rid, "from": "bb%d" % start, "comparison": flow.show(t)[:160]})
            # exactness
            r3.sites += 1
            lo = lossy_ops(t)
            if lo:
                r3.bad("row%s|lossy" % row.rid, "%s: %s" % (row.what, "; ".join(lo[:2])), where)
            else:
                r3.ok("term", {"row": row.rid, "exact": flow.show(t)[:140]})
    # constants
    mg = facts.const_val("xz::header::XZ_MAGIC")
    ft = facts.const_val("xz::footer::XZ_MAGIC_FOOTER")
    if isinstance(mg, dict) and tuple(mg.get("bytes", ())) == XZ_MAGIC:
        r.ok("const", {"XZ_MAGIC": list(XZ_MAGIC)})
    else:
        r.bad("const|magic", "header magic constant is not FD 37 7A 58 5A 00: %r" % (mg,), "xz::header::XZ_MAGIC")
    if isinstance(ft, dict) and tuple(ft.get("bytes", ())) == XZ_FOOTER:
        r.ok("const", {"XZ_MAGIC_FOOTER": list(XZ_FOOTER)})
    else:
        r.bad("const|footer", "footer magic constant is not 59 5A: %r" % (ft,), "xz::footer::XZ_MAGIC_FOOTER")
    r.need("all %d table rows matched" % len(rows()), len(matched) >= len(rows()))
    return r, r3


def safe(pred, t):
    try:
        return bool(pred(t))
    except (IndexError, TypeError, AttributeError):
        return False


def rule_digest(facts):
    r = report.RuleResult("C06.R2", "each CRC comparison finalizes the digest that the protected reads were routed through")
    n = 0
    for fnname in ("StreamHeader::parse", "decode::xz::read_block", "decode::xz::check_index", "decode::xz::decode_stream"):
        b = next((x for x in facts.bodies if short(x.name).endswith(fnname) and x.promoted is None), None)
        if b is None:
            continue
        tm = Terms(b)
        fn = short(b.name)
        wraps = []   # (digest call bb, wrapper call bb)
        for blk in b.calls():
            t = blk.term
            if (flow.callee(t) or "").endswith("CrcDigestRead::new") and len(t.args) == 2:
                d = calls_of(tm.of_operand(t.args[1]), "::digest")
                if d:
                    wraps.append((d[0][3], blk.idx))
        fins = []
        for blk in b.calls():
            t = blk.term
            if (flow.callee(t) or "").endswith("::finalize"):
                d = calls_of(tm.of_operand(t.args[0]), "::digest")
                if d:
                    fins.append((d[0][3], blk.idx))
        for dbb, fbb in fins:
            n += 1
            where = "%s (%s)" % (fn, b.blocks[fbb].term.span)
            ws = [w for d, w in wraps if d == dbb]
            if not ws:
                r.bad("%s|digest-unwrapped" % fn, "the finalized digest was never attached to a reader", where)
                continue
            # at least one input read goes through one of these wrappers
            routed = 0
            for blk in b.calls():
                t = blk.term
                dn = flow.declared(t) or ""
                if re.search(r"read_u\d+$", dn) or (flow.callee(t) or "").endswith(("get_multibyte", "read_block_header")) \
                        or dn.endswith("BufReader::new"):
                    a = tm.of_operand(t.args[0])
                    if any(flow.term_has(a, lambda q, w=w: q[0] == "call" and q[1].endswith("CrcDigestRead::new") and q[3] == w)
                           for w in ws):
                        routed += 1
            if routed:
                r.ok("provenance", {"fn": fn, "digest": "bb%d" % dbb, "reads routed through its wrapper": routed})
            else:
                r.bad("%s|digest-unused" % fn, "no read is routed through the digest that is compared", where)
    r.sites = n
    r.need("four digest comparisons (header, block header, index, footer)", n >= 4)
    return r


def rule_records(facts):
    r = report.RuleResult("C06.R4", "the index record of a block is (bytes counted - padding, decoded length)")
    b = next((x for x in facts.bodies if short(x.name).endswith("decode::xz::read_block") and x.promoted is None), None)
    r.need("read_block", b is not None)
    if b is None:
        return r
    tm = Terms(b)
    found = False
    for blk in b.blocks:
        for s in blk.stmts:
            if s.k == "assign" and s.rv.k == "aggregate" and s.rv.agg == "adt" and s.rv.adt_name.endswith("Record"):
                found = True
                r.sites += 1
                f0 = tm.of_operand(s.rv.ops[0])
                f1 = tm.of_operand(s.rv.ops[1])
                where = "%s (%s)" % (short(b.name), s.span)
                if has_call(f0, "::count") and flow.term_has(f0, lambda q: q[0] == "Sub"):
                    r.ok("provenance", {"unpadded_size": flow.show(f0)[:120]})
                else:
                    r.bad("record|unpadded", "record.unpadded_size is not (counted bytes - padding): %s" % flow.show(f0)[:120], where)
                if has_call(f1, "::len"):
                    r.ok("provenance", {"unpacked_size": flow.show(f1)[:120]})
                else:
                    r.bad("record|unpacked", "record.unpacked_size is not the decoded length: %s" % flow.show(f1)[:120], where)
    r.need("Record construction in read_block", found)
    # the check value is computed over the very buffer that is written out
    vb = [blk for blk in b.calls() if (flow.callee(blk.term) or "").endswith("validate_block_check")]
    wa = [blk for blk in b.calls() if (flow.declared(blk.term) or "").endswith("Write::write_all")]
    if vb and wa:
        a = tm.of_operand(vb[0].term.args[1])
        w = tm.of_operand(wa[0].term.args[1])
        la = calls_of(a, "Vec::new")
        lw = calls_of(w, "Vec::new")
        if la and lw and {x[3] for x in la} & {x[3] for x in lw}:
            r.ok("provenance", {"block check covers": "the buffer written to the sink"})
        else:
            r.bad("check|buffer", "the block check is computed over a different buffer than the one written out",
                  "%s (%s)" % (short(b.name), vb[0].term.span))
        c = cfg(b)
        if all(c.dominates(vb[0].idx, o) for o in flow.ok_blocks(b)):
            r.ok("dominance", {"validate_block_check": "dominates every Ok"})
        else:
            r.bad("check|bypass", "a block can be accepted without its check being validated",
                  "%s (%s)" % (short(b.name), vb[0].term.span))
    else:
        r.need("validate_block_check call and output write in read_block", False)
    return r


PADDING_HELPERS = set()     # names of crate functions returning io::Result<bool> that are handed the padding count (filled per run)


def _padding_helper_call(t):
    return flow.term_has(t, lambda q: q[0] == "call" and (("zero_padding" in q[1] and not q[1].endswith("flush_zero_padding")) or q[1] in PADDING_HELPERS))


def find_padding_helpers(facts):
    """Crate functions that return io::Result<bool> and are called from the XZ block / index code with the padding count."""
    PADDING_HELPERS.clear()
    found = {}
    for b in facts.bodies:
        if b.promoted is not None or not short(b.name).startswith("decode::xz::"):
            continue
        tm = None
        for blk in b.calls():
            cal = blk.term.callee
            if cal is None or not cal.target().local:
                continue
            hb = facts.by_def.get(cal.target().defk)
            if hb is None or "Result<bool" not in hb.locals[0].ty.s.replace(" ", ""):
                continue
            tm = tm or Terms(b)
            if any(has_call(tm.of_operand(a), "count") and pat_has_op(tm.of_operand(a)) for a in blk.term.args):
                nm = flow.callee(blk.term) or ""
                if not nm.endswith("flush_zero_padding"):
                    found[cal.target().defk] = nm
                    PADDING_HELPERS.add(flow.declared(blk.term) or nm)
                    PADDING_HELPERS.add(nm)
    return found


def pat_has_op(t):
    from rules import pat
    return pat.has_op(t, ("BitAnd", "BitXor", "Rem", "Sub"))


def rule_padding_helpers(facts):
    """Where a padding check is delegated to a helper returning bool, the helper must be a zero test of every byte: each
    byte compared with 0, or an OR-accumulation compared with 0.  (An XOR / sum accumulation lets pairs of non-zero bytes
    cancel out.)  flush_zero_padding, the scan loop, is decided by C13."""
    r = report.RuleResult("C06.R5", "a delegated padding check tests every byte for zero")
    helpers = dict(find_padding_helpers(facts))
    for b in facts.bodies:
        if b.promoted is not None or not short(b.name).startswith(("decode::xz::", "decode::util::")):
            continue
        for blk in b.calls():
            nm = flow.callee(blk.term) or ""
            cal = blk.term.callee
            if cal is not None and cal.target().local and "zero_padding" in nm and not nm.endswith("flush_zero_padding"):
                helpers[cal.target().defk] = nm
    r.sites = len(helpers)
    for dk, nm in sorted(helpers.items(), key=lambda x: x[1]):
        hb = facts.by_def.get(dk)
        if hb is None:
            continue
        bodies = [hb] + [x for x in facts.bodies if x.promoted is None and x.name.startswith(hb.name.split("::<")[0]) and "closure" in x.name]
        ops = set()
        zero_cmp = False
        for x in bodies:
            for blk in x.blocks:
                if blk.cleanup:
                    continue
                for s_ in blk.stmts:
                    if s_.k == "assign" and s_.rv.k == "binop":
                        op = s_.rv.binop.replace("WithOverflow", "")
                        a_, b_ = s_.rv.a, s_.rv.b
                        byteish = any(o.ty.s in ("u8", "&u8") or (o.ty.k == "ref" and getattr(o.ty, "to", None) is not None and o.ty.to.s == "u8") for o in (a_, b_))
                        if op in ("Eq", "Ne") and (a_.const_int() == 0 or b_.const_int() == 0) and byteish:
                            zero_cmp = True
                        elif byteish and op in ("BitXor", "Add", "Sub", "Mul", "BitAnd", "Shl", "Shr", "BitOr"):
                            ops.add(op)
            for blk in x.calls():
                d_ = (flow.declared(blk.term) or "") + " " + (flow.callee(blk.term) or "")
                for tr, op in (("BitXor::bitxor", "BitXor"), ("BitOr::bitor", "BitOr"), ("Add::add", "Add"), ("Sub::sub", "Sub"), ("Mul::mul", "Mul"),
                               ("BitAnd::bitand", "BitAnd"), ("wrapping_add", "Add"), ("BitXorAssign", "BitXor"), ("BitOrAssign", "BitOr"),
                               ("AddAssign", "Add"), ("Iterator::sum", "Add")):
                    if tr in d_:
                        ops.add(op)
        where = "%s (%s)" % (short(hb.name), hb.span)
        if ops - {"BitOr"}:
            r.bad("%s|accumulation" % short(hb.name).split("::")[-1], "%s combines the padding bytes with %s before the zero test: non-zero bytes "
                  "can cancel out and pass" % (short(hb.name), "/".join(sorted(ops - {"BitOr"}))), where)
        elif zero_cmp:
            r.ok("predicate", {"helper": short(hb.name), "test": "every byte == 0" if not ops else "OR of the bytes == 0"})
        else:
            r.bad("%s|predicate" % short(hb.name).split("::")[-1], "cannot see a comparison of the padding bytes with zero in %s" % short(hb.name), where, "unverifiable")
    if not helpers:
        r.ok("inline", {"padding checks": "inline byte comparisons (rows 9 and 14 of the table)"})
    return r


def rule_read_tag(facts):
    r = report.RuleResult("C06.R4", "a magic is accepted only after all of its bytes were read and compared")
    b = None
    for x in facts.bodies:
        if x.promoted is None and short(x.name).endswith("util::read_tag"):
            b = x
    r.need("decode::util::read_tag", b is not None)
    if b is None:
        return r
    tm = Terms(b)
    c = flow.cfg(b)
    r.sites = 2
    # every Ok(value) returned: value must be the comparison of the whole tag with bytes read by an exact read of
    # tag.len() bytes - a constant `true`, or a value not derived from a full comparison, accepts a truncated magic
    oks = []
    for blk in b.blocks:
        if blk.cleanup:
            continue
        for s_ in blk.stmts:
            if s_.k == "assign" and s_.place.local == 0 and not s_.place.proj and s_.rv.k == "aggregate" and s_.rv.agg == "adt" and \
                    s_.rv.adt_name.endswith("Result") and s_.rv.variant == 0:
                oks.append((blk.idx, tm.of_operand(s_.rv.ops[0])))
    r.need("Ok(..) return of read_tag", bool(oks))
    for bb, t in oks:
        full = has_call(t, "PartialEq::eq") or has_call(t, "cmp::impls::eq") or has_call(t, "PartialEq::ne") or \
            flow.term_has(t, lambda q: q[0] in ("Eq", "Ne"))
        exact = has_call(t, "read_exact") or any((flow.declared(x.term) or "").endswith("read_exact") and c.dominates(x.idx, bb) for x in b.calls())
        sized = flow.term_has(t, lambda q: q[0] == "call" and q[1].endswith("from_elem") and has_call(q, "::len") and has_arg(q)) or \
            any((flow.callee(x.term) or "").endswith("from_elem") and has_call(tm.of_operand(x.term.args[1]), "::len") for x in b.calls())
        if t[0] == "const" or (t[0] == "phi" and any(isinstance(x, tuple) and x[0] == "const" and x[1] == 1 for x in t[1])):
            r.bad("read_tag|constant", "read_tag can return Ok(true) without having compared the whole tag (e.g. when the input ends early)",
                  "%s (%s)" % (short(b.name), b.blocks[bb].term.span))
        elif full and exact and sized and has_arg(t):
            r.ok("term", {"read_tag": "Ok(buf == tag) after read_exact of tag.len() bytes"})
        else:
            r.bad("read_tag|shape", "cannot verify that read_tag compares all bytes of the tag after reading exactly tag.len() bytes: %s"
                  % flow.show(t)[:100], "%s (%s)" % (short(b.name), b.blocks[bb].term.span), "unverifiable")
    return r


def rule_padding_scan(facts):
    """The block-header padding test is delegated to the scan loop flush_zero_padding: a non-zero byte in ANY fragment the reader
    delivers must decide (shared clause: C13.R1's scan idiom restricted to that function - emptiness exit, consume(len), no round
    counter, the verdict carried over the rounds)."""
    from rules import C13
    r = report.RuleResult("C06.R6", "the header-padding scan judges every byte of every fragment (= C13.R1 on flush_zero_padding)")
    src = C13.rule_fill_buf(facts)
    for f in src.findings:
        if "flush_zero_padding" in (f.where + f.key) or f.key.startswith("floor"):
            f.rule = "C06.R6"
            r.findings.append(f)
            r.obligations += 1
    r.sites = src.sites
    r.need("fill_buf sites analysed", src.sites >= 2)
    if not r.findings:
        r.ok("provenance", {"flush_zero_padding": "scan loop: every fragment scanned, verdict not overwritten by a later fragment"})
    return r


def run(ctx, t0):
    facts = ctx.facts()
    r1, r3 = rule_table(facts)
    rules = [r1, rule_digest(facts), r3, rule_records(facts), rule_read_tag(facts), rule_padding_helpers(facts), rule_padding_scan(facts)]
    # rows 3, 4 and 20 are decided by the C18 rules (reserved bits, id table, trailing data)
    rules.append(C18.rule_reserved(facts))
    rules.append(C18.rule_trailing(facts))
    for x in rules[-2:]:
        x.rule = x.rule.replace("C18", "C06/C18")
    expl = ("Static: each integrity comparison of the XZ decoder is located by the data-flow provenance of its two "
            "operands (which read produced the field, which digest/counter/record produced the counterpart); for "
            "each, reachability shows the mismatch edge ends in Err only and that no successful return is reachable "
            "from the field's read without passing the comparison; operand terms are scanned for lossy operations. "
            "Declined: the 'consequently' clause (CRC strength).")
    return report.finish(PROP, ctx.tier, rules, expl, ["documented Read/BufRead contracts"], TRUSTED, t0, None, ctx.seed)
