"""C07 - decoders are total: no panic (R1), no hang (R2), bounded allocation (R3).

R1 decides: every panic-capable construct (MIR Assert terminators with
overflow checks on, panicking std calls, explicit panics) reachable from a
public decoding entry point is refuted by the abstract interpreter, or matches
an argued entry of rules/justified.json.  R2 decides the structural half of
termination: every loop is iterator-driven, or bounded by exact unrolling, or
cannot go round without a call that can consume input or produce output.
R3 decides: every allocation size reachable from the decoders is bounded by
2^23 or is unit growth driven by data.
"""
import time

from engine import report
from engine.cfg import CFG
from rules.common import (TRUSTED, assert_term, call_term, callee_name, cfg_of, declared_name,
                          is_decode_entry, load_justified, operand_term, short)

PROP = "C07"

# external callees that neither panic nor allocate in proportion to an argument
# (modelled ones are handled by E-AI; this list is for reporting only)
ALLOC_CALLEES = {
    "std::vec::from_elem": 1,
    "std::vec::Vec::with_capacity": 0,
    "std::vec::Vec::reserve": 1,
    "std::vec::Vec::reserve_exact": 1,
    "std::vec::Vec::resize": 1,
    "std::string::String::with_capacity": 0,
    "std::io::BufReader::with_capacity": 0,
}
UNIT_GROWTH = {"std::vec::Vec::push", "std::vec::Vec::extend_from_slice"}
ALLOC_LIMIT = 1 << 23

PROGRESS_EXTERNAL = {
    "byteorder::ReadBytesExt::read_u8", "byteorder::ReadBytesExt::read_u16",
    "byteorder::ReadBytesExt::read_u32", "byteorder::ReadBytesExt::read_u64",
    "std::io::Read::read_exact", "std::io::BufRead::consume", "std::io::Read::read",
}
FINITE_ITERATORS = ("std::ops::Range<", "std::slice::Iter<", "std::iter::Enumerate<std::slice::Iter<",
                    "std::iter::Rev<std::ops::Range<", "std::io::Bytes<")


_TERMS = {}


def terms_of(b):
    tm = _TERMS.get(id(b))
    if tm is None:
        from engine.flow import Terms
        tm = Terms(b)
        _TERMS[id(b)] = tm
    return tm


def site_key(facts, o):
    """(function, structural term of the obligation): provenance terms, no
    line numbers and no compiler-generated local numbers."""
    from engine import flow
    b = facts.by_name.get(o["fn"])
    fn = short(o["fn"])
    if b is None:
        return fn, "%s:%s" % (o["kind"], o["desc"])
    t = b.blocks[o["bb"]].term
    tm = terms_of(b)
    if t.k == "assert":
        m = t.msg
        parts = [m["kind"]] + ([m["op"]] if "op" in m else [])
        ops = [flow.show(tm.of_operand(m[k])) for k in ("a", "b", "len", "index") if k in m]
        return fn, "%s(%s)" % (":".join(parts), ",".join(ops))
    if t.k == "call":
        nm = short(t.callee.target().name) if t.callee else "indirect"
        if o["kind"] == "Panic":
            mac = (t.span.macro or "").replace("Macro(Bang, ", "").strip(')"')
            return fn, "Panic:%s@%s" % (nm, mac or "explicit")
        return fn, "%s:%s(%s)" % (o["kind"], nm, ",".join(flow.show(tm.of_operand(a)) for a in t.args[:4]))
    return fn, "%s:%s" % (o["kind"], o["desc"])


_SIDE = {}


def check_side(facts, sc):
    """Mechanical side-conditions of justified entries."""
    key = repr(sorted(sc.items()))
    if key in _SIDE:
        return _SIDE[key]
    from engine import flow
    okk = True
    kind = sc["kind"]
    if kind == "writers":
        seen = 0
        for b in facts.bodies:
            if b.promoted is not None:
                continue
            fnn = short(b.name)
            for blk in b.blocks:
                if blk.cleanup:
                    continue
                for s in blk.stmts:
                    if s.k != "assign":
                        continue
                    w = False
                    for pr in s.place.proj:
                        if pr[0] == "field" and pr[2] == sc["field"] and pr[4] == sc["adt"]:
                            w = True
                    if s.rv.k == "aggregate" and s.rv.agg == "adt" and s.rv.adt_name == sc["adt"]:
                        w = True
                    if s.rv.k == "ref" and s.rv.mut:
                        for pr in s.rv.place.proj:
                            if pr[0] == "field" and pr[2] == sc["field"] and pr[4] == sc["adt"] and sc["field"] != "buf":
                                w = True
                    if w:
                        seen += 1
                        if not any(fnn.endswith(x) for x in sc["only_in"]):
                            okk = False
        if seen == 0:
            okk = False
    elif kind == "validated_store":
        seen = 0
        for b in facts.bodies:
            if b.promoted is not None:
                continue
            c = cfg_of(b)
            vals = [blk.idx for blk in b.calls() if (callee_name(blk.term) or "").endswith(sc["validator"])]
            for blk in b.blocks:
                if blk.cleanup:
                    continue
                for s in blk.stmts:
                    if s.k != "assign":
                        continue
                    st = False
                    for pr in s.place.proj:
                        if pr[0] == "field" and pr[2] == sc["field"] and pr[4] == sc["adt"]:
                            st = True
                    if s.rv.k == "aggregate" and s.rv.agg == "adt" and s.rv.adt_name == sc["adt"]:
                        st = True
                    if st:
                        seen += 1
                        if not any(c.dominates(v, blk.idx) for v in vals):
                            okk = False
        if seen == 0:
            okk = False
    elif kind == "callers_only":
        seen = 0
        for b in facts.bodies:
            if b.promoted is not None:
                continue
            fnn = short(b.name)
            tm = None
            for blk in b.calls():
                if (callee_name(blk.term) or "") != sc["callee"]:
                    continue
                if "receiver_field" in sc:
                    if tm is None:
                        tm = terms_of(b)
                    a = tm.of_operand(blk.term.args[0])
                    if not flow.term_has(a, lambda q: q[0] == "field" and q[1] == sc["receiver_field"]):
                        continue
                seen += 1
                if not any(fnn.endswith(x) for x in sc["only_in"]):
                    okk = False
        if seen == 0:
            okk = False
    elif kind == "table_rows":
        # every construction of the literal table has 1 << (lc + lp) rows where lc and lp belong to the same properties value
        # that the function stores as the decoder's properties (and the fill branch is taken only when lc + lp is unchanged)
        seen = 0
        for b in facts.bodies:
            if b.promoted is not None:
                continue
            tm = None
            for blk in b.calls():
                if (callee_name(blk.term) or "") != sc["callee"]:
                    continue
                seen += 1
                tm = tm or terms_of(b)
                a = tm.of_operand(blk.term.args[1])
                rows = a[2][0] if (isinstance(a, tuple) and a[0] == "agg" and a[1] == "tuple" and a[2]) else None
                good = False
                if rows and rows[0] == "Shl" and rows[1] == ("const", 1) and rows[2][0] == "Add":
                    x, y = rows[2][1], rows[2][2]
                    if x[0] == "field" and y[0] == "field" and {x[1], y[1]} == {"lc", "lp"} and x[2] == y[2] and x[2][0] == "arg":
                        # the same value is what gets stored as lzma_props
                        stored = False
                        for blk2 in b.blocks:
                            for s in blk2.stmts:
                                if s.k == "assign" and ((s.place.proj and s.place.proj[-1][0] == "field" and s.place.proj[-1][2] == sc["field"]) or
                                                        (s.rv.k == "aggregate" and s.rv.agg == "adt" and s.rv.adt_name == sc["adt"])):
                                    t2 = tm.of_rvalue(s.rv, 0)
                                    if flow.term_has(t2, lambda q: q == x[2]):
                                        stored = True
                        good = stored
                if not good:
                    okk = False
        if seen == 0:
            okk = False
    else:
        okk = False
    _SIDE[key] = okk
    return okk


def rule_r1(ctx, results, facts):
    r = report.RuleResult("C07.R1", "panic-freedom of every site reachable from the public decoding API")
    just = load_justified()
    # `..x` and `0..x` are the same slice: one spelling in the keys
    canon = lambda t_: t_.replace("agg(std::ops::RangeTo::RangeTo,", "agg(std::ops::Range::Range,0,")
    jmap = {(j["fn"], canon(j["term"])): j for j in just if j.get("property", "C07") in ("C07", "*")}
    used = set()
    sites = {}
    bad_entries = {}
    rank = {"safe": 0, "unknown": 1, "fail": 2}
    for name, res in results.items():
        if res.error:
            r.bad("analysis:" + name, "abstract interpretation of entry %s failed: %s" % (name, res.error[:400]),
                  kind="unverifiable")
            continue
        for o in res.obligations:
            k = site_key(facts, o)
            cur = sites.get(k)
            if o["verdict"] != "safe":
                bad_entries.setdefault(k, set()).add(name)
            if cur is None or rank[o["verdict"]] > rank[cur["verdict"]]:
                sites[k] = dict(o, entry=name)
        for cal, n in res.unmodelled.items():
            r.bad("unmodelled:" + cal,
                  "call to external function %s is not modelled: it may panic or allocate (reached from %s)"
                  % (cal, name), kind="unverifiable")
    r.sites = len(sites)
    for (fn, term), o in sorted(sites.items()):
        where = "%s:%d (%s)" % (o["file"], o["line"], fn)
        if o["verdict"] == "safe":
            r.ok(o["how"] or "interval", {"fn": fn, "obligation": term, "discharged": o["how"] or "interval"})
            continue
        j = jmap.get((fn, canon(term)))
        if j is not None:
            used.add((fn, canon(term)))
            failed = []
            for sc in j.get("side_conditions", []):
                if sc.get("kind") == "entries_only":
                    # the argument covers the site only when reached from the listed entry points; from any other entry the
                    # interpreter itself must have refuted it
                    extra = sorted(bad_entries.get((fn, term), set()) - set(sc["only_entries"]))
                    if extra:
                        failed.append(dict(sc, reached_from=extra))
                elif not check_side(facts, sc):
                    failed.append(sc)
            if failed:
                r.bad("%s|%s|side" % (fn, term[:120]), "the argument recorded for %s no longer applies: side-condition %s "
                      "does not hold" % (term[:120], failed[0]), where, "unverifiable")
            else:
                r.ok("justified", {"fn": fn, "obligation": term[:200], "discharged": "justified: " + j["reason"][:160]})
            continue
        if o["verdict"] == "fail":
            r.bad("%s|%s" % (fn, term), "panic-capable site is reachable and its failure condition can hold: %s"
                  % term, where, "violated", {"entry": o["entry"], "how": o["how"]})
        else:
            r.bad("%s|%s" % (fn, term), "cannot refute the failure condition of %s" % term, where,
                  "unverifiable", {"entry": o["entry"], "state": o["how"][:500]})
    stale = [k for k in jmap if k not in used]
    if stale:
        r.notes.append("justified.json entries not needed on this tree: %d" % len(stale))
        r.stale = sorted(stale)
    r.need("at least 100 panic-capable sites analysed", r.sites >= 100)
    npre = len([1 for (fn, term), o in sites.items() if o["kind"] == "Precondition"])
    # LzmaDecoder::decompress always; Stream's run state only exists with the "stream" feature
    want = 2 if "stream" in (ctx.default_cfg or "") else 1
    r.need("every construction of the circular window checked for dict_size >= 1 (found %d of %d)" % (npre, want), npre >= want)
    return r


def loops_of(body):
    return cfg_of(body).loops()


def may_progress_set(facts):
    """Crate functions from which a consuming read or an append to the window
    is reachable in the call graph (may-analysis)."""
    direct = set()
    edges = {}
    for b in facts.bodies:
        outs = set()
        for blk in b.calls():
            cal = blk.term.callee
            if cal is None:
                continue
            dn = short(cal.name)
            tn = short(cal.target().name)
            if dn in PROGRESS_EXTERNAL or tn in PROGRESS_EXTERNAL:
                direct.add(b.defk)
            if tn in UNIT_GROWTH:
                direct.add(b.defk)
            if cal.target().local:
                outs.add(cal.target().defk)
            elif cal.trait and cal.local:
                for im in facts.impls:
                    if im["trait"] == cal.trait:
                        for it in im["items"]:
                            if it["name"] == cal.method:
                                outs.add(it["def"])
        edges[b.defk] = outs
    prog = set(direct)
    changed = True
    while changed:
        changed = False
        for d, outs in edges.items():
            if d not in prog and outs & prog:
                prog.add(d)
                changed = True
    return prog


def rule_r2(ctx, results, facts):
    r = report.RuleResult("C07.R2", "every loop reachable from the decoders is bounded or makes progress on each round")
    visited = {}
    wloops = {}
    for res in results.values():
        for fn, s in getattr(res, "visited", {}).items():
            visited.setdefault(fn, set()).update(s)
        for fn, s in getattr(res, "wloops", {}).items():
            wloops.setdefault(fn, set()).update(s)
    prog = may_progress_set(facts)
    # lower bound of the argument of every BufRead::consume call site, over all entries (None: not an integer interval)
    consume_lo = {}
    for res in results.values():
        for (fn_, bb_, cal_), info in getattr(res, "calls", {}).items():
            if cal_.endswith("BufRead::consume") or cal_.endswith("::consume"):
                iv = info["ints"][1] if len(info["ints"]) > 1 else None
                lo = iv[0] if iv is not None else None
                k = (fn_, bb_)
                if k in consume_lo:
                    consume_lo[k] = None if (lo is None or consume_lo[k] is None) else min(lo, consume_lo[k])
                else:
                    consume_lo[k] = lo
    nloops = 0
    for b in facts.bodies:
        vis = visited.get(b.name)
        if not vis:
            continue
        cfg = cfg_of(b)
        for h, blocks, tails in cfg.loops():
            if h not in vis:
                continue
            nloops += 1
            fn = short(b.name)
            where = "%s:%d (%s)" % (b.blocks[h].term.span.file, b.blocks[h].term.span.line, fn)
            # (i) iterator-driven
            it = None
            for x in sorted(blocks):
                t = b.blocks[x].term
                if t.k == "call" and t.callee is not None and t.callee.method == "next" and \
                        (t.callee.trait or "").endswith("Iterator") and x == h:
                    it = t
            if it is not None:
                aty = it.args[0].ty
                tys = aty.to.s if aty.k == "ref" else aty.s
                if tys.startswith(FINITE_ITERATORS):
                    # the iterator must not be written in the loop except by `next`
                    src = it.args[0].place.local if it.args[0].place is not None else None
                    r.ok("iterator", {"fn": fn, "loop": "for over %s" % tys})
                    continue
            # (ii) exactly unrolled by E-AI without reaching the widening node
            from engine.ai import UNROLL_K
            if h not in wloops.get(b.name, set()) and _unrollable(facts, b, h):
                r.ok("exact-unroll", {"fn": fn, "loop": "bounded by %d rounds (exact unrolling)" % UNROLL_K})
                continue
            # (iii) progress on every round
            exits_ok = True
            pblocks = set()
            for x in blocks:
                t = b.blocks[x].term
                if t.k == "call" and t.callee is not None:
                    dn, tn = short(t.callee.name), short(t.callee.target().name)
                    if dn.endswith("BufRead::consume") or tn.endswith("BufRead::consume"):
                        # consume(n) is progress only if n >= 1 on every analysed path (interval of the argument from E-AI)
                        lo = consume_lo.get((b.name, x))
                        if lo is not None and lo >= 1:
                            pblocks.add(x)
                        continue
                    if dn in PROGRESS_EXTERNAL or tn in PROGRESS_EXTERNAL or tn in UNIT_GROWTH:
                        pblocks.add(x)
                    elif t.callee.target().local and t.callee.target().defk in prog:
                        pblocks.add(x)
                    elif t.callee.trait and t.callee.local:
                        pblocks.add(x)
            # is there a cycle through h avoiding all progress blocks?
            sub = {x: [y for y in cfg.succ[x] if y in blocks and y not in pblocks] for x in blocks}
            seen = set()
            st = [y for y in sub.get(h, []) if h not in pblocks]
            cyc = False
            if h in pblocks:
                st = []
            while st:
                x = st.pop()
                if x == h:
                    cyc = True
                    break
                if x in seen:
                    continue
                seen.add(x)
                st.extend(sub.get(x, []))
            if not cyc and pblocks:
                r.ok("progress", {"fn": fn, "loop": "every round passes a consuming/producing call",
                                  "progress_calls": len(pblocks)})
            else:
                r.bad("%s|loop" % fn, "loop can go round without consuming input or producing output", where,
                      "violated")
    r.sites = nloops
    r.need("at least 12 loops analysed", nloops >= 12)
    r.notes.append("declined: that finite input cannot drive unbounded output (range-coder numerics); "
                   "progress is a may-analysis over the call graph")
    return r


def _unrollable(facts, body, h):
    from engine.ai import Interp
    ai = _unrollable.ai
    if ai is None or ai.facts is not facts:
        ai = Interp(facts, {})
        _unrollable.ai = ai
    return ai.unrollable(body).get(h) == h


_unrollable.ai = None


def rule_r3(ctx, results, facts):
    r = report.RuleResult("C07.R3", "allocation sizes are bounded by 2^23 or grow by data actually processed")
    just = load_justified()
    jmap = {(j["fn"], j["term"]): j for j in just}
    calls = {}
    for name, res in results.items():
        for k, v in res.calls.items():
            old = calls.get(k)
            if old is None:
                calls[k] = v
            else:
                ints = []
                for x, y in zip(old["ints"], v["ints"]):
                    ints.append(None if x is None or y is None else (min(x[0], y[0]), max(x[1], y[1])))
                calls[k] = {"ints": ints, "n": old["n"] + v["n"]}
    n = 0
    unit = 0
    for (fn, bb, callee), info in sorted(calls.items()):
        if callee in UNIT_GROWTH:
            unit += 1
            continue
        idx = ALLOC_CALLEES.get(callee)
        if idx is None:
            if any(w in callee for w in ("with_capacity", "reserve", "alloc", "from_elem", "resize")):
                idx = 0 if "with_capacity" in callee else 1
            else:
                continue
        n += 1
        b = facts.by_name.get(fn)
        if b is not None:
            from engine import flow
            tmx = terms_of(b)
            tt = b.blocks[bb].term
            term = "%s(%s)" % (callee, ",".join(flow.show(tmx.of_operand(a)) for a in tt.args[:4]))
        else:
            term = callee
        where = "%s (%s)" % (short(fn), b.blocks[bb].term.span if b else "")
        iv = info["ints"][idx] if idx < len(info["ints"]) else None
        if iv is not None and iv[1] <= ALLOC_LIMIT:
            r.ok("interval", {"fn": short(fn), "alloc": term, "size_upper_bound": iv[1]})
            continue
        j = jmap.get((short(fn), "alloc:" + term))
        if j is not None:
            r.ok("justified", {"fn": short(fn), "alloc": term, "discharged": "justified: " + j["reason"][:160]})
            continue
        r.bad("%s|alloc:%s" % (short(fn), term),
              "allocation size is not bounded (upper bound %s): a header field may drive the allocation"
              % (iv[1] if iv else "unknown"), where, "violated")
    r.sites = n + unit
    r.notes.append("unit-growth sites (push / extend_from_slice): %d" % unit)
    r.need("at least 5 sized allocation sites analysed", n >= 5)
    r.need("window growth site (resize) analysed", any(c == "std::vec::Vec::resize" for (_, _, c) in calls))
    return r


def run(ctx, t0):
    facts = ctx.facts()
    rules = []
    if not facts.forbids_unsafe():
        rr = report.RuleResult("C07.R0", "crate forbids unsafe code")
        rr.bad("forbid_unsafe", "crate attribute forbid(unsafe_code) is missing: pointer-validity panics and UB "
               "are no longer excluded", kind="unverifiable")
        rules.append(rr)
    results = ctx.ai_entries(select=is_decode_entry)
    rules.append(rule_r1(ctx, results, facts))
    rules.append(rule_r2(ctx, results, facts))
    rules.append(rule_r3(ctx, results, facts))
    extra = {
        "entries": {n: {"wall_s": round(r.wall, 1), "obligations": len(r.obligations), "stats": r.stats,
                        "assumed": r.assumed} for n, r in results.items()},
    }
    assumptions = [
        "I/O contracts of the caller-supplied BufRead/Write (read returns n <= buf.len(), read_exact fills or fails)",
        "A-COUNTER: byte counters (window len, CountBufRead.count) stay below 2^63 (needs 2^63 bytes of real I/O)",
        "A-VEC: a Vec never holds more than isize::MAX elements (allocation failure aborts, it does not panic-unwind)",
        "finite inputs for termination; that finite input cannot drive unbounded output is not decided (range-coder numerics)",
    ]
    expl = ("Static: every panic-capable MIR site (overflow/bounds/div asserts, panicking std calls, explicit "
            "panics) reachable from the public decoding API is refuted by abstract interpretation over the "
            "type-checked program (most general client per public type), or matches an argued entry of "
            "rules/justified.json; loops are classified iterator-driven / exactly unrolled / progressing; "
            "allocation sizes are bounded. Nothing is executed.")
    return report.finish(PROP, ctx.tier, rules, expl, assumptions, TRUSTED, t0, extra, ctx.seed)
