"""C08 - LZMA size and end-of-stream rules hold for every option combination.

R1  header bytes per option: read_header consumes 1 + 4 bytes on every path and
    then exactly 8 / 8 / 0 bytes in the ReadFromHeader / ReadHeaderButUseProvided
    / UseProvided arms.
R2  override provenance: the size stored in the returned parameters depends, per
    arm, on the 8-byte field (with the all-ones test yielding None) / on the
    option's payload only / on the option's payload only.
R3  loop exit: the size test is the first thing of every round (shared C16.R3).
R4  final equality: with a size in effect, every successful return of the
    Finish-mode core passes the comparison produced == size whose mismatch edge is
    Err; early successful returns exist only under the Partial mode test.
R5  end marker: ProcessingStatus::Finished is produced only behind the distance
    test == 0xFFFF_FFFF and a true `is_finished_ok()`, whose false edge is Err;
    is_finished_ok requires code == 0 and end of input.
R6  the length handed to the window for a match is the decoded length + 2 (1 for
    a short repeat) and does not depend on the size in effect (no clamping).
"""
from engine import flow, report
from engine.flow import Terms, cfg, short
from rules import pat
from rules.common import TRUSTED

PROP = "C08"


def rule_header(facts):
    r = report.RuleResult("C08.R1", "the three header options consume 13 / 13 / 5 bytes")
    r2 = report.RuleResult("C08.R2", "a caller-supplied size always overrides the header field")
    b = pat.body_of(facts, "LzmaParams::read_header")
    r.need("LzmaParams::read_header", b is not None)
    if b is None:
        return r, r2
    tm = Terms(b)
    c = cfg(b)
    reads = []
    for blk in b.calls():
        w = call_width(facts, blk.term)
        if w:
            reads.append((blk.idx, w))
    other = [blk.idx for blk in b.calls() if (flow.declared(blk.term) or "") in
             ("std::io::Read::read", "std::io::BufRead::consume", "std::io::Read::read_exact", "std::io::BufRead::fill_buf")]
    # the option switch
    sw = None
    for blk in b.blocks:
        if blk.cleanup or blk.term.k != "switch":
            continue
        t = tm.of_operand(blk.term.discr)
        if t[0] == "discr" and pat.has_field(t, "unpacked_size") and pat.has_arg(t, "options"):
            sw = blk
    r.need("switch on options.unpacked_size", sw is not None)
    if sw is None:
        return r, r2
    oks = [o for o, k in flow.ret_sources(b).items() if k == "ok"]
    pre = [(x, w) for x, w in reads if c.dominates(x, sw.idx)]
    r.sites = 4
    if sorted(w for _, w in pre) == [1, 4] and not other:
        r.ok("widths", {"before the option switch": "read_u8 + read_u32 = 5 bytes on every path"})
    else:
        r.bad("read_header|prefix", "properties + dictionary size are not read as 1 + 4 bytes (%s)" % sorted(w for _, w in pre),
              pat.where(b))
    adt = facts.adt("decode::options::UnpackedSize")
    names = {v["index"]: v["name"] for v in adt["variants"]} if adt else {}
    expect = {"ReadFromHeader": 8, "ReadHeaderButUseProvided": 8, "UseProvided": 0}
    arms = {}
    for v, tgt in sw.term.targets:
        arms[names.get(v, str(v))] = tgt
    rest = [n for n in names.values() if n not in arms]
    if len(rest) == 1:
        arms[rest[0]] = sw.term.otherwise
    r.need("three option arms", len(arms) == 3)
    # blocks exclusive to an arm: reachable from its target, not from the others'
    for name, tgt in arms.items():
        mine = c.reachable_from(tgt)
        for n2, t2 in arms.items():
            if n2 != name:
                mine = mine - c.reachable_from(t2)
        ws = sorted(w for x, w in reads if x in mine)
        exp = expect.get(name)
        on_all = all(any(x in mine and c.dominates(x, o) or not (c.reachable_from(tgt) & {o}) for x, w in reads if x in mine)
                     or not ws for o in oks)
        where = pat.where(b, tgt)
        if exp is None:
            r.bad("read_header|arm:%s" % name, "unknown option variant %s" % name, where, "unverifiable")
        elif (ws == [8] and exp == 8) or (ws == [] and exp == 0):
            r.ok("widths", {"arm": name, "bytes": 5 + exp})
        else:
            r.bad("read_header|arm:%s" % name, "option %s consumes %s more bytes, the contract says %d"
                  % (name, ws, exp), where)
    # R2: provenance of the stored size
    stored = None
    for blk in b.blocks:
        for s in blk.stmts:
            if s.k == "assign" and s.rv.k == "aggregate" and s.rv.agg == "adt" and s.rv.adt_name.endswith("LzmaParams"):
                adtp = facts.adt("decode::lzma::LzmaParams")
                fi = [i for i, f in enumerate(adtp["variants"][0]["fields"]) if f["name"] == "unpacked_size"][0]
                stored = s.rv.ops[fi]
    r2.need("LzmaParams construction", stored is not None)
    if stored is not None:
        # the local holding the size is assigned once per arm: look at each arm's definitions
        loc = stored.place.local if stored.place is not None else None
        for _ in range(6):
            ds = tm.defs.get(loc, [])
            if len(ds) == 1 and ds[0][1] != "call" and ds[0][2].rv.k == "use" and ds[0][2].rv.op.place is not None \
                    and not ds[0][2].rv.op.place.proj:
                loc = ds[0][2].rv.op.place.local
            else:
                break
        defs = tm.defs.get(loc, []) if loc is not None else []
        r2.sites = len(defs)
        for (bb, i, node) in defs:
            arm = [n for n, tgt in arms.items() if bb in (c.reachable_from(tgt) - set().union(
                *[c.reachable_from(t2) for n2, t2 in arms.items() if n2 != n]))]
            t = tm.of_def(bb, i, node, 0)
            where = pat.where(b, bb)
            an = arm[0] if arm else "?"
            uses_field = pat.has_call(t, "read_u64") or flow.term_has(
                t, lambda q: q[0] == "call" and helper_width(facts, b, q) == 8)
            uses_opt = pat.has_arg(t, "options")
            if an == "ReadFromHeader":
                if t[0] == "agg" and "None" in t[1]:
                    # must sit on the true edge of the all-ones test
                    r2.ok("term", {"arm": an, "value": "None under the all-ones test"})
                elif uses_field and not uses_opt:
                    r2.ok("provenance", {"arm": an, "value": flow.show(t)[:80]})
                else:
                    r2.bad("read_header|from-header", "ReadFromHeader does not take the size from the header field: %s"
                           % flow.show(t)[:80], where)
            elif an in ("ReadHeaderButUseProvided", "UseProvided"):
                if uses_opt and not uses_field:
                    r2.ok("provenance", {"arm": an, "value": flow.show(t)[:80]})
                else:
                    r2.bad("read_header|override:%s" % an, "with %s the size in effect depends on the header field (%s): "
                           "the caller-supplied value does not override it" % (an, flow.show(t)[:100]), where)
            else:
                r2.bad("read_header|arm?", "size assigned outside the three option arms", where, "unverifiable")
        # the all-ones test
        gs, _ = pat.guards(b)
        if any(pat.cmp_sides(t) and pat.cmp_sides(t)[0] == "Eq" and pat.has_call(t, "read_u64") and
               pat.has_const(t, 0xFFFF_FFFF_FFFF_FFFF) for (_, t, _, _) in gs) or \
                any(flow.term_has(tm.of_def(bb, i, n, 0), lambda q: q[0] == "Eq") for (bb, i, n) in tm.defs.get(0, [])):
            r2.ok("term", {"unknown-size test": "== 0xFFFF_FFFF_FFFF_FFFF"})
        else:
            # the comparison result may be held in a named bool: search statements
            okk = False
            for blk in b.blocks:
                for s in blk.stmts:
                    if s.k == "assign" and s.rv.k == "binop" and s.rv.binop == "Eq":
                        t = tm.of_rvalue(s.rv, 0)
                        if pat.has_call(t, "read_u64") and pat.has_const(t, 0xFFFF_FFFF_FFFF_FFFF):
                            okk = True
            if not okk:
                # the test may live in a helper that reads the field
                for blk in b.calls():
                    if blk.term.callee is not None and blk.term.callee.target().local and call_width(facts, blk.term) == 8:
                        hb = facts.by_def.get(blk.term.callee.target().defk)
                        tmh = Terms(hb)
                        for hblk in hb.blocks:
                            for s in hblk.stmts:
                                if s.k == "assign" and s.rv.k == "binop" and s.rv.binop == "Eq":
                                    th = tmh.of_rvalue(s.rv, 0)
                                    if pat.has_call(th, "read_u64") and pat.has_const(th, 0xFFFF_FFFF_FFFF_FFFF):
                                        okk = True
            if not okk:
                # any comparison on the field (==, !=, a named bool, then_some ..) that singles out the all-ones value
                cands = [t for (_, t, _, _) in gs]
                for blk in b.blocks:
                    for s in blk.stmts:
                        if s.k == "assign" and s.rv.k == "binop" and s.rv.binop in ("Eq", "Ne", "Lt", "Le", "Gt", "Ge"):
                            cands.append(tm.of_rvalue(s.rv, 0))
                for t in cands:
                    if not (pat.cmp_sides(t) and pat.has_call(t, "read_u64")):
                        continue
                    try:
                        tv = [bool(pat.eval_cmp(t, lambda q, v=v: v if pat.has_call(q, "read_u64") else (_ for _ in ()).throw(pat.NotEvaluable(q))))
                              for v in (0, 1, 0xFFFF_FFFF, 0xFFFF_FFFF_FFFF_FFFE, 0xFFFF_FFFF_FFFF_FFFF)]
                    except (pat.NotEvaluable, pat.Overflow):
                        continue
                    if tv in ([False] * 4 + [True], [True] * 4 + [False]):
                        okk = True
            if okk:
                r2.ok("term", {"unknown-size test": "== 0xFFFF_FFFF_FFFF_FFFF"})
            else:
                r2.bad("read_header|all-ones", "the 'size unknown' test is not `field == 0xFFFF_FFFF_FFFF_FFFF`", pat.where(b))
    return r, r2


def call_width(facts, term, depth=0):
    """Bytes a call consumes from the reader on success: exact-width reads, or a
    crate-local helper all of whose successful paths consume the same amount."""
    w = pat.read_width(flow.declared(term))
    if w:
        return w
    if term.callee is None or not term.callee.target().local or depth > 3:
        return 0
    hb = facts.by_def.get(term.callee.target().defk)
    if hb is None:
        return 0
    # only helpers that receive a reader
    if not any("Read" in (g.get("name", "") or "") or True for g in hb.generics):
        return 0
    c = cfg(hb)
    oks = flow.ok_blocks(hb)
    total = 0
    for blk in hb.calls():
        cw = call_width(facts, blk.term, depth + 1)
        if cw:
            if all(c.dominates(blk.idx, o) for o in oks):
                total += cw
            else:
                return None
    return total


def helper_width(facts, body, q):
    """Width consumed by the crate-local callee of call term q (a term of `body`)."""
    try:
        blk = body.blocks[q[3]]
    except (IndexError, TypeError):
        return 0
    if blk.term.k != "call" or blk.term.callee is None or not blk.term.callee.target().local:
        return 0
    return call_width(facts, blk.term)


def core_body(facts):
    cands = [b for b in facts.bodies if b.promoted is None and b.kind == "AssocFn" and
             any(l.ty.k == "adt" and l.ty.name.endswith("ProcessingMode") for l in b.locals[1:b.arg_count + 1]) and
             cfg(b).loops()]
    return cands[0] if len(cands) == 1 else None


def rule_size_writers(facts, rid="C08.R2b"):
    """The size in effect is decided once: by read_header / the caller's parameters, stored by the constructors, replaced
    only through set_unpacked_size (LZMA2, raw reset).  Any other write (or mutable loan) of the two fields changes which
    size is in effect behind the option's back."""
    from rules.C07 import check_side
    r = report.RuleResult(rid, "the size in effect is written only by the header parser, the constructors and set_unpacked_size")
    for adt, only in (("decode::lzma::LzmaParams", ["LzmaParams::read_header", "LzmaParams::new"]),
                      # (the two callers of the setter may as well store the field directly: same effect)
                      ("decode::lzma::DecoderState", ["DecoderState::new", "DecoderState::set_unpacked_size", "LzmaDecoder::reset",
                                                      "Lzma2Decoder::parse_lzma"])):
        r.sites += 1
        sc = {"kind": "writers", "adt": adt, "field": "unpacked_size", "only_in": only}
        if check_side(facts, sc):
            r.ok("who-writes", {"field": "%s.unpacked_size" % adt.split("::")[-1], "writers": only})
        else:
            r.bad("size-writers|%s" % adt.split("::")[-1], "`%s.unpacked_size` is written (or lent mutably) outside %s: the size in effect can "
                  "change after it was decided" % (adt.split("::")[-1], " / ".join(only)), adt)
    # the setter stores its argument, unchanged (the decision which size is in effect is the caller's)
    sb = pat.body_of(facts, "DecoderState::set_unpacked_size")
    if sb is not None:
        r.sites += 1
        tms = Terms(sb)
        sts = [tms.of_rvalue(st_.rv, 0) for blk in sb.blocks if not blk.cleanup for st_ in blk.stmts
               if st_.k == "assign" and st_.place.proj and st_.place.proj[-1][0] == "field" and st_.place.proj[-1][2] == "unpacked_size"]
        if len(sts) == 1 and sts[0][0] == "arg":
            r.ok("provenance", {"set_unpacked_size": "stores its argument"})
        else:
            r.bad("size-writers|setter", "set_unpacked_size does not store exactly the value it is given (%s): a reset / LZMA2 chunk runs with a "
                  "different size than the caller decided" % ([flow.show(x)[:60] for x in sts] or "no store"), pat.where(sb))
    return r


def rule_final(facts):
    r = report.RuleResult("C08.R4", "with a size in effect success implies produced == size (Finish mode)")
    b = core_body(facts)
    r.need("decoding core", b is not None)
    if b is None:
        return r
    gs, tm = pat.guards(b)
    c = cfg(b)
    h, blocks, tails = max(c.loops(), key=lambda l: len(l[1]))
    src = flow.ret_sources(b)
    oks = [o for o, k in src.items() if k in ("ok", "any", "other")]
    final = None
    wrong = None
    for (bb, t, z, nz) in gs:
        s = pat.cmp_sides(t)
        if not s or not pat.has_call(t, "LzBuffer::len") or not pat.has_field(t, "unpacked_size"):
            continue
        if bb in blocks and s[0] in ("Ge", "Gt", "Le", "Lt"):
            continue        # the loop's own "size reached" test (C08.R3)
        # the test after the loop between the size in effect and the produced length, decided by its truth table:
        # it must separate produced == size from everything else (so `!=`, `==`, `<`-or-`>` spellings are the same test,
        # while `>` alone lets a short stream through)
        try:
            tv = {}
            for size in (0, 1, 52, 59, 1 << 32):
                for prod in (0, 1, 51, 52, 53, 59, 60, 1 << 32):
                    def leaf(q, size=size, prod=prod):
                        if q[0] == "field" and pat.has_field(q, "unpacked_size"):
                            return size
                        if q[0] == "call" and q[1].endswith("LzBuffer::len"):
                            return prod
                        raise pat.NotEvaluable(q)
                    tv[(size, prod)] = pat.eval_cmp(t, leaf)
        except (pat.NotEvaluable, pat.Overflow):
            continue
        ne = {k: (k[0] != k[1]) for k in tv}
        if tv == ne:
            final = (bb, t, z, nz, "Ne")
        elif tv == {k: not v for k, v in ne.items()}:
            final = (bb, t, z, nz, "Eq")
        else:
            k = [k for k in tv if tv[k] != ne[k]] if sum(tv[k] != ne[k] for k in tv) <= sum(tv[k] == ne[k] for k in tv) else \
                [k for k in tv if tv[k] == ne[k]]
            wrong = (bb, t, k[0])
    if final is None and wrong is not None:
        bb, t, k = wrong
        r.sites = 1
        r.bad("core|final-test", "the test after the loop (%s) does not separate produced == size from the rest: e.g. size %d with %d bytes "
              "produced is treated like a match" % (flow.show(t)[:70], k[0], k[1]), pat.where(b, bb))
        return r
    r.need("final comparison produced == size after the loop", final is not None)
    if final is None:
        return r
    bb, t, z, nz, op = final
    r.sites = 3
    mismatch = nz if op == "Ne" else z
    if flow.reaches_ok(b, mismatch):
        r.bad("core|final-edge", "a stream that produced a different number of bytes than the size in effect can be accepted",
              pat.where(b, bb))
    else:
        r.ok("path", {"mismatch": "Err only", "test": flow.show(t)[:100]})
    if pat.has_op(t, ("Sub", "Add", "BitAnd", "Shr")) and False:
        pass
    # every Ok source is (a) after the loop and behind the Some/Finish tests with the comparison on the path, or
    # (b) inside the loop under the Partial-mode test
    for o in oks:
        where = pat.where(b, o)
        if partial_guarded(facts, b, gs, c, o):
            r.ok("mode", {"early Ok": "only in Partial mode"})
        elif o in blocks:
            r.bad("core|early-ok", "a successful return inside the loop is not restricted to the streaming mode", where)
        else:
            # final Ok: from the Some edge of the size and the Finish edge of the mode test, must pass bb
            # every test of the Option holding the size: from its Some edge (a size is in effect) this Ok must not be
            # reachable around the comparison, other than through None edges (infeasible: the Option does not change)
            # or the Partial-mode bypass
            somes, nones = [], []
            for blk2 in b.blocks:
                if blk2.cleanup or blk2.term.k != "switch":
                    continue
                t2 = tm.of_operand(blk2.term.discr)
                if t2[0] == "discr" and pat.has_field(t2, "unpacked_size") and not pat.has_call(t2, "Try::branch"):
                    for v, tgt in blk2.term.targets:
                        (somes if v == 1 else nones).append(tgt)
                    if 0 not in dict(blk2.term.targets):
                        nones.append(blk2.term.otherwise)
                    if 1 not in dict(blk2.term.targets):
                        somes.append(blk2.term.otherwise)
            somes = [x for x in somes if x not in nones]
            if not somes:
                r.bad("core|some-edge", "cannot locate a test of the `size in effect`", where, "unverifiable")
                continue
            badp = [e for e in somes if c.some_path(e, [o], avoid=[bb] + nones) and not only_partial_bypass(facts, b, gs, c, e, bb, o, nones)]
            if badp:
                r.bad("core|final-bypass", "with a size in effect a successful return is reachable without the final comparison "
                      "(e.g. through the end-marker exit of the loop)", where)
            else:
                r.ok("must-pass", {"Ok": "behind the final comparison when a size is in effect and mode is Finish"})
    return r


def partial_guarded(facts, b, gs, c, blk):
    for (bb, t, z, nz) in gs:
        s = pat.cmp_sides(t)
        if s and s[0] == "Eq":
            vs = pat.promoted_variants(facts, s[1]) + pat.promoted_variants(facts, s[2])
            if any(v[1] == "Partial" for v in vs) and (c.dominates(nz, blk) or nz == blk):
                return True
    # any other spelling of the mode test: not reached in a concrete walk with the mode set to a non-Partial variant
    from rules import C13 as _c13
    return _c13.mode_guarded(facts, b, Terms(b), c, blk)


def option_some_after_loop(b, tm, blocks):
    for blk in b.blocks:
        if blk.cleanup or blk.term.k != "switch" or blk.idx in blocks:
            continue
        t = tm.of_operand(blk.term.discr)
        if t[0] == "discr" and pat.has_field(t, "unpacked_size"):
            for v, tgt in blk.term.targets:
                if v == 1:
                    return tgt
    return None


def only_partial_bypass(facts, b, gs, c, some, cmpbb, o, nones=()):
    """The only way around the comparison is the `mode == Finish` test being false."""
    for (bb, t, z, nz) in gs:
        s = pat.cmp_sides(t)
        if s and s[0] == "Eq":
            vs = pat.promoted_variants(facts, s[1]) + pat.promoted_variants(facts, s[2])
            if any(v[1] == "Finish" for v in vs) and c.dominates(bb, cmpbb):
                # paths avoiding cmpbb must leave through the false edge of this test
                if not c.some_path(some, [o], avoid=[cmpbb, z] + list(nones)):
                    return True
    # any other spelling of the Finish test (`matches!(mode, Finish)`, a flag computed earlier): in a concrete walk with the mode's
    # discriminant set to Finish the Ok is not reached around the comparison
    adt = facts.adt("decode::lzma::ProcessingMode")
    margs = [i for i in range(1, b.arg_count + 1) if b.locals[i].name == "mode"]
    if adt is not None and margs:
        names = [v["name"].split("::")[-1] for v in adt["variants"]]
        if "Finish" in names:
            fi = names.index("Finish")
            tm = Terms(b)

            def cv(blk):
                if (flow.declared(blk.term) or "").endswith("PartialEq::eq") and len(blk.term.args) == 2 and \
                        any(pat.has_arg(tm.of_operand(a_), "mode") for a_ in blk.term.args):
                    vs = [x for a_ in blk.term.args for x in pat.promoted_variants(facts, tm.of_operand(a_))]
                    if len(vs) == 1 and vs[0][1] in names:
                        return int(names.index(vs[0][1]) == fi)
                return None
            dv = lambda pl: fi if (pl.local == margs[0] and not [x for x in pl.proj if x[0] != "deref"]) else None
            if some != o and not pat.walk_concrete(b, c, some, {o}, discr_val=dv, call_val=cv, avoid=[cmpbb] + list(nones)):
                return True
    return False


def rule_marker(facts):
    r = report.RuleResult("C08.R5", "the end marker is accepted only with a finished range coder at end of input")
    sites = []
    for b in facts.bodies:
        if b.promoted is not None:
            continue
        for blk in b.blocks:
            for s in blk.stmts:
                if s.k == "assign" and s.rv.k == "aggregate" and s.rv.agg == "adt" and \
                        s.rv.adt_name.endswith("ProcessingStatus") and s.rv.variant_name == "Finished":
                    sites.append((b, blk.idx))
    r.sites = len(sites)
    r.need("a producer of ProcessingStatus::Finished", len(sites) >= 1)
    if len(sites) > 1:
        r.bad("finished|sites", "ProcessingStatus::Finished is produced at %d sites (one expected)" % len(sites),
              pat.where(sites[1][0], sites[1][1]))
    for b, bb in sites[:1]:
        gs, tm = pat.guards(b)
        c = cfg(b)
        g1 = g2 = None
        for (gb, t, z, nz) in gs:
            s = pat.cmp_sides(t)
            if s and s[0] == "Eq" and pat.has_const(t, 0xFFFF_FFFF) and (c.dominates(nz, bb) or nz == bb):
                g1 = (gb, t)
            x = pat.strip(t)
            if x and x[0] == "call" and x[1].endswith("is_finished_ok") and (c.dominates(nz, bb) or nz == bb):
                g2 = (gb, z)
        if g1:
            r.ok("dominance", {"Finished": "behind distance == 0xFFFF_FFFF", "test": flow.show(g1[1])[:80]})
        else:
            r.bad("finished|marker-test", "Finished is not guarded by the end-marker distance test", pat.where(b, bb))
        if g2 and not flow.reaches_ok(b, g2[1]):
            r.ok("path", {"is_finished_ok false": "Err only"})
        else:
            r.bad("finished|eof-test", "the end marker is accepted without a finished range coder / with bytes left", pat.where(b, bb))
    fo = pat.body_of(facts, "RangeDecoder::is_finished_ok")
    r.need("RangeDecoder::is_finished_ok", fo is not None)
    if fo is not None:
        tm = Terms(fo)
        gs, _ = pat.guards(fo)
        has_code = any(pat.cmp_sides(t) and pat.cmp_sides(t)[0] == "Eq" and pat.has_field(t, "code") and
                       pat.has_const(t, 0) for (_, t, _, _) in gs)
        has_eof = any((flow.callee(blk.term) or "").endswith("is_eof") for blk in fo.calls())
        if has_code and has_eof:
            r.ok("term", {"is_finished_ok": "code == 0 && is_eof()"})
        else:
            r.bad("is_finished_ok|shape", "is_finished_ok no longer requires code == 0 and end of input", pat.where(fo))
    return r


def rule_lengths(facts):
    """Shared with C17 (over/under-production) and C01 (appended length term)."""
    r = report.RuleResult("C08.R6", "match lengths handed to the window do not depend on the size in effect")
    n = 0
    for b in facts.bodies:
        if b.promoted is not None or not b.file.endswith("decode/lzma.rs"):
            continue
        tm = None
        for blk in b.calls():
            t = blk.term
            if t.callee is None or t.callee.method != "append_lz":
                continue
            n += 1
            if tm is None:
                tm = Terms(b)
            ln = prune_decode_args(tm.of_operand(t.args[1]))
            where = pat.where(b, blk.idx)
            if pat.has_field(ln, "unpacked_size") or pat.has_call(ln, "LzBuffer::len") or pat.has_call(ln, "::min") or \
                    pat.has_call(ln, "saturating_sub"):
                r.bad("%s|append-len" % short(b.name), "the copy length depends on the size in effect / the produced "
                      "length (%s): an overshooting match is truncated instead of being an error" % flow.show(ln)[:120], where)
            elif ln == ("const", 1) or (pat.has_call(ln, "LenDecoder::decode") and pat.has_const(ln, 2)):
                r.ok("term", {"append_lz len": flow.show(ln)[:80]})
            else:
                r.bad("%s|append-len-shape" % short(b.name), "unexpected copy length term %s" % flow.show(ln)[:120], where,
                      "unverifiable")
    r.sites = n
    r.need("two append_lz sites in the symbol decoder", n >= 2)
    return r


def prune_decode_args(t):
    """Drop the arguments of the length-decoder call (its position context
    legitimately depends on the produced length)."""
    if not isinstance(t, tuple) or not t:
        return t
    if not isinstance(t[0], str):
        return tuple(prune_decode_args(x) for x in t)
    if t[0] == "call" and t[1].endswith("LenDecoder::decode"):
        return ("call", t[1], (), t[3] if len(t) > 3 else 0)
    return tuple([t[0]] + [prune_decode_args(x) if isinstance(x, tuple) else x for x in t[1:]])


def run(ctx, t0):
    facts = ctx.facts()
    r1, r2 = rule_header(facts)
    from rules import C16
    r3 = C16.rule_completed(facts)
    r3.rule = "C08.R3"
    rules = [r1, r2, r3, rule_size_writers(facts), rule_final(facts), rule_marker(facts), rule_lengths(facts)]
    from rules import C01 as _c01
    rules.append(_c01.automaton_part(facts, "C08.R9", "the end-marker test reads the distance just decoded (rep[0] is stored before it, and stays 0xFFFF_FFFF "
                                     "after an accepted marker)", ("automaton|marker",)))
    if pat.body_of(facts, "decode::stream::Stream::finish") is not None:
        from rules import C15
        ra = C15.rule_allow_incomplete(facts)
        ra.rule = "C08.R7"
        ra.title = "the streaming API's final size / end-state check is skipped only by allow_incomplete"
        for f_ in ra.findings:
            f_.rule = "C08.R7"
        rules.append(ra)
        from rules import C05
        rs = C05.rule_staging(facts)
        rs.rule = "C08.R8"
        rs.title = "header staging of the streaming decoder loses nothing whatever the header length of the option"
        for f_ in rs.findings:
            f_.rule = "C08.R8"
        rules.append(rs)
    expl = ("Static: byte widths of the resolved read callees per option arm, provenance of the stored size per arm, "
            "dominance/path checks of the size test, the final equality and the end-marker acceptance, and the "
            "provenance of the copy length handed to the window. Declined: that the numbers produced equal the "
            "declared ones for a given stream (value-level).")
    return report.finish(PROP, ctx.tier, rules, expl, [], TRUSTED, t0, None, ctx.seed)
