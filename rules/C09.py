"""C09 - match references outside the produced window are always rejected.

R1  in every implementation of the window trait, `last_n` and `append_lz` test
    the distance against the bytes produced (and, for the circular window,
    against the dictionary size) with `dist > bound -> Err`; the failing edge
    reaches only Err, and the tests dominate every access to the buffer and every
    append in the function.
R2  the symbol decoder reaches the window only through the trait (the buffer
    field is private to the window module; the matched-literal byte and all three
    copy forms go through last_n / append_lz).
R3  inside the guarded copy every index handed to the circular window's `get`
    is the running offset that is wrapped at dict_size.
Declined: that guarded cells hold the right bytes (value-level).
"""
from engine import flow, report
from engine.flow import Terms, cfg, short
from rules import pat
from rules.common import TRUSTED

PROP = "C09"
BUF_ACCESS = ("Vec::push", "Vec::resize", "Vec::extend_from_slice", "Vec::copy_within", "slice::copy_within",
              "Index>::index", "IndexMut>::index_mut", "slice::get", "Vec::get", "Vec::insert", "Vec::extend",
              "slice::fill", "Vec::truncate", "Vec::as_mut_slice", "Vec::as_slice", "Vec::set_len")


def touches_buf(tm, term):
    if term.k != "call" or not term.args:
        return False
    nm = flow.callee(term) or ""
    dn = flow.declared(term) or ""
    a0 = tm.of_operand(term.args[0])
    if pat.has_field(a0, "buf") and (any(nm.endswith(x) or dn.endswith(x) for x in BUF_ACCESS) or "Vec" in nm or "slice" in nm):
        return True
    # the window's own accessors / appenders
    if term.callee is not None and term.callee.target().local and (nm.endswith(("::get", "::set", "append_literal", "last_or"))):
        return True
    return False


def _subterms(t, out=None):
    out = [] if out is None else out
    if isinstance(t, tuple):
        if t and isinstance(t[0], str):
            out.append(t)
        for x in t:
            if isinstance(x, tuple):
                _subterms(x, out)
    return out


def find_guards(r, b, gs, c, fn, kinds, dist):
    """Distance guards of one body: ({kind: found}, [guard blocks]).  A guard is a two-way test between the distance and
    a bound (dict_size / bytes produced) one of whose edges reaches only Err; it is decided by its truth table: it must
    reject exactly dist > bound (so `>=` - which refuses the legal dist == bound - and `> bound + 1` are both reported)."""
    need = {k: False for k in kinds}
    gblocks = []
    for (bb, t, z, nz) in gs:
        s = pat.cmp_sides(t)
        if not s:
            continue
        op, a, bnd = s
        if pat.has_arg(a, dist) and not pat.has_arg(bnd, dist):
            dside, bound = a, bnd
        elif pat.has_arg(bnd, dist) and not pat.has_arg(a, dist):
            dside, bound = bnd, a
        else:
            continue
        kind = None
        if pat.has_field(bound, "dict_size") and not pat.has_field(bound, "cursor"):
            kind = "dict_size"
        elif pat.has_field(bound, "len") or (pat.has_call(bound, "Vec::len") and pat.has_field(bound, "buf")):
            kind = "produced"
        if kind is None or kind not in need:
            continue
        rej_nz, rej_z = not flow.reaches_ok(b, nz), not flow.reaches_ok(b, z)
        where = pat.where(b, bb)
        if rej_nz == rej_z:
            continue        # not a rejecting test (both edges go on, or both fail)
        try:
            tv = {}
            for d in (0, 1, 2, 5, 6, 7, 4096, 4097):
                for bv in (0, 1, 5, 6, 4096):
                    def leaf(q, d=d, bv=bv):
                        if q[0] == "arg" and q[2] == dist:
                            return d
                        if q == bound or (q[0] == "field" and q[1] in ("dict_size", "len")) or (q[0] == "call" and q[1].endswith("::len")):
                            return bv
                        raise pat.NotEvaluable(q)
                    truth = pat.eval_cmp(t, leaf)
                    tv[(d, bv)] = truth if rej_nz else (not truth)
        except (pat.NotEvaluable, pat.Overflow):
            continue
        want = {k: k[0] > k[1] for k in tv}
        if r is not None:
            r.sites += 1
        if tv == want:
            need[kind] = True
            gblocks.append(bb)
            if r is not None:
                r.ok("evaluation", {"fn": fn, "guard": "rejects exactly dist > %s" % kind})
        else:
            k = [k for k in sorted(tv, reverse=True) if tv[k] != want[k]][0]
            if r is not None:
                r.bad("%s|%s-guard" % (fn, kind), "the %s guard %s a distance of %d with a bound of %d" % (
                    kind, "rejects" if tv[k] else "accepts", k[0], k[1]), where)
            need[kind] = True       # located (and reported): do not report it as missing as well
            gblocks.append(bb)
    # `bound.checked_sub(dist)` tested for None is the same guard: None exactly when dist > bound
    tmb = Terms(b)
    for blk in b.blocks:
        if blk.cleanup or blk.term.k != "switch" or blk.idx not in c.reach:
            continue
        t = tmb.of_operand(blk.term.discr)
        if not (t[0] == "discr" and isinstance(t[1], tuple) and t[1] and t[1][0] == "call" and str(t[1][1]).endswith("checked_sub")
                and len(t[1][2]) == 2):
            continue
        bound, dterm = t[1][2]
        if not (dterm[0] == "arg" and dterm[2] == dist) or pat.has_arg(bound, dist):
            continue
        kind = None
        if pat.has_field(bound, "dict_size") and not pat.has_field(bound, "cursor"):
            kind = "dict_size"
        elif pat.has_field(bound, "len") or (pat.has_call(bound, "Vec::len") and pat.has_field(bound, "buf")):
            kind = "produced"
        if kind is None or kind not in need:
            continue
        edges = dict(blk.term.targets)
        none_e = edges.get(0)
        some_e = edges.get(1, blk.term.otherwise)
        if none_e is None or flow.reaches_ok(b, none_e) or not flow.reaches_ok(b, some_e):
            continue
        need[kind] = True
        gblocks.append(blk.idx)
        if r is not None:
            r.sites += 1
            r.ok("evaluation", {"fn": fn, "guard": "%s.checked_sub(dist) is None exactly when dist > %s: Err" % (kind, kind)})
    return need, gblocks


def rule_guards(facts):
    r = report.RuleResult("C09.R1", "both distance guards precede every window access in last_n / append_lz of every window")
    impls = [b for b in facts.bodies if b.promoted is None and b.trait == "decode::lzbuffer::LzBuffer" and
             b.item in ("last_n", "append_lz")]
    r.need("last_n and append_lz of two window implementations", len(impls) >= 4)
    for b in impls:
        fn = short(b.name)
        gs, tm = pat.guards(b)
        c = cfg(b)
        circular = b.self_ty is not None and any(
            f["name"] == "dict_size" for f in (facts.adts.get(b.self_ty.defk) or {"variants": [{"fields": []}]})["variants"][0]["fields"])
        kinds = ["produced"] + (["dict_size"] if circular else [])
        need, gblocks = find_guards(r, b, gs, c, fn, kinds, "dist")
        # guards extracted into a local helper `fn check(&self, dist) -> Result<..>` called with `?`
        if not all(need.values()):
            for blk in b.calls():
                cal = blk.term.callee
                if cal is None or not cal.target().local or len(blk.term.args) < 2:
                    continue
                hb = facts.by_def.get(cal.target().defk)
                if hb is None or hb.locals[0].ty.name != "std::result::Result":
                    continue
                di = [i for i, a_ in enumerate(blk.term.args) if tm.of_operand(a_) == ("arg", 2, "dist") or
                      (pat.strip(tm.of_operand(a_)) or (None,))[0] == "arg" and pat.has_arg(tm.of_operand(a_), "dist")]
                if not di or not pat.has_arg(tm.of_operand(blk.term.args[0]), "self"):
                    continue
                hgs, _htm = pat.guards(hb)
                hneed, hg = find_guards(None, hb, hgs, cfg(hb), short(hb.name), kinds, hb.locals[di[0] + 1].name)
                if not all(hneed.values()):
                    continue
                # the success edge of `helper(..)?` in the caller
                for x in b.blocks:
                    if x.cleanup or x.term.k != "switch":
                        continue
                    t = tm.of_operand(x.term.discr)
                    if t[0] == "discr" and any(q[0] == "call" and len(q) > 3 and q[3] == blk.idx for q in _subterms(t)):
                        okedge = dict(x.term.targets).get(0)
                        brk = dict(x.term.targets).get(1)
                        if okedge is not None and (brk is None or not flow.reaches_ok(b, brk)):
                            for k in kinds:
                                need[k] = True
                            gblocks = [okedge] * len(kinds)
                            r.sites += 1
                            r.ok("path", {"fn": fn, "guards": "in helper %s, applied with `?`" % short(hb.name)})
        for k, v in need.items():
            if not v:
                r.bad("%s|missing-%s" % (fn, k), "no `dist > %s` guard (rejecting with Err) in %s" %
                      ("bytes produced" if k == "produced" else "dict_size", fn), pat.where(b))
        # dominance over every buffer access / append
        acc = [blk.idx for blk in b.calls() if touches_buf(tm, blk.term)]
        # the guard on the produced length may itself read buf.len(): exclude pure length reads
        acc = [x for x in acc if not (flow.callee(b.blocks[x].term) or "").endswith(("Vec::len",))]
        for x in acc:
            if all(c.dominates(g, x) or g == x for g in gblocks) and len(gblocks) == len(need):
                r.ok("dominance", None)
            else:
                r.bad("%s|unguarded:%s" % (fn, (flow.callee(b.blocks[x].term) or "").split("::")[-1]),
                      "the window is accessed (%s) before the distance was checked" % (flow.callee(b.blocks[x].term)),
                      pat.where(b, x))
        r.samples.append({"fn": fn, "guards": sorted(need), "guarded accesses": len(acc)})
    return r


def rule_privacy(facts):
    r = report.RuleResult("C09.R2", "the symbol decoder reaches the window only through the guarded trait methods")
    for an in ("decode::lzbuffer::LzCircularBuffer", "decode::lzbuffer::LzAccumBuffer"):
        adt = facts.adt(an)
        r.need(an, adt is not None)
        if adt is None:
            continue
        r.sites += 1
        f = [x for x in adt["variants"][0]["fields"] if x["name"] == "buf"]
        if f and "Restricted" in f[0]["vis"] and "lzbuffer" in f[0]["vis"]:
            r.ok("privacy", {"type": an, "buf": "private to decode::lzbuffer"})
        else:
            r.bad("%s|buf-visible" % an, "the window buffer is visible outside its module (%s)" % (f[0]["vis"] if f else "?"), an)
    # lzma.rs: the matched byte and the copies use last_n / append_lz
    b = pat.body_of(facts, "DecoderState::decode_literal")
    if b is not None:
        r.sites += 1
        lns = [blk for blk in b.calls() if blk.term.callee is not None and blk.term.callee.method == "last_n"]
        tmb = Terms(b)
        prop = all(any((flow.declared(x.term) or "").endswith("Try::branch") and x.term.args and
                       (lambda t_: t_[0] == "call" and len(t_) > 3 and t_[3] == ln.idx)(tmb.of_operand(x.term.args[0])) for x in b.calls()) for ln in lns)
        if lns and prop:
            r.ok("call", {"decode_literal": "matched byte read through last_n, its error propagated with `?`"})
        elif lns:
            r.bad("decode_literal|last_n-error", "the guard's verdict is discarded: the result of last_n is not propagated with `?` (a rejected "
                  "distance is replaced by a made-up byte)", pat.where(b, lns[0].idx))
        else:
            r.bad("decode_literal|last_n", "the matched-literal byte is not read through the guarded last_n", pat.where(b))
    # nothing outside lzbuffer.rs mentions the buf field of a window
    leaks = 0
    for b in facts.bodies:
        if b.promoted is not None or b.file.endswith("lzbuffer.rs"):
            continue
        for blk in b.blocks:
            for s in blk.stmts:
                if s.k == "assign":
                    for pl in ([s.place] + [o.place for o in s.rv.operands() if o.place is not None] +
                               ([s.rv.place] if s.rv.place is not None else [])):
                        for pr in pl.proj:
                            if pr[0] == "field" and pr[2] == "buf" and pr[4] and "lzbuffer" in pr[4]:
                                leaks += 1
    if leaks:
        r.bad("buf|outside-access", "the window buffer is accessed outside its module", "decode::lzbuffer")
    return r


def rule_offsets(facts):
    r = report.RuleResult("C09.R3", "the guarded circular copy reads at the wrapped running offset")
    b = next((x for x in facts.bodies if x.promoted is None and x.trait == "decode::lzbuffer::LzBuffer" and
              x.item == "append_lz" and "Circular" in x.name), None)
    r.need("circular append_lz", b is not None)
    if b is None:
        return r
    gs, tm = pat.guards(b)
    c = cfg(b)
    gets = [blk for blk in b.calls() if (flow.callee(blk.term) or "").endswith("LzCircularBuffer::get")]
    r.sites = len(gets)
    r.need("a get() in the copy loop", len(gets) >= 1)
    # offset < dict_size before the step, so `== dict_size`, `>= dict_size` (and their negations) are the same test
    wrap = any(pat.cmp_sides(t) and pat.cmp_sides(t)[0] in ("Eq", "Ge", "Ne", "Lt") and pat.has_field(t, "dict_size") and
               pat.has_op(t, ("Add",)) for (_, t, _, _) in gs)
    for blk in gets:
        a = tm.of_operand(blk.term.args[1])
        if pat.has_op(a, ("Rem",)) and pat.has_field(a, "dict_size") and pat.has_field(a, "cursor") and pat.has_arg(a, "dist"):
            r.ok("term", {"get(offset)": flow.show(a)[:100]})
        else:
            r.bad("append_lz|offset", "the copy source index is not (dict_size + cursor - dist) %% dict_size advanced "
                  "by one per byte: %s" % flow.show(a)[:100], pat.where(b, blk.idx))
    if wrap:
        r.ok("term", {"wrap": "offset == dict_size -> 0"})
    else:
        r.bad("append_lz|wrap", "the running offset is not wrapped at dict_size", pat.where(b))
    return r


def _ok_srcs(b):
    out = []
    for blk in b.blocks:
        if blk.cleanup:
            continue
        for s in blk.stmts:
            if s.k == "assign" and s.place.local == 0 and not s.place.proj and s.rv.k == "aggregate" and s.rv.agg == "adt" and \
                    s.rv.adt_name.endswith("Result") and s.rv.variant == 0:
                out.append(blk.idx)
    return out


def rule_reset(facts):
    """The bound `bytes produced` is counted since the last dictionary reset: the reset must happen for exactly the
    control bytes the format prescribes (C02.R1, dictionary part) and must empty the window."""
    from rules import C02
    r = report.RuleResult("C09.R4", "the LZMA2 window is emptied at exactly the dictionary resets the format prescribes")
    t = C02.rule_table(facts)
    for f in t.findings:
        if "reset_dict" in f.key or "floor" in f.key or "uncompressed" in f.key:
            f.rule = "C09.R4"
            r.findings.append(f)
            r.obligations += 1
    b = pat.body_of(facts, "LzAccumBuffer::reset")
    r.need("LzAccumBuffer::reset", b is not None)
    r.sites = 2
    if b is not None:
        tm = Terms(b)
        clears = [blk for blk in b.calls() if (flow.callee(blk.term) or "").endswith(("Vec::clear", "Vec::truncate")) and
                  pat.has_field(tm.of_operand(blk.term.args[0]), "buf")]
        zero = [s for blk in b.blocks for s in blk.stmts if s.k == "assign" and s.place.proj and s.place.proj[-1][0] == "field" and
                s.place.proj[-1][2] == "len" and s.rv.k == "use" and s.rv.op.const_int() == 0]
        c = cfg(b)
        zb = [blk.idx for blk in b.blocks for s in blk.stmts if s.k == "assign" and s.place.proj and s.place.proj[-1][0] == "field" and
              s.place.proj[-1][2] == "len" and s.rv.k == "use" and s.rv.op.const_int() == 0]
        oks = [x for x in c.returns if flow.reaches_ok(b, x)] or c.returns
        on_all = bool(clears) and bool(zb) and not any(x in c.reachable_from(0, avoid=[y.idx for y in clears]) for x in _ok_srcs(b)) and \
            not any(x in c.reachable_from(0, avoid=zb) for x in _ok_srcs(b))
        if on_all:
            r.ok("must-pass", {"reset": "every successful path clears buf and zeroes len"})
        else:
            r.bad("reset|effect", "a dictionary reset can succeed without emptying the window (buf cleared on every path: %s; len zeroed: %s): the "
                  "distance guards keep counting bytes from before the reset" % (bool(clears) and not any(x in c.reachable_from(0, avoid=[y.idx for y in clears]) for x in _ok_srcs(b)), bool(zb)), pat.where(b))
    if not r.findings:
        r.ok("evaluation", {"dictionary reset": "for exactly the control bytes >= 0xE0 and status 1"})
    return r


def rule_dict_size(facts):
    """The distance guards compare with the window's dict_size: it must be the header's value (raised to 4096), not more."""
    from rules import C01
    r = report.RuleResult("C09.R5", "the dictionary bound of the guards is the header's dictionary size (minimum 4096)")
    src = C01.rule_header(facts)
    for f in src.findings:
        if "clamp" in f.key:
            f.rule = "C09.R5"
            r.findings.append(f)
            r.obligations += 1
    r.sites = 1
    if not r.findings:
        r.ok("evaluation", {"dict_size in effect": "max(header field, 0x1000)"})
    return r


def run(ctx, t0):
    facts = ctx.facts()
    pat.FACTS = facts
    from rules import C01 as _c01
    rules = [rule_dict_size(facts), _c01.rule_window_size(facts, "C09.R5b"), rule_reset(facts), rule_guards(facts), rule_privacy(facts), rule_offsets(facts),
             _c01.automaton_part(facts, "C09.R6", "the distance handed to the window is rep[0] + 1 in a width that cannot wrap to 0", ("automaton|distance",))]
    expl = ("Static: for each implementor of the window trait (enumerated from the impl list) the distance guards are "
            "located by the provenance of their operands, their failing edges must reach Err only and they must "
            "dominate every buffer access and append of the function; field privacy shows the module is the only "
            "reader of the buffer.")
    return report.finish(PROP, ctx.tier, rules, expl, [], TRUSTED, t0, None, ctx.seed)
