"""C10 - the memory limit is honoured exactly.

R1  plumbing: at every construction of the circular window the limit argument
    is the caller's Options.memlimit (or the raw constructor's argument) with
    default usize::MAX and nothing else - no cast, clamp or arithmetic.
R2  guard: every call that can grow the window's buffer sits behind
    `new_len <= self.memlimit` (true edge), the other edge is Err; the grown
    length is exactly the tested `index + 1`.
R3  the limit has no other effect: it is read only by that guard (and by the
    error message), and the guard is evaluated only when the buffer must grow.
Declined: "never buffers more than m" as a heap measurement (it follows from R2
because the guarded resize is the only growth).
"""
from engine import flow, report
from engine.flow import Terms, cfg, short
from rules import pat
from rules.common import TRUSTED

PROP = "C10"
GROW = ("Vec::resize", "Vec::push", "Vec::extend_from_slice", "Vec::reserve", "Vec::reserve_exact", "Vec::insert",
        "Vec::append", "Vec::extend", "Vec::resize_with", "Vec::with_capacity", "Vec::set_len", "Vec::extend_from_within")
USIZE_MAX = (1 << 64) - 1


def _option_default(b, local, use_bb):
    """`local` is Some(v) -> v, None -> usize::MAX of one Option<usize> argument of b (gated evaluation under both variants)."""
    from engine.flow import PosTerms
    pt = PosTerms(b)
    opts = [i for i in range(1, b.arg_count + 1) if b.locals[i].ty.k == "adt" and b.locals[i].ty.name == "std::option::Option"]
    if len(opts) != 1:
        return False
    try:
        for some, v in ((1, 0), (1, 12345), (1, USIZE_MAX), (0, None)):
            def lf(q, some=some, v=v):
                if q[0] == "discr" and pat.has_arg(q) and flow.term_has(q, lambda z: z[0] == "arg" and z[1] == opts[0]):
                    return some
                if q[0] in ("field", "as") and flow.term_has(q, lambda z: z[0] == "arg" and z[1] == opts[0]) and some:
                    return v
                raise pat.NotEvaluable(q)
            got = pat.eval_gated(b, pt, local, use_bb, lf)
            if got != (v if some else USIZE_MAX):
                return False
    except (pat.NotEvaluable, pat.Overflow):
        return False
    return True


def rule_plumbing(facts):
    r = report.RuleResult("C10.R1", "the window's limit is the caller's Options.memlimit, unmodified")
    n = 0
    for b in facts.bodies:
        if b.promoted is not None:
            continue
        tm = None
        for blk in b.calls():
            if not (flow.callee(blk.term) or "").endswith("LzCircularBuffer::from_stream"):
                continue
            n += 1
            if tm is None:
                tm = Terms(b)
            a = tm.of_operand(blk.term.args[2])
            fn = short(b.name)
            where = pat.where(b, blk.idx)
            lossy = pat.has_op(a, ("Add", "Sub", "Mul", "Shl", "Shr", "BitAnd", "Div", "Rem")) or \
                flow.term_has(a, lambda q: q[0] == "cast") or pat.has_call(a, "::min") or pat.has_call(a, "::max") or \
                pat.has_call(a, "::clamp")
            if lossy:
                r.bad("%s|limit-altered" % fn, "the memory limit is transformed before it reaches the window: %s"
                      % flow.show(a)[:140], where)
                continue
            if pat.has_call(a, "unwrap_or") and pat.has_field(a, "memlimit") and pat.has_const(a, USIZE_MAX):
                r.ok("provenance", {"fn": fn, "limit": "options.memlimit.unwrap_or(usize::MAX)"})
            elif pat.has_field(a, "memlimit") and pat.has_arg(a, "self"):
                # stored by the raw constructor: check that store
                okk = False
                for b2 in facts.bodies:
                    for blk2 in b2.blocks:
                        for s in blk2.stmts:
                            if s.k == "assign" and s.rv.k == "aggregate" and s.rv.agg == "adt" and s.rv.adt_name.endswith("LzmaDecoder"):
                                adt = facts.adt("decode::lzma::LzmaDecoder")
                                fi = [i for i, f in enumerate(adt["variants"][0]["fields"]) if f["name"] == "memlimit"][0]
                                t2 = Terms(b2).of_operand(s.rv.ops[fi])
                                if pat.has_call(t2, "unwrap_or") and pat.has_arg(t2, "memlimit") and pat.has_const(t2, USIZE_MAX) \
                                        and not pat.has_op(t2, ("Add", "Sub", "Mul", "Shl", "Shr", "BitAnd")) \
                                        and not flow.term_has(t2, lambda q: q[0] == "cast"):
                                    okk = True
                                elif s.rv.ops[fi].place is not None and not s.rv.ops[fi].place.proj:
                                    # any other spelling (`match`, `if let`): the stored value as a function of the Option argument
                                    okk = _option_default(b2, s.rv.ops[fi].place.local, blk2.idx)
                if okk:
                    r.ok("provenance", {"fn": fn, "limit": "self.memlimit = memlimit.unwrap_or(usize::MAX)"})
                else:
                    r.bad("%s|limit-store" % fn, "the stored limit is not memlimit.unwrap_or(usize::MAX)", where)
            else:
                r.bad("%s|limit-source" % fn, "the window's limit does not come from Options.memlimit: %s"
                      % flow.show(a)[:140], where)
    r.sites = n
    r.need("two constructions of the circular window (one-shot and streaming)", n >= 2)
    return r


_EG = {}


def growth_by_evaluation(b):
    """The growth discipline of a window method with one index argument, decided by walking its body under valuations of
    (bytes buffered L, index i, limit m): the buffer grows only to a length n <= m; a write that needs no growth or fits the
    limit is never refused; one that needs growth beyond the limit ends in Err without growing.  None if it holds, else the
    counterexample; "?" when the body cannot be walked."""
    if b.defk in _EG:
        return _EG[b.defk]
    from engine.flow import PosTerms
    from rules.C02 import explicit_rejections
    pt = PosTerms(b)
    tm = Terms(b)
    grows = [blk for blk in b.calls() if any((flow.callee(blk.term) or "").endswith(g) for g in GROW) and blk.term.args and
             pat.has_field(tm.of_operand(blk.term.args[0]), "buf")]
    idxargs = [i for i in range(2, b.arg_count + 1) if b.locals[i].ty.s == "usize"]
    res = "?"
    if len(grows) == 1 and len(idxargs) == 1 and (flow.callee(grows[0].term) or "").endswith("Vec::resize"):
        g = grows[0]
        errs = {bb for bb, _ in explicit_rejections(b)}
        oks = {o for o, k in flow.ret_sources(b).items() if k in ("ok", "any", "other")}
        res = None
        try:
            for L in (0, 5):
                for i in (0, 4, 5, 9):
                    for m in (0, 5, 6, 10, USIZE_MAX):
                        def lf(q, L=L, i=i, m=m):
                            if q[0] == "call" and q[1].endswith("::len") and pat.has_field(q, "buf"):
                                return L
                            if q[0] == "arg" and q[1] == idxargs[0]:
                                return i
                            if q[0] == "field" and q[1] == "memlimit":
                                return m
                            raise pat.NotEvaluable(q)
                        got = pat.reached_under(b, pt, 0, lf, {g.idx} | errs | oks, strict=True)
                        grew = g.idx in got
                        refused = bool(got & errs) and not (got & oks)
                        need = L < i + 1
                        if grew:
                            n_ = pat.eval_term(pt.at(g.idx, None).of_operand(g.term.args[1]), lf)
                            if n_ > m:
                                res = "with %d bytes buffered, index %d and a limit of %d the buffer grows to %d bytes" % (L, i, m, n_)
                            elif n_ < i + 1:
                                res = "with %d bytes buffered and index %d the buffer grows to %d bytes only" % (L, i, n_)
                        if res is None and (not need or i + 1 <= m) and (got & errs):
                            res = "with %d bytes buffered, index %d and a limit of %d the write can be refused although it fits" % (L, i, m)
                        if res is None and need and i + 1 > m and (grew or not refused):
                            res = "with %d bytes buffered, index %d and a limit of %d the write is not refused" % (L, i, m)
                        if res is None and need and i + 1 <= m and not grew:
                            res = "with %d bytes buffered, index %d and a limit of %d the buffer does not grow" % (L, i, m)
                        if res:
                            break
                    if res:
                        break
                if res:
                    break
        except (pat.NotEvaluable, pat.Overflow):
            res = "?"
    _EG[b.defk] = res
    return res


def rule_guard(facts):
    r = report.RuleResult("C10.R2", "the window grows only behind new_len <= memlimit, by exactly the tested length")
    r3 = report.RuleResult("C10.R3", "the limit is read by the growth guard only")
    adt = facts.adt("decode::lzbuffer::LzCircularBuffer")
    r.need("LzCircularBuffer", adt is not None)
    grow_sites = []
    mem_reads = []
    for b in facts.bodies:
        if b.promoted is not None or b.self_ty is None or b.self_ty.name != "decode::lzbuffer::LzCircularBuffer":
            continue
        tm = Terms(b)
        gs, _ = pat.guards(b)
        c = cfg(b)
        for blk in b.calls():
            nm = flow.callee(blk.term) or ""
            if any(nm.endswith(g) for g in GROW) and blk.term.args and pat.has_field(tm.of_operand(blk.term.args[0]), "buf"):
                grow_sites.append((b, blk, tm, gs, c))
        # reads of memlimit
        for blk in b.blocks:
            if blk.cleanup:
                continue
            for s in blk.stmts:
                if s.k == "assign":
                    for o in s.rv.operands() + ([] if s.rv.place is None else []):
                        if o.place is not None and any(pr[0] == "field" and pr[2] == "memlimit" for pr in o.place.proj):
                            mem_reads.append((b, blk.idx, "value"))
                    if s.rv.place is not None and any(pr[0] == "field" and pr[2] == "memlimit" for pr in s.rv.place.proj):
                        mem_reads.append((b, blk.idx, "ref"))
    r.sites = len(grow_sites)
    r.need("a growth site of the window buffer", len(grow_sites) >= 1)
    guard_blocks = set()
    for b, blk, tm, gs, c in grow_sites:
        fn = short(b.name)
        where = pat.where(b, blk.idx)
        nm = flow.callee(blk.term)
        found = None
        for (bb, t, z, nz) in gs:
            s = pat.cmp_sides(t)
            if not s:
                continue
            op, x, y = s
            ok_edge = None
            if op == "Le" and pat.has_field(y, "memlimit"):
                ok_edge, rej, tested = nz, z, x
            elif op == "Ge" and pat.has_field(x, "memlimit"):
                ok_edge, rej, tested = nz, z, y
            elif op == "Gt" and pat.has_field(y, "memlimit"):
                ok_edge, rej, tested = z, nz, x
            elif op == "Lt" and pat.has_field(x, "memlimit"):
                ok_edge, rej, tested = z, nz, y
            if ok_edge is None:
                if (op in ("Lt",) and pat.has_field(y, "memlimit")) or (op == "Gt" and pat.has_field(x, "memlimit")):
                    r.bad("%s|guard-strict" % fn, "the limit test is strict (%s): a window of exactly `memlimit` bytes is refused"
                          % flow.show(t)[:80], pat.where(b, bb))
                continue
            if c.dominates(ok_edge, blk.idx) or ok_edge == blk.idx:
                found = (bb, rej, tested, t)
        if not found:
            # not one test dominating the growth (e.g. `if must_grow && over { Err }  if must_grow { resize }`): decide by evaluation
            ev = growth_by_evaluation(b)
            if ev is None:
                r.ok("evaluation", {"fn": fn, "growth": "only to index + 1 <= memlimit; refused exactly when growth beyond the limit is needed"})
                for (bb, t, z, nz) in gs:
                    if pat.has_field(t, "memlimit"):
                        guard_blocks.add((b.defk, bb))
                continue
            r.bad("%s|unguarded-growth:%s" % (fn, nm.split("::")[-1]), "the window buffer grows (%s) without the "
                  "`new_len <= memlimit` test%s" % (nm, "" if ev == "?" else ": " + ev), where)
            continue
        bb, rej, tested, t = found
        guard_blocks.add((b.defk, bb))
        if flow.reaches_ok(b, rej):
            r.bad("%s|guard-edge" % fn, "exceeding the limit does not end in an error", pat.where(b, bb))
        else:
            r.ok("path", {"fn": fn, "over the limit": "Err only"})
        grown = tm.of_operand(blk.term.args[1]) if len(blk.term.args) > 1 else None
        if grown == tested:
            r.ok("term", {"fn": fn, "resize(n)": flow.show(grown)[:60], "tested": flow.show(tested)[:60]})
        else:
            r.bad("%s|guard-quantity" % fn, "the length tested against the limit (%s) is not the length the buffer grows to (%s)"
                  % (flow.show(tested)[:60], flow.show(grown)[:60] if grown else "?"), where)
    # R3
    r3.sites = len(mem_reads)
    for b, bb, kind in mem_reads:
        fn = short(b.name)
        if (b.defk, bb) in guard_blocks or kind == "ref" or b.item == "from_stream":
            r3.ok("who-reads", None)
        elif _feeds_error_builder(facts, b, bb) or not flow.reaches_ok(b, bb):
            # (a read on a path that can only return the error feeds the message of the refusal, nothing else)
            r3.ok("who-reads", None)        # handed to a function that only builds the error value (the message)
        else:
            # reading it in the guard's own block chain (operand copy) is fine: check the block feeds a guard
            gs, tm = pat.guards(b)
            okk = any(pat.has_field(t, "memlimit") and (bb2 == bb or cfg(b).dominates(bb, bb2)) for (bb2, t, _, _) in gs)
            if okk:
                r3.ok("who-reads", None)
            else:
                r3.bad("%s|limit-other-use" % fn, "the memory limit influences something besides the growth guard",
                       pat.where(b, bb))
    # the guard is only evaluated when the buffer must grow
    for b, blk, tm, gs, c in grow_sites[:1]:
        needs = []
        for (bb, t, z, nz) in gs:
            s = pat.cmp_sides(t)
            if s and s[0] in ("Lt", "Gt", "Le", "Ge") and pat.has_call(t, "Vec::len") and not pat.has_field(t, "memlimit"):
                needs.append((bb, t))
        if any(all(c.dominates(nb, gb) for (d, gb) in guard_blocks if d == b.defk) for nb, _ in needs) or \
                (needs and growth_by_evaluation(b) is None):
            r3.ok("dominance", {"limit test": "only when buf.len() < new_len"})
        else:
            r3.bad("%s|guard-always" % short(b.name), "the limit is tested even when the buffer does not need to grow: "
                   "a sufficient limit no longer behaves like no limit", pat.where(b))
    r3.need("reads of the memlimit field", len(mem_reads) >= 1)
    return r, r3


def _feeds_error_builder(facts, b, bb):
    """The limit read in block bb is the argument of a call to a crate function that returns the crate's Error (the message
    of the refusal) - nothing else in the block uses it."""
    t = b.blocks[bb].term
    if t.k != "call" or t.callee is None or not t.callee.target().local:
        return False
    hb = facts.by_def.get(t.callee.target().defk)
    return hb is not None and hb.locals[0].ty.k == "adt" and (hb.locals[0].ty.name or "").endswith("error::Error") and not cfg(hb).loops()


def rule_option_readers(facts):
    """Options.memlimit is a pure limit: it is read where a window is constructed and handed to it - nowhere else.  A read
    anywhere else (header parser, decoder core) lets the limit change what is decoded instead of only bounding memory."""
    r = report.RuleResult("C10.R3b", "Options.memlimit is read only where a window is constructed")
    n = 0
    for b in facts.bodies:
        if b.promoted is not None:
            continue
        reads = []
        for blk in b.blocks:
            if blk.cleanup:
                continue
            places = []
            for s in blk.stmts:
                if s.k == "assign":
                    places += [o.place for o in s.rv.operands() if o.place is not None]
                    if s.rv.place is not None:
                        places.append(s.rv.place)
            if blk.term.k == "switch" and blk.term.discr.place is not None:
                places.append(blk.term.discr.place)
            if blk.term.k == "call":
                places += [a.place for a in blk.term.args if a.place is not None]
            for pl in places:
                if any(pr[0] == "field" and pr[2] == "memlimit" and pr[4] and pr[4].endswith("options::Options") and "decode" in pr[4] for pr in pl.proj):
                    reads.append(blk.idx)
        if not reads:
            continue
        n += 1
        fn = short(b.name)
        builds = any((flow.callee(x.term) or "").endswith(("LzCircularBuffer::from_stream", "LzmaDecoder::new", "LzAccumBuffer::from_stream"))
                     for x in b.calls())
        derived = fn.endswith(("::clone", "::fmt", "::eq", "::default", "::ne")) or b.kind == "Closure"
        if builds or derived:
            r.ok("who-reads", {"fn": fn})
        else:
            r.bad("%s|limit-read" % fn, "Options.memlimit is read in %s, which constructs no window: the limit influences decoding itself" % fn,
                  pat.where(b, reads[0]))
    r.sites = n
    r.need("readers of Options.memlimit (found %d)" % n, n >= 2)
    return r


def rule_limit_rejections(facts):
    """`behaves exactly as without a limit whenever the window needed never exceeds m`: the limit may turn a decode into an
    error only where the buffer is about to grow.  Any other error that is built behind a test on a limit-derived value
    (a pre-check against the dictionary size, the announced size, ...) refuses streams that fit."""
    r = report.RuleResult("C10.R4", "no error is control-dependent on the limit outside the growth test")
    from engine.flow import PosTerms
    bodies = [b for b in facts.bodies if b.promoted is None and b.file.startswith("src/")]
    # limit-carrying fields (by name, started from Options.memlimit) and parameters (by position), to a fixpoint
    tfields = {"memlimit"}
    tparams = {}
    terms = {}

    def tm_of(b):
        if b.defk not in terms:
            terms[b.defk] = Terms(b)
        return terms[b.defk]

    # the limit as a value: through arithmetic, casts, comparisons and std's value combinators - not through the result of
    # a crate function (a window built with the limit is not "the limit"; what the callee does with it is judged there)
    VALUE_FNS = ("std::option::Option::", "std::result::Result::", "std::cmp::", "core::num::", "std::convert::", "std::ops::")

    def walk(t, tp):
        if not isinstance(t, tuple) or not t:
            return False
        if not isinstance(t[0], str):
            return any(walk(x, tp) for x in t)
        if t[0] == "field" and t[1] in tfields and not (len(t) > 2 and isinstance(t[2], tuple) and t[2] and t[2][0] == "call"):
            return True
        if t[0] == "arg" and t[1] in tp:
            return True
        if t[0] == "call":
            if not str(t[1]).startswith(VALUE_FNS):
                return False
            return walk(t[2], tp)
        return any(walk(x, tp) for x in t[1:] if isinstance(x, tuple))

    def tainted(b, t):
        return walk(t, tparams.get(b.defk, ()))

    changed = True
    rounds = 0
    while changed and rounds < 8:
        changed = False
        rounds += 1
        for b in bodies:
            tm = tm_of(b)
            for blk in b.blocks:
                if blk.cleanup:
                    continue
                for st in blk.stmts:
                    if st.k != "assign":
                        continue
                    if st.place.proj and st.place.proj[-1][0] == "field" and st.place.proj[-1][2] and st.place.proj[-1][2] not in tfields:
                        if tainted(b, tm.of_rvalue(st.rv, 0)):
                            tfields.add(st.place.proj[-1][2])
                            changed = True
                    if st.rv.k == "aggregate" and st.rv.agg == "adt" and not st.rv.adt_name.startswith(("std::", "core::")):
                        adt = facts.adt(st.rv.adt_name)
                        if adt and len(adt["variants"]) == 1:
                            for i, op in enumerate(st.rv.ops):
                                fnm = adt["variants"][0]["fields"][i]["name"] if i < len(adt["variants"][0]["fields"]) else None
                                if fnm and fnm not in tfields and tainted(b, tm.of_operand(op)):
                                    tfields.add(fnm)
                                    changed = True
                if blk.term.k == "call" and blk.term.callee is not None and blk.term.callee.target().local:
                    cb = facts.by_def.get(blk.term.callee.target().defk)
                    if cb is None:
                        continue
                    for i, a in enumerate(blk.term.args):
                        if tainted(b, tm.of_operand(a)) and (i + 1) not in tparams.get(cb.defk, set()):
                            tparams.setdefault(cb.defk, set()).add(i + 1)
                            changed = True
    n = 0
    for b in bodies:
        tp = tparams.get(b.defk, set())
        from rules.C02 import explicit_rejections
        rej = explicit_rejections(b)
        if not rej:
            continue
        c = cfg(b)
        pt = PosTerms(b)
        term_at = lambda b_: pt.at(b_.idx, None).of_operand(b_.term.discr)
        grows = [x.idx for x in b.calls() if any(g in (flow.callee(x.term) or "") for g in GROW)]
        for bb, var in rej:
            if bb not in c.reach:
                continue
            conds = pat.branch_conditions(b, c, bb, term_at)
            lim = [(gb, t) for (gb, t, cond) in conds if tainted(b, t)]
            if not lim:
                continue
            n += 1
            # the growth test: the same test's other edge leads to the growth of the buffer
            bad = [(gb, t) for (gb, t) in lim if not any(c.dominates(gb, g) for g in grows)]
            if bad and grows and growth_by_evaluation(b) is None:
                bad = []      # the function's refusals are exactly "growth beyond the limit is needed" (decided by evaluation)
            if not bad:
                r.ok("growth-test", {"fn": short(b.name)})
            else:
                r.bad("%s|limit-rejection" % short(b.name), "an error is built behind a test on the memory limit (%s) in a function that does not "
                      "grow the window there: streams whose needed window fits the limit can be refused" % flow.show(bad[0][1])[:120],
                      pat.where(b, bb))
    r.sites = n
    r.notes.append("limit-carrying fields: %s; functions receiving the limit: %d" % (sorted(tfields), len(tparams)))
    r.need("the growth tests themselves are seen as limit-dependent rejections (found %d)" % n, n >= 2)
    return r


def run(ctx, t0):
    facts = ctx.facts()
    r2, r3 = rule_guard(facts)
    rules = [rule_plumbing(facts), r2, r3, rule_option_readers(facts), rule_limit_rejections(facts)]
    # the window needed is min(dictionary size, bytes produced): the ring wraps exactly at dict_size and never holds more
    from rules import C01 as _c01
    r5 = _c01.rule_window(facts)
    r5.rule = "C10.R5"
    r5.title = "the window never holds more than dict_size bytes (wrap exactly at dict_size, growth within [index + 1, dict_size])"
    for f in r5.findings:
        f.rule = "C10.R5"
    rules.append(r5)
    expl = ("Static: provenance of the limit argument at every construction of the window, who-may-grow enumeration of "
            "the buffer with dominance of the limit test and equality of the tested and the grown length, who-reads "
            "enumeration of the limit field; limit taint (fields by name, parameters by position) against the guards of every error construction.")
    return report.finish(PROP, ctx.tier, rules, expl, [], TRUSTED, t0, None, ctx.seed)
