"""C11 - decoders consume exactly the compressed payload and nothing after it.

R1  exact-width consumption only: every call reached from the one-shot entry
    points (E-AI reachability) that can consume from the caller's reader is an
    exact-width read (read_uN / read_exact), a peek (fill_buf), an adapter's own
    read, or acts on a reader limited by io::Take (header padding scan).
R2  stop at the size: the size test is the first thing of every round of the
    decoding loop (ordering comparison), and after the loop nothing consumes.
R3  preamble and normalisation: RangeDecoder::new reads exactly 1 + 4 bytes and
    dominates every successful return of the functions that create it from the
    caller's reader; normalize reads one byte only under `range < 2^24`.
R4  LZMA2 end: after control byte 0 nothing consumes input.
R5  whole-file decoders reject trailing bytes: XZ (is_eof) and the LZMA end
    marker (is_finished_ok) - shared with C06/C18 and C08.
Declined: lock-step with a conforming encoder (range-coder numerics).
"""
from engine import flow, report
from engine.flow import Terms, cfg, short
from rules import pat
from rules.common import TRUSTED, is_decode_entry

PROP = "C11"

EXACT = ("byteorder::ReadBytesExt::read_u8", "byteorder::ReadBytesExt::read_u16",
         "byteorder::ReadBytesExt::read_u32", "byteorder::ReadBytesExt::read_u64", "std::io::Read::read_exact")
PEEK = ("std::io::BufRead::fill_buf",)
VARIABLE = ("std::io::Read::read", "std::io::BufRead::consume", "std::io::Read::read_to_end",
            "std::io::Read::read_to_string", "std::io::BufRead::read_until", "std::io::BufRead::read_line",
            "std::io::Read::bytes", "std::io::BufRead::skip_until")
CONSUMING_CRATE = ("process_next", "read_partial_input_buf", "try_process_next")


def rule_widths(ctx, facts):
    r = report.RuleResult("C11.R1", "on the one-shot paths input is consumed by exact-width reads only")
    res = ctx.ai_entries(select=lambda e: is_decode_entry(e) and "Stream" not in e[2])
    errs = [n for n, x in res.items() if x.error]
    if errs:
        r.bad("ai", "reachability analysis failed for %s" % errs, kind="unverifiable")
        return r
    visited = {}
    for x in res.values():
        for fnn, s in x.visited.items():
            visited.setdefault(fnn, set()).update(s)
    n = 0
    for b in facts.bodies:
        vis = visited.get(b.name)
        if not vis or not b.file.startswith("src/"):
            continue
        tm = None
        for blk in b.calls():
            if blk.idx not in vis:
                continue
            t = blk.term
            dn = flow.declared(t) or ""
            cal = flow.callee(t) or ""
            fn = short(b.name)
            where = "%s (%s)" % (fn, t.span)
            if dn in EXACT or dn in PEEK:
                n += 1
                r.ok("exact" if dn in EXACT else "peek", None)
                continue
            if dn in VARIABLE:
                n += 1
                if b.trait in ("std::io::Read", "std::io::BufRead") and b.item in ("read", "consume", "fill_buf"):
                    r.ok("adapter", {"fn": fn, "forwards": dn.split("::")[-1]})
                    continue
                # a reader limited by Take: every caller passes a Take-limited reader
                if tm is None:
                    tm = Terms(b)
                if limited_by_take(facts, b, visited):
                    r.ok("take-limited", {"fn": fn, "call": dn.split("::")[-1], "reader": "limited by io::Take at every call site"})
                    continue
                r.bad("%s|variable:%s" % (fn, dn.split("::")[-1]), "a one-shot decoder consumes a reader-dependent "
                      "amount of input (%s): bytes after the payload may be swallowed" % dn, where)
            elif cal.endswith("BufReader::new") or "BufReader::with_capacity" in cal:
                n += 1
                aty = t.args[-1].ty.s
                if "std::io::Take<" in aty:
                    r.ok("take-limited", {"fn": fn, "BufReader over": "Take"})
                elif aty.startswith("&[u8]") or aty.startswith("&'") and "[u8]" in aty:
                    r.ok("in-memory", {"fn": fn, "BufReader over": "a byte slice"})
                else:
                    r.bad("%s|bufreader" % fn, "a BufReader over the caller's reader reads ahead past the payload", where)
    r.sites = n
    r.need("at least 30 consuming call sites reached from the one-shot entries", n >= 30)
    return r


def limited_by_take(facts, b, visited, depth=0):
    """All (visited) call sites of b pass a reader whose type contains io::Take
    (following generic wrappers up to their concrete callers)."""
    found = False
    for x in facts.bodies:
        vis = visited.get(x.name)
        if not vis:
            continue
        for blk in x.calls():
            if blk.idx not in vis or blk.term.callee is None:
                continue
            if blk.term.callee.target().defk == b.defk:
                found = True
                args = blk.term.callee.target().args
                tys = " ".join(getattr(a, "s", "") for a in args)
                if "std::io::Take<" in tys:
                    continue
                if depth < 4 and any(getattr(a, "k", "") == "param" for a in args) and limited_by_take(facts, x, visited, depth + 1):
                    continue
                return False
    return found


def rule_stop(facts):
    from rules import C16
    r = C16.rule_completed(facts)
    r.rule = "C11.R2"
    r.title = "the decoding loop stops as soon as the size is reached and consumes nothing afterwards"
    # after the loop: no consuming call
    for b in facts.bodies:
        if b.promoted is not None or b.kind != "AssocFn":
            continue
        if not (any(l.ty.k == "adt" and l.ty.name.endswith("ProcessingMode") for l in b.locals[1:b.arg_count + 1])
                and cfg(b).loops()):
            continue
        c = cfg(b)
        h, blocks, tails = max(c.loops(), key=lambda l: len(l[1]))
        gs, tm = pat.guards(b)
        after = set()
        for (bb, t_, z, nz) in gs:
            s = pat.cmp_sides(t_)
            if bb in blocks and s and s[0] in ("Ge", "Gt", "Le", "Lt") and pat.has_call(t_, "LzBuffer::len") and \
                    pat.has_field(t_, "unpacked_size"):
                for e in (z, nz):
                    if e not in blocks:
                        after |= c.reachable_from(e)
        after -= blocks
        bad = []
        for x in after:
            tt = b.blocks[x].term
            if tt.k == "call":
                dn = flow.declared(tt) or ""
                cal = flow.callee(tt) or ""
                if dn in EXACT or dn in VARIABLE or dn in PEEK or any(k in cal for k in CONSUMING_CRATE) or \
                        cal.endswith(("is_eof", "is_finished_ok")):
                    bad.append(cal or dn)
        r.sites += 1
        if bad:
            r.bad("%s|after-loop" % short(b.name), "after the size is reached the decoder still touches the input (%s)"
                  % ", ".join(sorted(set(bad))[:3]), pat.where(b))
        else:
            r.ok("path", {"after the loop": "no call on the input"})
    return r


def rule_preamble(facts):
    r = report.RuleResult("C11.R3", "the range-coder preamble is exactly 5 bytes and is read on every successful decode")
    new = pat.body_of(facts, "RangeDecoder::new")
    r.need("RangeDecoder::new", new is not None)
    if new is not None:
        widths = []
        for blk in new.calls():
            w = pat.read_width(flow.declared(blk.term))
            if w:
                widths.append(w)
            dn = flow.declared(blk.term) or ""
            if dn in VARIABLE or dn in PEEK:
                widths.append(-100)
        r.sites += 1
        c = cfg(new)
        if sorted(widths) == [1, 4] and not c.loops():
            r.ok("widths", {"RangeDecoder::new reads": "1 + 4 bytes"})
        else:
            r.bad("new|widths", "the preamble reads %s bytes, the format has 1 + 4" % widths, pat.where(new))
    nz = pat.body_of(facts, "RangeDecoder::normalize")
    r.need("RangeDecoder::normalize", nz is not None)
    if nz is not None:
        gs, tm = pat.guards(nz)
        c = cfg(nz)
        reads = [blk.idx for blk in nz.calls() if (flow.declared(blk.term) or "") in EXACT + VARIABLE]
        r.sites += 1
        okk = len(reads) == 1 and pat.read_width(flow.declared(nz.blocks[reads[0]].term)) == 1
        guard = None
        for (bb, t, z, nzed) in gs:
            s = pat.cmp_sides(t)
            if s and s[0] == "Lt" and pat.has_field(s[1], "range") and s[2] == ("const", 0x0100_0000):
                guard = (bb, nzed)
        if okk and guard and c.dominates(guard[1], reads[0]):
            r.ok("guard", {"normalize": "one read_u8 under range < 2^24"})
        else:
            r.bad("normalize|shape", "normalisation does not read exactly one byte under `range < 0x0100_0000`", pat.where(nz))
    # creators from the caller's reader: the preamble dominates every Ok
    for b in facts.bodies:
        if b.promoted is not None or not b.file.startswith("src/decode/") or "stream" in b.file:
            continue
        cs = [blk for blk in b.calls() if (flow.callee(blk.term) or "").endswith("RangeDecoder::new")]
        if not cs:
            continue
        r.sites += 1
        c = cfg(b)
        oks = flow.ok_blocks(b)
        if all(any(c.dominates(x.idx, o) for x in cs) for o in oks):
            r.ok("dominance", {"fn": short(b.name), "RangeDecoder::new dominates": "%d Ok sources" % len(oks)})
        else:
            r.bad("%s|preamble-skipped" % short(b.name), "a successful return is reachable without reading the "
                  "5-byte range-coder preamble: the reader is left inside the payload", pat.where(b))
    return r


def rule_lzma2_end(facts):
    r = report.RuleResult("C11.R4", "after the LZMA2 end byte nothing consumes input")
    b = pat.chunk_loop_body(facts)
    r.need("the LZMA2 chunk loop", b is not None)
    if b is None:
        return r
    gs, tm = pat.guards(b)
    c = cfg(b)
    found = False
    for (bb, t, z, nz) in gs:
        s = pat.cmp_sides(t)
        if s and s[0] == "Eq" and pat.has_call(s[1], "read_u8") and s[2] == ("const", 0) and not pat.spine_ops(s[1]):
            found = True
            r.sites += 1
            reach = c.reachable_from(nz)
            # stop at the loop header: the end edge leaves the loop
            bad = []
            loops = c.loops()
            inloop = set().union(*[blocks for _, blocks, _ in loops]) if loops else set()
            for x in reach:
                if x in inloop:
                    bad.append("loops back")
                    break
                tt = b.blocks[x].term
                if tt.k == "call":
                    dn = flow.declared(tt) or ""
                    if dn in EXACT or dn in VARIABLE or dn in PEEK:
                        bad.append(dn)
            if bad:
                r.bad("lzma2|after-end", "after control byte 0 the decoder still reads input (%s)" % bad[0], pat.where(b, bb))
            else:
                r.ok("path", {"status == 0": "leaves the loop; no read until return"})
    if not found:
        # any other spelling of the dispatch (`match status { 0 => break, .. }`): walk the loop body under status = 0 and look at
        # what is reachable until the function returns
        from engine.flow import PosTerms
        ptb = PosTerms(b)
        reads = [blk.idx for blk in b.calls() if (flow.declared(blk.term) or "").endswith("read_u8") and c.loop_blocks_of(blk.idx)]
        if len(reads) == 1:
            heads = {h for h, blocks, _ in c.loops() if reads[0] in blocks}
            lf = lambda q: 0 if (pat.has_call(q, "read_u8") and q[0] in ("ok", "okp", "try", "call", "cast")) else (_ for _ in ()).throw(pat.NotEvaluable(q))
            readers = {blk.idx for blk in b.calls() if blk.idx != reads[0] and
                       ((flow.declared(blk.term) or "") in EXACT or (flow.declared(blk.term) or "") in VARIABLE or (flow.declared(blk.term) or "") in PEEK or
                        (flow.callee(blk.term) or "").endswith(("parse_lzma", "parse_uncompressed")))}
            got = pat.reached_under(b, ptb, b.blocks[reads[0]].term.target, lf, readers | set(c.returns) | heads)
            found = True
            r.sites += 1
            if got & heads:
                r.bad("lzma2|after-end", "after control byte 0 the decoder goes round the chunk loop again", pat.where(b, reads[0]))
            elif got & readers:
                r.bad("lzma2|after-end", "after control byte 0 the decoder still reads input", pat.where(b, reads[0]))
            else:
                r.ok("path", {"status == 0": "leaves the loop; no read until return (walk under status = 0)"})
    r.need("end-of-stream control byte test", found)
    return r


def rule_entries(facts):
    """The embedded formats (.lzma payload with a known size or an end marker, raw LZMA2) end where the decoder stops:
    the public one-shot entry points hand the reader to the header parser / the decoder and touch it nowhere else - in
    particular they do not test for trailing data (only the XZ decoder, a whole-file format, does)."""
    r = report.RuleResult("C11.R6", "the one-shot LZMA / LZMA2 entry points use the reader only through the header parser and the decoder")
    n = 0
    allowed = ("LzmaParams::read_header", "LzmaDecoder::decompress", "Lzma2Decoder::decompress", "LzmaDecoder::new", "Lzma2Decoder::new",
               "decode::xz::decode_stream")
    for b in facts.bodies:
        if b.promoted is not None or b.vis != "public" and "pub" not in str(b.vis):
            pass
        fn = short(b.name)
        if fn not in ("lzma_decompress", "lzma_decompress_with_options", "lzma2_decompress") and \
                not fn.endswith(("LzmaDecoder::decompress", "Lzma2Decoder::decompress")):
            continue
        n += 1
        tm = Terms(b)
        for blk in b.calls():
            nm = flow.callee(blk.term) or ""
            d_ = flow.declared(blk.term) or ""
            rty = None
            for i_ in range(b.arg_count):
                if (b.locals[i_ + 1].name or "") == "input":
                    rty = b.locals[i_ + 1].ty
            def is_reader(a):
                if a.ty.k != "ref" or not pat.has_arg(tm.of_operand(a), "input"):
                    return False
                t_ = tm.of_operand(a)
                while isinstance(t_, tuple) and t_ and t_[0] in ("ref", "deref"):
                    t_ = t_[1]
                return isinstance(t_, tuple) and t_[0] == "arg" and t_[2] == "input"
            uses = any(is_reader(a) for a in blk.term.args)
            if not uses:
                continue
            if fn.endswith("::decompress"):
                # inside the raw decoders the reader goes to the range decoder / the chunk parsers only
                if nm.endswith(("RangeDecoder::new", "parse_lzma", "parse_uncompressed", "decompress_chunks")) or \
                        (blk.term.callee is not None and blk.term.callee.target().local and not nm.endswith(("is_eof", "flush_zero_padding", "read_tag"))) or \
                        d_.endswith("read_u8"):
                    continue
            elif nm.endswith(allowed) or nm.endswith(("lzma_decompress_with_options",)):
                continue
            r.bad("%s|reader-use:%s" % (fn.split("::")[-1], (nm or d_).split("::")[-1]), "%s also hands its reader to %s: the bytes after the payload "
                  "belong to the caller (an embedded stream must decode in place)" % (fn, nm or d_), pat.where(b, blk.idx))
    r.sites = n
    r.need("the one-shot LZMA / LZMA2 entry points (found %d)" % n, n >= 3)
    if not r.findings:
        r.ok("who-uses", {"reader": "header parser and decoder only"})
    return r


def run(ctx, t0):
    facts = ctx.facts()
    rules = [rule_widths(ctx, facts), rule_stop(facts), rule_preamble(facts), rule_lzma2_end(facts), rule_entries(facts)]
    from rules import C18
    r5 = C18.rule_trailing(facts)
    r5.rule = "C11.R5"
    rules.append(r5)
    expl = ("Static: E-AI reachability from the one-shot entry points selects the consuming call sites; each is "
            "classified by its resolved callee and reader type; path and dominance checks fix the position of the "
            "size test, the 5-byte preamble and the LZMA2 end byte.")
    return report.finish(PROP, ctx.tier, rules, expl, ["documented Read/BufRead contracts; io::Take yields EOF at its limit"],
                         TRUSTED, t0, None, ctx.seed)
