"""C12 - I/O failures propagate; nothing written is lost or reordered.

R1  no dropped error: every call returning Result<_, io::Error | error::Error>
    has its value propagated (`?`, returned, map_err), or matched with an Err
    arm from which no successful return is reachable.  Swallowing idioms are an
    explicit table (enclosing function, callee) and must read from an
    in-memory Cursor<&[u8]>.
R2  raw `Write::write` / `Read::read`: inside an adapter's own write/read the
    accounted amount must be the inner call's returned count; elsewhere the
    returned count must be consumed by the code (loop/condition/arithmetic).
R3  flush on success: decompress/finish entry points pass through
    LzBuffer::finish; every finish implementation writes the pending window
    slice with write_all and flushes on every Ok path.
R4  nothing after a failed sink write: from the Break edge of `?` on a
    write/flush of the sink only error conversion and drops follow.
"""
from engine import flow, report
from engine.flow import Terms, cfg, short
from rules.common import TRUSTED
from rules import pat

PROP = "C12"

ERR_TYPES = ("std::io::Error", "error::Error")

# accepted swallowing idioms: (enclosing fn, callee) -> reason
SWALLOW_OK = {
    ("decode::lzma::DecoderState::process_mode", "decode::lzma::DecoderState::try_process_next"):
        "dry run over bytes already in memory: failure means 'need more input'",
    ("decode::stream::Stream::read_header", "decode::rangecoder::RangeDecoder::new"):
        "preamble not complete yet: retry on the next write",
    ("decode::stream::Stream::read_header", "decode::lzma::LzmaParams::read_header"):
        "HeaderTooShort: retry on the next write; other errors are returned",
}


def is_err_result(ty):
    if ty.k != "adt" or ty.name != "std::result::Result" or len(ty.args) != 2:
        return False
    e = ty.args[1]
    return getattr(e, "k", None) == "adt" and e.name in ERR_TYPES


def local_uses(body):
    """local -> list of (bb, kind, node) for every mention of the bare local
    or a projection of it."""
    uses = {}

    def add(l, bb, kind, node):
        uses.setdefault(l, []).append((bb, kind, node))

    for b in body.blocks:
        if b.cleanup:
            continue
        for i, s in enumerate(b.stmts):
            if s.k != "assign":
                continue
            rv = s.rv
            for o in rv.operands():
                if o.place is not None:
                    add(o.place.local, b.idx, ("operand", o.k, o.place, s), s)
            if rv.place is not None:
                add(rv.place.local, b.idx, ("place", rv.k, rv.place, s), s)
        t = b.term
        if t.k == "call":
            for ai, a in enumerate(t.args):
                if a.place is not None:
                    add(a.place.local, b.idx, ("arg", ai, a.place, t), t)
        elif t.k == "switch" and t.discr.place is not None:
            add(t.discr.place.local, b.idx, ("switch", None, t.discr.place, t), t)
        elif t.k == "drop":
            add(t.place.local, b.idx, ("drop", None, t.place, t), t)
    return uses


def classify_result(facts, body, uses, local, origin, r, depth=0, seen=None):
    """Follow a Result-typed local to its sinks.  Returns list of
    (verdict, detail) with verdict in 'ok' | 'swallow' | 'dropped'."""
    seen = seen or set()
    if local in seen or depth > 6:
        return [("ok", "cycle")]
    seen.add(local)
    out = []
    if local == 0:
        return [("ok", "returned")]
    us = uses.get(local, [])
    consumed = False
    for (bb, kind, node) in us:
        k0 = kind[0]
        if k0 == "arg":
            t = node
            dn = flow.declared(t) or ""
            if dn.endswith("Try::branch"):
                consumed = True
                out.append(("ok", "?"))
            elif dn.endswith("Result::map_err") or dn.endswith("Result::map") or dn.endswith("Result::and_then") \
                    or dn.endswith("Result::or_else"):
                consumed = True
                out.extend(classify_result(facts, body, uses, t.dest.local, origin, r, depth + 1, seen))
            elif dn.endswith(("Result::is_err", "Result::is_ok")):
                consumed = True
                out.append(("swallow", dn.split("::")[-1]))
            elif dn.endswith(("Result::ok", "Result::unwrap_or", "Result::unwrap_or_default", "Result::unwrap_or_else",
                              "Result::err")):
                if kind[2].proj:
                    continue
                consumed = True
                out.append(("swallow", dn.split("::")[-1]))
            elif dn.endswith(("Result::unwrap", "Result::expect")):
                consumed = True
                out.append(("swallow", "unwrap (panics instead of returning the error)"))
            elif kind[2].proj == () and kind[1] is not None:
                # moved into another function: treat as handled there (crate-local handlers are rare)
                consumed = True
                out.append(("ok", "passed to %s" % dn.split("::")[-1]))
        elif k0 == "operand":
            s = node
            pl = kind[2]
            if pl.proj:
                # payload moved out: counts as consumption of that variant
                continue
            if s.rv.k == "use" and not s.place.proj:
                consumed = True
                out.extend(classify_result(facts, body, uses, s.place.local, origin, r, depth + 1, seen))
            elif s.rv.k == "aggregate":
                # moved into a tuple/struct field: follow the field of the aggregate
                consumed = True
                idx = [i for i, o in enumerate(s.rv.ops) if o.place is not None and o.place.local == local]
                agg = s.place.local
                found = False
                for (bb2, kind2, node2) in uses.get(agg, []):
                    if kind2[0] == "operand" and kind2[2].proj and kind2[2].proj[0][0] == "field" and \
                            kind2[2].proj[0][1] in idx and len(kind2[2].proj) == 1 and node2.rv.k == "use":
                        found = True
                        out.extend(classify_result(facts, body, uses, node2.place.local, origin, r, depth + 1, seen))
                if not found:
                    out.append(("ok", "stored in aggregate"))
        elif k0 == "place":
            s = node
            if kind[1] == "discriminant" and not kind[2].proj:
                consumed = True
                out.append(("match", (bb, s)))
            elif kind[1] == "ref" and not kind[2].proj and not s.place.proj:
                # `&res` handed to is_err / is_ok: a swallowing inspection
                for (bb2, kind2, node2) in uses.get(s.place.local, []):
                    if kind2[0] == "arg":
                        d2 = flow.declared(node2) or ""
                        if d2.endswith(("Result::is_err", "Result::is_ok")):
                            consumed = True
                            out.append(("swallow", d2.split("::")[-1]))
    if not consumed:
        out.append(("dropped", "value is never inspected"))
    return out


def err_edge_of_match(body, bb, stmt):
    """For `_d = discriminant(_x); switchInt(_d)`: target taken for Err (1)."""
    blk = body.blocks[bb]
    t = blk.term
    if t.k != "switch":
        return None
    for v, tgt in t.targets:
        if v == 1:
            return tgt
    # switchInt(d) -> [0: ok, otherwise: err]
    if any(v == 0 for v, _ in t.targets):
        return t.otherwise
    return None


def rule_r1(facts):
    r = report.RuleResult("C12.R1", "no error of a fallible call is dropped or swallowed")
    n = 0
    swallow_seen = set()
    for b in facts.bodies:
        if b.promoted is not None or b.trait in ("std::fmt::Debug", "std::fmt::Display"):
            continue
        uses = None
        for blk in b.calls():
            t = blk.term
            dty = t.dest.ty
            if not is_err_result(dty):
                continue
            dn = flow.declared(t) or ""
            if dn.endswith(("Try::branch", "FromResidual::from_residual", "Result::map_err")):
                continue
            n += 1
            cal = flow.callee(t) or "indirect"
            fn = short(b.name)
            where = "%s (%s)" % (fn, t.span)
            if t.dest.local == 0 and not t.dest.proj:
                r.ok("returned", None)
                continue
            if t.dest.proj:
                r.ok("stored", None)
                continue
            if uses is None:
                uses = local_uses(b)
            res = classify_result(facts, b, uses, t.dest.local, blk.idx, r)
            bad = False
            # a later re-inspection dominated by the Ok arm of an earlier match sees only Ok
            matches = [d for v, d in res if v == "match"]
            ok_targets = []
            for mbb, st in matches:
                tt = b.blocks[mbb].term
                if tt.k == "switch":
                    for v, tgt in tt.targets:
                        if v == 0:
                            ok_targets.append((mbb, tgt))
            cdom = cfg(b)
            res = [(v, d) for v, d in res if not (v == "match" and any(
                m0 != d[0] and cdom.dominates(tgt, d[0]) for m0, tgt in ok_targets))]
            for verdict, detail in res:
                if verdict == "dropped":
                    r.bad("%s|dropped:%s" % (fn, cal), "the Result of %s is dropped: an I/O failure would go unnoticed" % cal, where)
                    bad = True
                elif verdict == "swallow":
                    key = (fn, cal)
                    if key in SWALLOW_OK:
                        swallow_seen.add(key)
                        check_cursor_reader(facts, b, t, r, fn, cal, where)
                    else:
                        r.bad("%s|swallow:%s" % (fn, cal), "the error of %s is swallowed (%s)" % (cal, detail), where)
                        bad = True
                elif verdict == "match":
                    mbb, st = detail
                    e = err_edge_of_match(b, mbb, st)
                    if e is None:
                        continue
                    if flow.reaches_ok(b, e) and _returns_it(b, cdom, e, t.dest.local):
                        continue        # the inspected Result itself is what the function returns on this edge
                    if flow.reaches_ok(b, e):
                        key = (fn, cal)
                        if key in SWALLOW_OK:
                            swallow_seen.add(key)
                            check_cursor_reader(facts, b, t, r, fn, cal, where)
                        else:
                            r.bad("%s|swallow-match:%s" % (fn, cal),
                                  "an Err of %s can be followed by a successful return (error swallowed)" % cal, where)
                            bad = True
            if not bad:
                r.ok("propagated", None)
    r.sites = n
    r.samples.append({"fallible call sites": n, "accepted swallowing idioms matched": sorted("%s <- %s" % k for k in swallow_seen)})
    r.need("at least 120 fallible call sites", n >= 120)
    return r


def _returns_it(b, c, start, local):
    """Every value returned on the paths from `start` is the Result held in `local` (moved or copied, unchanged)."""
    reach = c.reachable_from(start)
    seen = False
    aliases = {local}
    changed = True
    while changed:
        changed = False
        for x in sorted(reach):
            for st in b.blocks[x].stmts:
                if st.k == "assign" and not st.place.proj and st.rv.k == "use" and st.rv.op.place is not None and \
                        not st.rv.op.place.proj and st.rv.op.place.local in aliases and st.place.local not in aliases and st.place.local != 0:
                    aliases.add(st.place.local)
                    changed = True
    for x in reach:
        for st in b.blocks[x].stmts:
            if st.k == "assign" and st.place.local == 0 and not st.place.proj:
                if st.rv.k == "use" and st.rv.op.place is not None and not st.rv.op.place.proj and st.rv.op.place.local in aliases:
                    seen = True
                else:
                    return False
        tt = b.blocks[x].term
        if tt.k == "call" and tt.dest.local == 0 and not tt.dest.proj:
            return False
    return seen


def check_cursor_reader(facts, body, t, r, fn, cal, where):
    """The accepted swallowing idioms only ever read an in-memory cursor."""
    if cal.endswith("try_process_next"):
        tb = facts.by_def.get(t.callee.target().defk)
        if tb is not None:
            okk = any(l.ty.s.startswith("std::io::Cursor<&") for l in tb.locals)
            if okk:
                r.ok("cursor-reader", {"fn": fn, "swallow": cal, "reader": "Cursor<&[u8]> built inside the dry run"})
            else:
                r.bad("%s|swallow-reader:%s" % (fn, cal), "dry run no longer reads an in-memory cursor", where)
        return
    # Stream::read_header: its reader type parameter is instantiated with Cursor<&[u8]> at every call site
    callers = []
    for b in facts.bodies:
        for blk in b.calls():
            c = blk.term.callee
            if c is not None and c.target().defk == body.defk:
                callers.append((b, blk.term))
    okk = bool(callers) and all(any(getattr(a, "s", "").startswith("std::io::Cursor<&") for a in c.target().args)
                                for _, c in [(x, y.callee) for x, y in callers])
    if okk:
        r.ok("cursor-reader", {"fn": fn, "swallow": cal, "reader": "Cursor<&[u8]> at all %d call sites" % len(callers)})
    else:
        r.bad("%s|swallow-reader:%s" % (fn, cal),
              "the swallowed error may come from a caller-supplied reader (not an in-memory cursor)", where)


def rule_r2(facts):
    r = report.RuleResult("C12.R2", "short writes / short reads: the returned count is accounted exactly")
    nw = nr = 0
    for b in facts.bodies:
        if b.promoted is not None:
            continue
        tm = None
        for blk in b.calls():
            t = blk.term
            dn = flow.declared(t) or ""
            if dn not in ("std::io::Write::write", "std::io::Read::read"):
                continue
            which = "write" if dn.endswith("write") else "read"
            if which == "write":
                nw += 1
            else:
                nr += 1
            fn = short(b.name)
            where = "%s (%s)" % (fn, t.span)
            if tm is None:
                tm = Terms(b)
            is_adapter = b.trait in ("std::io::Write", "std::io::Read") and b.item == which
            me = ("call", dn, None, blk.idx)

            def is_count(q):
                return q[0] == "call" and q[1] == dn and q[3] == blk.idx

            if is_adapter:
                # every integer field update and every digest update must use the returned count
                okk = True
                for blk2 in b.blocks:
                    if blk2.cleanup:
                        continue
                    for s in blk2.stmts:
                        if s.k == "assign" and s.place.proj and s.place.proj[-1][0] == "field" and \
                                s.place.ty.is_int() and s.rv.k != "ref":
                            term = tm.of_rvalue(s.rv, 0)
                            if not flow.term_has(term, is_count):
                                okk = False
                                r.bad("%s|account:%s" % (fn, s.place.proj[-1][2]),
                                      "adapter accounts %s instead of the count returned by the inner %s"
                                      % (flow.show(term), which), where)
                    t2 = blk2.term
                    if t2.k == "call" and (flow.callee(t2) or "").endswith("::update"):
                        term = tm.of_operand(t2.args[1]) if len(t2.args) > 1 else None
                        if term is not None and not flow.term_has(term, is_count):
                            okk = False
                            r.bad("%s|digest" % fn, "adapter digests %s, not the bytes actually transferred"
                                  % flow.show(term), where)
                # the adapter returns the same count
                rets = []
                for blk2 in b.blocks:
                    for s in blk2.stmts:
                        if s.k == "assign" and s.place.local == 0 and s.rv.k == "aggregate" and s.rv.variant == 0:
                            rets.append(tm.of_operand(s.rv.ops[0]))
                    if blk2.term.k == "call" and blk2.term.dest.local == 0 and blk2.idx == blk.idx:
                        rets.append(me[:2] + ((), blk.idx))
                if rets and not all(flow.term_has(x, is_count) for x in rets):
                    okk = False
                    r.bad("%s|return" % fn, "adapter returns a count different from the inner call's", where)
                if okk:
                    r.ok("adapter", {"fn": fn, "inner": which, "accounting": "by returned count"})
                continue
            # non-adapter: the count must be consumed here, or by every caller when it is returned
            used = count_used(b, tm, is_count)
            if not used and (t.dest.local == 0 or returned_payload(b, tm, is_count)):
                callers = []
                for b2 in facts.bodies:
                    for blk2 in b2.calls():
                        c2 = blk2.term.callee
                        if c2 is not None and c2.target().defk == b.defk:
                            callers.append((b2, blk2))
                allu = bool(callers)
                for b2, blk2 in callers:
                    tm2 = Terms(b2)
                    nm2 = flow.declared(blk2.term)

                    def is_c2(q, nm2=nm2, i2=blk2.idx):
                        return q[0] == "call" and q[1] == nm2 and q[3] == i2
                    if not count_used(b2, tm2, is_c2):
                        allu = False
                if allu:
                    used = ["callers (%d)" % len(callers)]
            if used:
                r.ok("count-used", {"fn": fn, "call": which, "count flows into": used[:3]})
            else:
                r.bad("%s|raw-%s" % (fn, which),
                      "raw %s whose returned count is not handled here: a short %s loses data (use %s)"
                      % (which, which, "write_all" if which == "write" else "read_exact or a loop"), where)
    r.sites = nw + nr
    r.need("at least 2 raw write sites (the Write adapters)", nw >= 2)
    r.need("at least 4 raw read sites", nr >= 4)
    return r


def returned_payload(b, tm, is_count):
    for blk in b.blocks:
        for s in blk.stmts:
            if s.k == "assign" and s.place.local == 0 and s.rv.k == "aggregate" and s.rv.ops:
                if flow.term_has(tm.of_operand(s.rv.ops[0]), is_count):
                    return True
    return False


def count_used(b, tm, is_count):
    """Where does the Ok payload of the raw call flow inside this body?"""
    used = []
    for blk in b.blocks:
        if blk.cleanup:
            continue
        if blk.term.k == "switch":
            t = tm.of_operand(blk.term.discr)
            if t[0] != "discr" and flow.term_has(t, is_count) and flow.term_has(
                    t, lambda q: q[0] in ("Eq", "Ne", "Lt", "Le", "Gt", "Ge")):
                used.append("condition")
        for s in blk.stmts:
            if s.k == "assign" and s.rv.k in ("binop",) and s.rv.binop.startswith(("Add", "Sub")):
                t = tm.of_rvalue(s.rv, 0)
                if flow.term_has(t, is_count):
                    used.append("arithmetic")
        if blk.term.k == "call":
            dn = flow.declared(blk.term) or ""
            if dn.endswith(("set_position", "consume")) or "Range" in dn:
                for a in blk.term.args:
                    if flow.term_has(tm.of_operand(a), is_count):
                        used.append(dn.split("::")[-1])
    return used


def rule_r3(facts):
    r = report.RuleResult("C12.R3", "on success every pending byte is handed to the sink and the sink is flushed")
    impls = [b for b in facts.bodies if b.trait == "decode::lzbuffer::LzBuffer" and b.item == "finish" and b.promoted is None]
    r.need("two LzBuffer::finish implementations", len(impls) >= 2)
    for b in impls:
        fn = short(b.name)
        r.sites += 1
        tm = Terms(b)
        flush = flow.calls_in(b, lambda t: (flow.declared(t) or "") == "std::io::Write::flush")
        wall = flow.calls_in(b, lambda t: (flow.declared(t) or "") == "std::io::Write::write_all")
        oks = [x for x, k in flow.ret_sources(b).items() if k in ("ok", "any", "other")]
        c = cfg(b)
        where = "%s (%s)" % (fn, b.span)
        if not flush or not all(any(c.dominates(f, o) for f in flush) for o in oks):
            r.bad("%s|flush" % fn, "a successful finish does not flush the sink", where)
        else:
            r.ok("dominance", {"fn": fn, "flush dominates": "%d Ok sources" % len(oks)})
        good = False
        for w in wall:
            t = b.blocks[w].term
            term = tm.of_operand(t.args[1])
            if flow.term_has(term, lambda q: q[0] == "field" and q[1] == "buf"):
                good = True
                # the write must not be skippable when data is pending: either it dominates
                # Ok, or the only bypass is the `cursor > 0` / emptiness test
                if all(c.dominates(w, o) for o in oks):
                    r.ok("dominance", {"fn": fn, "write_all(buf)": "dominates Ok"})
                else:
                    byp = bypass_guard(b, tm, w, oks)
                    if byp:
                        r.ok("guarded", {"fn": fn, "write_all(buf)": "skipped only when " + byp})
                    else:
                        r.bad("%s|write_all-bypass" % fn, "pending window bytes can be skipped on a successful finish", where)
        if not good:
            r.bad("%s|write_all" % fn, "finish does not write the pending window bytes with write_all", where)
    # entry points reach finish on every Ok path
    entries = [b for b in facts.bodies if b.kind in ("Fn", "AssocFn") and b.promoted is None and
               (short(b.name).endswith(("LzmaDecoder::decompress", "Lzma2Decoder::decompress", "Stream::finish")))]
    r.need("three flushing entry points", len(entries) >= 3)
    for b in entries:
        fn = short(b.name)
        r.sites += 1
        fin = flow.calls_in(b, lambda t: t.callee is not None and t.callee.method == "finish" and
                            ((t.callee.trait or "").endswith("LzBuffer") or "lzbuffer" in (flow.callee(t) or "")))
        src = flow.ret_sources(b)
        oks = [x for x, k in src.items() if k in ("ok",)]
        anys = [x for x, k in src.items() if k in ("any", "other")]
        c = cfg(b)
        where = "%s (%s)" % (fn, b.span)
        bad = [o for o in oks if not any(c.dominates(f, o) for f in fin)]
        # Stream::finish has an Ok(output) for a stream that never got data: allowed when nothing was decoded
        bad = [o for o in bad if not header_only_ok(b, o)]
        if bad or not fin:
            r.bad("%s|finish" % fn, "a successful return does not pass through LzBuffer::finish (window not flushed)", where)
        else:
            r.ok("dominance", {"fn": fn, "LzBuffer::finish dominates": "%d Ok sources" % len(oks)})
    return r


def header_only_ok(b, o):
    """Ok(output) of Stream::finish in the Header state (no window exists yet)."""
    tm = Terms(b)
    for s in b.blocks[o].stmts:
        if s.k == "assign" and s.place.local == 0 and s.rv.k == "aggregate" and s.rv.ops:
            t = tm.of_operand(s.rv.ops[0])
            if flow.term_has(t, lambda q: q[0] == "as" and q[1] == "Header"):
                return True
    return False


def bypass_guard(b, tm, w, oks):
    """If write_all(buf) is bypassed, the bypass must be a test `x > 0` / `x == 0`
    on the amount pending."""
    c = cfg(b)
    for blk in b.blocks:
        if blk.cleanup or blk.term.k != "switch":
            continue
        if c.dominates(blk.idx, w):
            t = tm.of_operand(blk.term.discr)
            if t[0] in ("Gt", "Ne", "Eq", "Lt") and (t[2] == ("const", 0) or t[1] == ("const", 0)):
                other = t[1] if t[2] == ("const", 0) else t[2]
                if flow.term_has(other, lambda q: q[0] == "field" and q[1] in ("cursor", "len")) or \
                        flow.term_has(other, lambda q: q[0] == "call" and q[1].endswith(("len", "is_empty"))):
                    return flow.show(t)
    return None


SINK_CALLS = ("std::io::Write::write_all", "std::io::Write::flush", "std::io::Write::write")
AFTER_FAIL_OK = ("FromResidual::from_residual", "Try::branch", "Drop::drop", "From::from", "Into::into", "drop_in_place")


def rule_r4(facts):
    r = report.RuleResult("C12.R4", "after a failed write/flush of the sink nothing else is written and nothing can panic")
    n = 0
    for b in facts.bodies:
        if b.promoted is not None:
            continue
        c = None
        for blk in b.calls():
            t = blk.term
            dn = flow.declared(t) or ""
            if dn not in SINK_CALLS and not dn.startswith("byteorder::WriteBytesExt::write_"):
                continue
            # find `?` on its result
            nxt = t.target
            if nxt is None:
                continue
            nb = b.blocks[nxt]
            if not flow.is_try_branch(nb.term):
                continue
            sw = b.blocks[nb.term.target] if nb.term.target is not None else None
            if sw is None or sw.term.k != "switch":
                continue
            brk = None
            for v, tgt in sw.term.targets:
                if v == 1:
                    brk = tgt
            if brk is None:
                continue
            n += 1
            if c is None:
                c = cfg(b)
            reach = c.reachable_from(brk)
            bad = None
            for x in reach:
                tt = b.blocks[x].term
                if tt.k == "call":
                    d2 = flow.declared(tt) or ""
                    if not d2.endswith(AFTER_FAIL_OK):
                        bad = d2
                if tt.k == "assert":
                    bad = "assert " + tt.msg["kind"]
            fn = short(b.name)
            if bad:
                r.bad("%s|after-fail:%s" % (fn, bad.split("::")[-1]),
                      "after a failed %s the code still calls %s before returning the error" % (dn.split("::")[-1], bad),
                      "%s (%s)" % (fn, t.span))
            else:
                r.ok("path", None)
    r.sites = n
    r.samples.append({"failing-write edges checked": n})
    r.need("at least 30 write/flush error edges", n >= 30)
    return r


BUFFERING = ("std::io::BufWriter::new", "std::io::BufWriter::with_capacity", "std::io::LineWriter::new",
             "std::io::LineWriter::with_capacity")


def rule_r5(facts):
    """A std buffering writer swallows the error of its final write when it is dropped (Drop ignores I/O errors):
    every such writer built over a sink must be flushed (flush / into_inner / into_parts) on every successful path."""
    r = report.RuleResult("C12.R5", "no buffering writer is dropped unflushed on a successful path (Drop discards write errors)")
    n = 0
    for b in facts.bodies:
        if b.promoted is not None:
            continue
        mk = [blk for blk in b.calls() if (flow.callee(blk.term) or "").startswith(BUFFERING) or
              short(flow.callee(blk.term) or "").split("::<")[0] in BUFFERING]
        if not mk:
            continue
        tm = Terms(b)
        c = cfg(b)
        fn = short(b.name)
        for blk in mk:
            n += 1
            # in-memory targets cannot fail
            a0 = tm.of_operand(blk.term.args[-1] if (flow.callee(blk.term) or "").endswith("with_capacity") else blk.term.args[0])
            if pat.has_call(a0, "Vec::new") and not pat.has_arg(a0):
                r.ok("in-memory", None)
                continue
            fl = []
            for x in b.calls():
                nm = flow.declared(x.term) or flow.callee(x.term) or ""
                if nm.endswith(("Write::flush", "BufWriter::into_inner", "BufWriter::into_parts", "LineWriter::into_inner")) and x.term.args and \
                        any(q[0] == "call" and len(q) > 3 and q[3] == blk.idx for q in _subterms(tm.of_operand(x.term.args[0]))):
                    fl.append(x.idx)
            # returned to the caller (moved out) is fine as well: the caller owns it
            ret_moved = ("BufWriter" in (b.locals[0].ty.s or "") or "LineWriter" in (b.locals[0].ty.s or "")) and \
                any(q[0] == "call" and len(q) > 3 and q[3] == blk.idx for q in _subterms(tm.of_local(0)))
            oks = [x for x in c.returns if flow.reaches_ok(b, x)] if b.locals[0].ty.name == "std::result::Result" else list(c.returns)
            unfl = [x for x in oks if x in c.reachable_from(blk.idx, avoid=fl)]
            okpaths = flow.reaches_ok(b, blk.idx, avoid=fl) if b.locals[0].ty.name == "std::result::Result" else bool(unfl)
            if ret_moved:
                r.ok("moved-out", None)
            elif okpaths:
                r.bad("%s|unflushed-bufwriter" % fn, "a buffering writer over the caller's sink can be dropped without flush on a successful "
                      "path: the error of the final write is discarded by Drop and the call reports success", pat.where(b, blk.idx))
            else:
                r.ok("must-pass", {"fn": fn, "buffering writer": "flushed on every successful path"})
    r.sites = n
    r.notes.append("buffering writers constructed in the crate: %d" % n)
    return r


def rule_r6(facts):
    """The window's finish writes the pending bytes to the sink.  It must run only when the decoding step that fed the
    window succeeded: after a failed sink write the window has not advanced, so finishing it writes bytes again."""
    r = report.RuleResult("C12.R6", "the window is finished (written out) only after the decoding step succeeded")
    n = 0
    for b in facts.bodies:
        if b.promoted is not None:
            continue
        fins = [blk for blk in b.calls() if (flow.declared(blk.term) or "").endswith("LzBuffer::finish")]
        if not fins:
            continue
        tm = Terms(b)
        c = cfg(b)
        fn = short(b.name)
        for F in fins:
            recv = tm.of_operand(F.term.args[0])
            mk = [q for q in _subterms(recv) if q[0] == "call" and q[1].endswith("from_stream")]
            for K in b.calls():
                if K.idx == F.idx or F.idx not in c.reachable_from(K.idx):
                    continue
                cal = K.term.callee
                if cal is None or not (cal.target().local or (cal.trait and cal.local)):
                    continue
                if K.term.dest.ty.name != "std::result::Result" if hasattr(K.term.dest, "ty") else False:
                    continue
                # does K get the same window mutably?
                shares = False
                for a in K.term.args:
                    if a.ty.k == "ref" and a.ty.mut:
                        ta = tm.of_operand(a)
                        if mk and any(q == mk[0] for q in _subterms(ta)):
                            shares = True
                        elif not mk and ta == recv:
                            shares = True
                if not shares or (flow.callee(K.term) or "").endswith("from_stream"):
                    continue
                rty = b.locals[K.term.dest.local].ty if not K.term.dest.proj else None
                if rty is None or rty.name != "std::result::Result":
                    continue
                n += 1
                tests = []
                for x in b.blocks:
                    if x.cleanup or x.term.k != "switch":
                        continue
                    t = tm.of_operand(x.term.discr)
                    if t[0] == "discr" and any(q[0] == "call" and len(q) > 3 and q[3] == K.idx for q in _subterms(t)):
                        tests.append(x)
                where = pat.where(b, F.idx)
                if not tests or F.idx in c.reachable_from(K.idx, avoid=[x.idx for x in tests]):
                    r.bad("%s|finish-unconditional:%s" % (fn, short(flow.callee(K.term) or "").split("::")[-1]),
                          "the window is finished whatever %s returned: after a failed sink write the same window bytes are written again "
                          "(and bytes are written after an error)" % short(flow.callee(K.term) or "?"), where)
                    continue
                bad = False
                for x in tests:
                    tg = dict(x.term.targets)
                    # Try::branch: 0 = Continue, 1 = Break; a plain Result: 0 = Ok, 1 = Err
                    err_edges = [tg.get(1)] if 1 in tg else [x.term.otherwise]
                    for e in err_edges:
                        if e is not None and F.idx in c.reachable_from(e):
                            bad = True
                if bad:
                    r.bad("%s|finish-after-error:%s" % (fn, short(flow.callee(K.term) or "").split("::")[-1]),
                          "the window is finished on the error path of %s as well" % short(flow.callee(K.term) or "?"), where)
                else:
                    r.ok("path", {"fn": fn, "finish": "only on the success edge of %s" % short(flow.callee(K.term) or "").split("::")[-1]})
    r.sites = n
    r.need("decoding steps that precede a window finish (found %d)" % n, n >= 3)
    return r


def rule_r7(facts):
    """`?` on an io::Result inside the library converts through From<io::Error> for Error: the conversion must keep the
    error and class it as IoError (a different class changes what callers - e.g. the stream decoder's retry - do with it)."""
    r = report.RuleResult("C12.R7", "io::Error converts to Error::IoError carrying the same error")
    b = None
    for x in facts.bodies:
        if x.promoted is None and x.item == "from" and x.trait == "std::convert::From" and x.self_ty is not None and \
                x.self_ty.name == "error::Error" and x.arg_count == 1 and "io::Error" in (x.locals[1].ty.s or ""):
            b = x
    r.need("impl From<io::Error> for Error", b is not None)
    if b is None:
        return r
    tm = Terms(b)
    r.sites = 1
    aggs = [(s_.rv.variant_name, [tm.of_operand(o) for o in s_.rv.ops]) for blk in b.blocks for s_ in blk.stmts
            if s_.k == "assign" and s_.rv.k == "aggregate" and s_.rv.agg == "adt" and s_.rv.adt_name == "error::Error"]
    if len(aggs) == 1 and (aggs[0][0] or "").endswith("IoError") and aggs[0][1] and aggs[0][1][0][0] == "arg":
        r.ok("term", {"From<io::Error>": "Error::IoError(e)"})
    else:
        r.bad("from-io|class", "io::Error is converted to %s, not to Error::IoError(e)" % [(v, [flow.show(o)[:30] for o in ops]) for v, ops in aggs], pat.where(b))
    return r


def _subterms(t, out=None):
    out = [] if out is None else out
    if isinstance(t, tuple):
        if t and isinstance(t[0], str):
            out.append(t)
        for x in t:
            if isinstance(x, tuple):
                _subterms(x, out)
    return out


def run(ctx, t0):
    facts = ctx.facts()
    rules = [rule_r1(facts), rule_r2(facts), rule_r3(facts), rule_r4(facts), rule_r5(facts), rule_r6(facts), rule_r7(facts)]
    expl = ("Static: def-use classification of every fallible call's Result over MIR (propagated / matched with an "
            "Err arm that cannot reach a successful return / explicit swallow table), provenance of the counts "
            "returned by raw read/write calls, dominance of flush and write_all over successful returns, and "
            "reachability from the Break edge of `?` after a sink write. Declined: that the bytes already written "
            "are the correct prefix (value-level).")
    return report.finish(PROP, ctx.tier, rules, expl,
                         ["Write::write_all loops over short writes (std contract)"], TRUSTED, t0, None, ctx.seed)
