"""C13 - results do not depend on how the reader fragments its data.

Under the documented Read/BufRead contracts a decoder is fragmentation
independent if the *size of the currently visible buffer* and the *count
returned by a short read* influence nothing but "is there more input".

R1  fill_buf uses: the peeked slice flows only into an emptiness test, into the
    scan-and-consume-all loop (which must loop back to fill_buf until the view
    is empty), into a forwarder that returns it unchanged, or into the
    streaming look-ahead that is guarded by the Partial processing mode.
R2  raw Read::read in decoding code sits only in Read adapters, on in-memory
    cursors, or in code E-AI proves unreachable from the one-shot entry points.
R3  adapters: CountBufRead::{read,consume} add exactly the inner result / the
    forwarded amount; fill_buf adds nothing; CrcDigestRead digests buf[..n].
Declined: the streaming decoder under arbitrary `write` chunking (C05).
"""
from engine import flow, report
from engine.flow import Terms, cfg, short
from rules import pat
from rules.common import TRUSTED, is_decode_entry

PROP = "C13"


def is_decode_body(b):
    return b.file.startswith(("src/decode/", "src/xz/")) and b.promoted is None


def _carried_round(b, c, tm, lb, head, L, old, X, is_me):
    """One round of a refill loop, walked concretely for the (boolean) local L: L = old at the loop head, every element-wise scan of the
    peeked buffer (`Iterator::all` / `any`) yields X; other values are unknown and both edges of a test on them are followed.
    Returns the set of values of L at the back edge (None = unknown), or None when the walk gives up."""
    def opval(o, env):
        if o is None:
            return None
        if o.k == "const":
            return int(o.val) if isinstance(o.val, (bool, int)) else None
        if o.place is not None and not o.place.proj:
            return env.get(o.place.local)
        return None
    out = set()
    seen = set()
    stack = [(head, {L: old})]
    steps = 0
    while stack:
        bb, env = stack.pop()
        key = (bb, tuple(sorted((k, v) for k, v in env.items() if v is not None)))
        if key in seen:
            continue
        seen.add(key)
        steps += 1
        if steps > 4000:
            return None
        env = dict(env)
        blk = b.blocks[bb]
        for st in blk.stmts:
            if st.k != "assign" or st.place.proj:
                continue
            rv, v = st.rv, None
            if rv.k == "use":
                v = opval(rv.op, env)
            elif rv.k == "unop" and rv.unop == "Not":
                a = opval(rv.a, env)
                v = None if a is None else (0 if a else 1)
            elif rv.k == "binop":
                a, b2 = opval(rv.a, env), opval(rv.b, env)
                if rv.binop == "BitAnd":
                    v = 0 if (a == 0 or b2 == 0) else (a & b2 if None not in (a, b2) else None)
                elif rv.binop == "BitOr":
                    v = 1 if (a == 1 or b2 == 1) else (a | b2 if None not in (a, b2) else None)
                elif None not in (a, b2):
                    v = {"BitXor": a ^ b2, "Eq": int(a == b2), "Ne": int(a != b2)}.get(rv.binop)
            env[st.place.local] = v
        t = blk.term
        if t.k == "call":
            v = None
            dn = flow.declared(t) or ""
            if dn.endswith(("Iterator::all", "Iterator::any")) and any(flow.term_has(tm.of_operand(a), is_me) for a in t.args):
                v = X
            if t.dest is not None and not t.dest.proj:
                env[t.dest.local] = v
            succs = [t.target] if t.target is not None else []
        elif t.k == "switch":
            d = opval(t.discr, env)
            if d is None:
                succs = [tg for _, tg in t.targets] + [t.otherwise]
            else:
                succs = [tg for v_, tg in t.targets if v_ == d] or [t.otherwise]
        else:
            succs = [y for y in c.succ[bb] if not b.blocks[y].cleanup]
        for y in succs:
            if y is None:
                continue
            if y == head:
                out.add(env.get(L))
            elif y in lb:
                stack.append((y, env))
    return out


def _returned_local(b):
    """The plain local whose value the function returns inside `Ok(..)` (copies chased), or None."""
    for blk in b.blocks:
        if blk.cleanup:
            continue
        for st in blk.stmts:
            if st.k == "assign" and st.place.local == 0 and st.rv.k == "aggregate":
                for o in st.rv.ops:
                    if o.place is None or o.place.proj:
                        continue
                    L = o.place.local
                    for _ in range(6):
                        ds = [s2 for b2 in b.blocks for s2 in b2.stmts if s2.k == "assign" and not s2.place.proj and s2.place.local == L]
                        if len(ds) == 1 and ds[0].rv.k == "use" and ds[0].rv.op.place is not None and not ds[0].rv.op.place.proj:
                            L = ds[0].rv.op.place.local
                        elif len(ds) == 1 and ds[0].rv.k == "unop" and ds[0].rv.unop == "Not" and ds[0].rv.a.place is not None and \
                                not ds[0].rv.a.place.proj:
                            L = ds[0].rv.a.place.local      # `Ok(!bad)`: stickiness does not depend on the polarity
                        else:
                            break
                    if b.locals[L].ty.k == "bool":
                        return L
    return None


def rule_fill_buf(facts):
    r = report.RuleResult("C13.R1", "the size/content of a peeked buffer decides nothing but emptiness")
    n = 0
    for b in facts.bodies:
        if not is_decode_body(b):
            continue
        tm = None
        for blk in b.calls():
            t = blk.term
            if (flow.declared(t) or "") != "std::io::BufRead::fill_buf":
                continue
            n += 1
            fn = short(b.name)
            where = "%s (%s)" % (fn, t.span)
            if tm is None:
                tm = Terms(b)
            c = cfg(b)
            me = blk.idx

            def is_me(q):
                return q[0] == "call" and q[1] == "std::io::BufRead::fill_buf" and q[3] == me

            # (c) forwarder
            if t.dest.local == 0 and b.trait == "std::io::BufRead" and b.item == "fill_buf":
                r.ok("forwarder", {"fn": fn})
                continue
            uses = []       # (kind, bb)
            for blk2 in b.blocks:
                if blk2.cleanup:
                    continue
                if blk2.term.k == "switch":
                    tt = tm.of_operand(blk2.term.discr)
                    if tt[0] != "discr" and flow.term_has(tt, is_me):
                        uses.append(("test", blk2.idx, tt))
                if blk2.term.k == "call" and blk2.idx != me:
                    for a in blk2.term.args:
                        ta = tm.of_operand(a)
                        if flow.term_has(ta, is_me):
                            uses.append(("call:" + (flow.declared(blk2.term) or "?"), blk2.idx, ta))
                            break
            okk = True
            detail = []
            scanned = False
            for kind, ub, tt in uses:
                if kind == "test":
                    s = pat.cmp_sides(tt)
                    base = pat.strip(tt)
                    if pat.has_call(tt, "is_empty") or (s and (s[2] == ("const", 0) or s[1] == ("const", 0)) and
                                                        s[0] in ("Eq", "Ne") and pat.has_call(tt, "::len")):
                        detail.append("emptiness test")
                        continue
                    # content test of a scanned element / length comparison: needs the mode guard or the scan loop
                    if mode_guarded(facts, b, tm, c, ub):
                        detail.append("look-ahead test under Partial mode")
                        continue
                    scanned = True
                    continue
                cal = kind[5:]
                if cal.endswith(("is_empty", "::len", "PartialEq::eq", "Try::branch", "FromResidual::from_residual")):
                    continue
                if cal.endswith(("Result::map", "Option::map", "Result::map_or", "Result::is_ok_and")):
                    # `fill_buf().map(|b| b.is_empty())`: the closures of this function only ask for emptiness
                    cls = [x for x in facts.bodies if x.promoted is None and x.kind == "Closure" and x.name.startswith(b.name + "::{closure")]
                    if cls and all((flow.declared(y.term) or flow.callee(y.term) or "").endswith(("is_empty", "::len")) for x in cls for y in x.calls()) \
                            and all(any((flow.declared(y.term) or "").endswith("is_empty") for y in x.calls()) or
                                    any(st.k == "assign" and st.rv.k == "binop" and st.rv.binop in ("Eq", "Ne") and
                                        (st.rv.a.const_int() == 0 or st.rv.b.const_int() == 0) for blk_ in x.blocks for st in blk_.stmts)
                                    for x in cls):
                        detail.append("emptiness test (in a closure)")
                        continue
                if cal.endswith(("into_iter", "::iter", "Iterator::next")):
                    scanned = True
                    continue
                if cal.endswith(("Iterator::any", "Iterator::all", "Iterator::position", "Iterator::find")) and \
                        not pat.has_call(tt, "index") and not pat.has_call(tt, "::get") and not pat.has_call(tt, "split_at"):
                    # an element-wise scan of the whole visible buffer, like the `for` loop: subject to the scan idiom below
                    scanned = True
                    continue
                if cal.endswith("BufRead::consume"):
                    scanned = True
                    continue
                if mode_guarded(facts, b, tm, c, ub):
                    detail.append("%s under Partial mode" % cal.split("::")[-1])
                    continue
                okk = False
                r.bad("%s|fill_buf-use:%s" % (fn, cal.split("::")[-1]),
                      "the peeked buffer (whose size depends on the reader's fragmentation) flows into %s" % cal, where)
            # a loop that peeks, uses and consumes the visible fragment runs once per fragment: whatever it does besides handing on the
            # peeked bytes happens as often as the reader chooses to split the data (seeded C13-i: the dictionary reset inside the
            # copy loop of an uncompressed chunk).  Every call of a function of this crate inside such a loop must take the fragment.
            lb_ = set()
            for h_, blocks_, _ in c.loops():
                if me in blocks_:
                    lb_ |= blocks_
            cons_ = [x for x in b.calls() if x.idx in lb_ and (flow.declared(x.term) or "").endswith("BufRead::consume")
                     and flow.term_has(tm.of_operand(x.term.args[1]), is_me)]
            if lb_ and cons_:
                for x in b.calls():
                    if x.idx not in lb_ or x.idx == me or x.cleanup:
                        continue
                    cal_ = x.term.callee
                    if cal_ is None or not cal_.target().local:
                        continue
                    if any(flow.term_has(tm.of_operand(a_), is_me) for a_ in x.term.args):
                        continue
                    okk = False
                    r.bad("%s|per-fragment:%s" % (fn, (flow.callee(x.term) or "?").split("::")[-1]),
                          "%s is called inside the loop over the reader's fragments without taking the fragment: it runs once per "
                          "fragment, so the result depends on how the reader splits the data" % (flow.callee(x.term) or "?"), pat.where(b, x.idx))
            if scanned:
                # the scan idiom: inside a loop, with an emptiness exit, consuming exactly the scanned length
                inloop = any(me in blocks for h, blocks, _ in c.loops())
                cons = [x for x in b.calls() if (flow.declared(x.term) or "").endswith("BufRead::consume")]
                len_ok = all(flow.term_has(tm.of_operand(x.term.args[1]), is_me) and
                             pat.has_call(tm.of_operand(x.term.args[1]), "::len") and
                             not pat.has_op(tm.of_operand(x.term.args[1]), ("Add", "Sub", "Mul", "Div", "Rem", "BitAnd", "BitOr", "BitXor", "Shl", "Shr", "Not")) and
                             not pat.has_call(tm.of_operand(x.term.args[1]), "::min") and not pat.has_call(tm.of_operand(x.term.args[1]), "::max")
                             for x in cons)
                empt = any(k == "test" and (pat.has_call(tt, "is_empty") or pat.has_call(tt, "::len")) for k, _, tt in uses)
                if not inloop:
                    okk = False
                    r.bad("%s|scan-once" % fn, "the peeked buffer is scanned/consumed only once: data beyond the "
                          "currently visible fragment is never looked at", where)
                elif not (cons and len_ok):
                    okk = False
                    r.bad("%s|scan-consume" % fn, "the scan does not consume exactly the scanned length", where)
                elif not empt:
                    okk = False
                    r.bad("%s|scan-exit" % fn, "the scan loop has no emptiness exit", where)
                else:
                    # the loop over refills may be left only through a test on the peeked data (empty -> done, a byte that
                    # decides the verdict): an exit that counts rounds makes the verdict depend on the number of fragments
                    lb = set()
                    for h, blocks, _ in c.loops():
                        if me in blocks:
                            lb |= blocks
                    bad_exit = None
                    for x in sorted(lb):
                        blkx = b.blocks[x]
                        for y in c.succ[x]:
                            if y in lb:
                                continue
                            # exit edge x -> y: x must be a test on the peeked buffer, or a `?` on fill_buf / an inner iterator over it
                            tx = tm.of_operand(blkx.term.discr) if blkx.term.k == "switch" else None
                            if tx is not None and (flow.term_has(tx, is_me) or pat.has_call(tx, "Try::branch")):
                                continue
                            if tx is not None and tx[0] == "discr" and flow.term_has(tx, lambda q: q[0] == "try"):
                                continue
                            bad_exit = x
                    if bad_exit is not None:
                        okk = False
                        r.bad("%s|scan-bounded" % fn, "the loop over refills can be left for a reason other than the peeked data (e.g. a round "
                              "counter): the verdict depends on how many fragments the reader delivers", pat.where(b, bad_exit))
                    else:
                        # the verdict is accumulated over the fragments: a value that leaves the function and is computed from the
                        # peeked data inside the loop must carry what the earlier rounds found (`ok &= ..`, an early return);
                        # `ok = buf.iter().all(..)` lets the last fragment alone decide (seeded C06-i)
                        def _alts(t_):
                            if isinstance(t_, tuple) and len(t_) == 2 and t_[0] == "phi" and isinstance(t_[1], tuple):
                                for x_ in t_[1]:
                                    for y_ in _alts(x_):
                                        yield y_
                            else:
                                yield t_
                        is_lv = lambda q: q[0] in ("phi", "rec") and len(q) == 2 and isinstance(q[1], int)
                        over = None
                        for blk3 in b.blocks:
                            if blk3.cleanup:
                                continue
                            for st3 in blk3.stmts:
                                if st3.k != "assign" or st3.place.local != 0:
                                    continue
                                for o3 in getattr(st3.rv, "ops", None) or []:
                                    for a3 in _alts(tm.of_operand(o3)):
                                        if flow.term_has(a3, is_me) and not flow.term_has(a3, is_lv) and \
                                                not ((pat.has_call(a3, "is_empty") or pat.has_call(a3, "::len")) and not pat.has_call(a3, "Iterator::")):
                                            over = (blk3.idx, a3)
                        # decided concretely where possible: one round of the loop walked for the returned flag under (old value, scan
                        # result) - the flag must be sticky in one direction (`ok &= x`, `ok = ok && x`, `if !x { ok = false }`,
                        # `bad |= y`), whatever its spelling; the term test above is the fallback
                        L_ = _returned_local(b)
                        hd_ = [h for h, blocks, _ in c.loops() if me in blocks]
                        if L_ is not None and hd_ and any(
                                (st_.k == "assign" and not st_.place.proj and st_.place.local == L_) for x_ in lb for st_ in b.blocks[x_].stmts) or \
                                L_ is not None and hd_ and any(b.blocks[x_].term.k == "call" and b.blocks[x_].term.dest is not None and
                                                               not b.blocks[x_].term.dest.proj and b.blocks[x_].term.dest.local == L_ for x_ in lb):
                            tab = {(o_, x_): _carried_round(b, c, tm, lb, hd_[0], L_, o_, x_, is_me) for o_ in (0, 1) for x_ in (0, 1)}
                            if all(v is not None and v and None not in v for v in tab.values()):
                                sticky0 = tab[(0, 0)] == {0} and tab[(0, 1)] == {0}
                                sticky1 = tab[(1, 0)] == {1} and tab[(1, 1)] == {1}
                                if sticky0 or sticky1:
                                    over = None
                                elif over is None:
                                    over = (hd_[0], ("const", 0))
                        if over is not None:
                            okk = False
                            r.bad("%s|scan-overwrite" % fn, "the result of the scan is recomputed from each peeked fragment (%s) without the "
                                  "verdict of the earlier ones: only the last fragment the reader delivers decides" % flow.show(over[1])[:80],
                                  pat.where(b, over[0]))
                            continue
                        detail.append("scan loop: consume(len) and back to fill_buf until empty")
            if okk:
                r.ok("provenance", {"fn": fn, "uses": detail or ["emptiness"]})
    r.sites = n
    r.need("four fill_buf sites", n >= 4)
    return r


def mode_guarded(facts, b, tm, c, ub):
    """Is block ub dominated by the true edge of `mode == Partial`?"""
    gs, _ = pat.guards(b)
    for (bb, t, z, nz) in gs:
        s = pat.cmp_sides(t)
        if s is None or s[0] != "Eq":
            continue
        vs = pat.promoted_variants(facts, s[1]) + pat.promoted_variants(facts, s[2])
        if any(v[1] == "Partial" for v in vs) and (pat.has_arg(s[1], "mode") or pat.has_arg(s[2], "mode") or
                                                  flow.term_has(t, lambda q: q[0] == "arg")):
            if c.dominates(nz, ub) and nz != ub or nz == ub:
                return True
    # the same decision in any other spelling (`matches!(mode, Partial)`, a `match`, a flag set in two arms): the block is not reached
    # in a concrete walk of the loop round (or of the function) with the mode parameter's discriminant set to a non-Partial variant
    adt = facts.adt("decode::lzma::ProcessingMode")
    margs = [i for i in range(1, b.arg_count + 1) if b.locals[i].name == "mode"]
    if adt is not None and margs:
        names = [v["name"].split("::")[-1] for v in adt["variants"]]
        others = [i for i, n in enumerate(names) if n != "Partial"]
        if "Partial" in names and others:
            region, start = None, 0
            for h, blocks, _ in c.loops():
                if ub in blocks and (region is None or len(blocks) < len(region)):
                    region, start = blocks, h
            if start == ub:
                return False

            def cv(blk, v=None):
                # `mode == ProcessingMode::X` through the derived PartialEq
                tt = tm.of_operand(blk.term.args[0]) if blk.term.args else None
                if (flow.declared(blk.term) or "").endswith("PartialEq::eq") and len(blk.term.args) == 2 and \
                        any(pat.has_arg(tm.of_operand(a_), "mode") for a_ in blk.term.args):
                    vs = [x for a_ in blk.term.args for x in pat.promoted_variants(facts, tm.of_operand(a_))]
                    if len(vs) == 1 and vs[0][1] in names:
                        return int(names.index(vs[0][1]) == cv.mode)
                return None
            for o_ in others:
                cv.mode = o_
                dv = lambda pl, o_=o_: o_ if (pl.local == margs[0] and not [x for x in pl.proj if x[0] != "deref"]) else None
                if pat.walk_concrete(b, c, start, {ub}, discr_val=dv, call_val=cv, region=region):
                    return False
            return True
    return False


def rule_raw_read(ctx, facts):
    r = report.RuleResult("C13.R2", "no variable-length read decides anything on the one-shot decoding paths")
    sites = []
    for b in facts.bodies:
        if not is_decode_body(b):
            continue
        for blk in b.calls():
            if (flow.declared(blk.term) or "") == "std::io::Read::read":
                sites.append((b, blk))
    r.sites = len(sites)
    # counted by hand: 3 in the one-shot code (two digesting adapters, the dead path of read_partial_input_buf's caller) and 2 more in the
    # streaming decoder, which exists only with the "stream" feature
    r.need("raw read sites in decoding code", len(sites) >= (5 if "stream" in (ctx.default_cfg or "") else 3))
    pending = []
    for b, blk in sites:
        fn = short(b.name)
        t = blk.term
        aty = t.args[0].ty
        recv = aty.to.s if aty.k == "ref" else aty.s
        if b.trait == "std::io::Read" and b.item == "read":
            r.ok("adapter", {"fn": fn})
        elif recv.startswith("std::io::Cursor<"):
            r.ok("in-memory", {"fn": fn, "receiver": recv})
        else:
            pending.append((b, blk))
    if pending:
        # E-AI: unreachable from the one-shot entry points (dead in Finish mode)
        res = ctx.ai_entries(select=lambda e: is_decode_entry(e) and "Stream" not in e[2])
        visited = {}
        errs = [n for n, x in res.items() if x.error]
        for x in res.values():
            for fnn, s in x.visited.items():
                visited.setdefault(fnn, set()).update(s)
        for b, blk in pending:
            fn = short(b.name)
            where = "%s (%s)" % (fn, blk.term.span)
            if errs:
                r.bad("%s|ai" % fn, "reachability analysis failed for %s" % errs, where, "unverifiable")
            elif blk.idx in visited.get(b.name, set()):
                r.bad("%s|raw-read" % fn, "a variable-length read is reachable from a one-shot decoder: the result "
                      "depends on how much the reader returns at once", where)
            else:
                r.ok("dead-in-oneshot", {"fn": fn, "analysis": "not reached from %d one-shot entries" % len(res)})
    return r


def flow_sub(t, out=None):
    out = [] if out is None else out
    if isinstance(t, tuple):
        if t and isinstance(t[0], str):
            out.append(t)
        for x in t:
            if isinstance(x, tuple):
                flow_sub(x, out)
    return out


def rule_adapters(facts):
    r = report.RuleResult("C13.R3", "counting / digesting adapters account exactly what went through")
    found = 0
    for b in facts.bodies:
        if b.promoted is not None or b.trait != "std::io::BufRead" or not b.file.startswith("src/"):
            continue
        fn = short(b.name)
        tm = Terms(b)
        stores = []
        for blk in b.blocks:
            for s in blk.stmts:
                if s.k == "assign" and s.place.proj and s.place.proj[-1][0] == "field" and s.place.ty.is_int():
                    stores.append((blk.idx, s))
        if b.item == "fill_buf":
            found += 1
            r.sites += 1
            if stores:
                r.bad("%s|fill_buf-counts" % fn, "fill_buf (a peek) changes the byte counter", pat.where(b))
            else:
                r.ok("effect", {"fn": fn, "stores": 0})
        elif b.item == "consume":
            found += 1
            r.sites += 1
            inner = [x for x in b.calls() if (flow.declared(x.term) or "").endswith("BufRead::consume")]
            okk = bool(inner) and bool(stores)
            for x in inner:
                a = tm.of_operand(x.term.args[1])
                if not (a[0] == "arg" and a[1] == 2):
                    okk = False
            for _, s in stores:
                t = tm.of_rvalue(s.rv, 0)
                if not (t[0] == "Add" and (pat.has_arg(t[1]) or pat.has_arg(t[2])) and
                        flow.term_has(t, lambda q: q[0] == "arg" and q[1] == 2) and not pat.has_op(t, ("Mul", "Shl", "Sub"))):
                    okk = False
            if okk:
                r.ok("provenance", {"fn": fn, "count += amt; inner.consume(amt)": True})
            else:
                r.bad("%s|consume" % fn, "consume does not forward and count exactly the requested amount", pat.where(b))
    r.need("fill_buf and consume of the counting adapter", found >= 2)
    # digesting adapters: every byte handed out is digested exactly once - the digest is updated with buf[..n] for the
    # count n of the one inner read, once, and n is what the adapter returns
    nd = 0
    for b in facts.bodies:
        if b.promoted is not None or b.trait not in ("std::io::Read", "std::io::Write") or not b.file.startswith("src/") or b.item not in ("read", "write"):
            continue
        ups = [x for x in b.calls() if (flow.callee(x.term) or "").endswith("::update") and "crc" in (flow.callee(x.term) or "")]
        if not ups:
            continue
        nd += 1
        r.sites += 1
        fn = short(b.name)
        tm = Terms(b)
        c = cfg(b)
        inner = [x for x in b.calls() if (flow.declared(x.term) or "").endswith(("Read::read", "Write::write")) and
                 pat.has_field(tm.of_operand(x.term.args[0]), "read" if b.item == "read" else "write")]
        okk = len(ups) == 1 and len(inner) == 1 and not c.loop_blocks_of(ups[0].idx) and not c.loop_blocks_of(inner[0].idx)
        why = "the digest is updated %d time(s) for %d inner call(s)%s" % (len(ups), len(inner), ", inside a loop" if ups and c.loop_blocks_of(ups[0].idx) else "")
        if okk:
            t = tm.of_operand(ups[0].term.args[1])
            idx = [q for q in flow_sub(t) if q[0] == "call" and q[1].endswith(("::index", "Index::index"))]
            cnt = ("ok", ("call",)) if False else None
            good = False
            if idx:
                rng = idx[0][2][1]
                base = idx[0][2][0]
                if rng[0] == "agg" and rng[1].endswith("RangeTo::RangeTo") and pat.has_arg(base, "buf"):
                    end = pat.strip(rng[2][0])
                    if end and end[0] == "call" and len(end) > 3 and end[3] == inner[0].idx:
                        good = True
            # `buf.split_at(n).0` is `&buf[..n]`
            for q in flow_sub(t):
                if q[0] == "field" and q[1] == 0 and isinstance(q[2], tuple) and q[2] and q[2][0] == "call" and str(q[2][1]).endswith("split_at") \
                        and len(q[2][2]) == 2 and pat.has_arg(q[2][2][0], "buf"):
                    end = pat.strip(q[2][2][1])
                    while isinstance(end, tuple) and end and end[0] in ("field", "as", "ok", "okp", "try") and not (end[0] == "call"):
                        end = end[-1] if end[0] != "field" else end[2]
                    if isinstance(end, tuple) and end and end[0] == "call" and len(end) > 3 and end[3] == inner[0].idx:
                        good = True
            if not good:
                okk = False
                why = "the digest is not updated with exactly buf[..n] of the inner call's count: %s" % flow.show(t)[:80]
            # returned count
            rets = []
            for blk in b.blocks:
                for s_ in blk.stmts:
                    if s_.k == "assign" and s_.place.local == 0 and not s_.place.proj and s_.rv.k == "aggregate" and s_.rv.agg == "adt" and s_.rv.variant == 0:
                        rets.append(pat.strip(tm.of_operand(s_.rv.ops[0])))
            def core_call(x):
                # n, Ok(n)'s payload, `n?`: the count the inner call returned
                while isinstance(x, tuple) and x and x[0] in ("field", "as", "ok", "okp", "try", "cast"):
                    x = x[2] if x[0] in ("field", "as", "cast") else x[1]
                return x
            rets = [core_call(x) for x in rets]
            if okk and not all(x and x[0] == "call" and len(x) > 3 and x[3] == inner[0].idx for x in rets):
                okk = False
                why = "the adapter does not return the inner call's count"
        if okk:
            r.ok("effect", {"fn": fn, "digest": "update(&buf[..n]) once per inner call, returns n"})
        else:
            r.bad("%s|digest" % fn, "a digesting adapter does not digest exactly the bytes it hands on: %s - with a reader that returns "
                  "short counts bytes are digested twice or not at all" % why, pat.where(b))
    r.need("digesting adapters (found %d)" % nd, nd >= 1)
    # the Read halves are checked by the same rule as C12.R2
    from rules import C12
    r2 = C12.rule_r2(facts)
    for f in r2.findings:
        if "decode::util" in f.key:
            r.findings.append(f)
            r.obligations += 1
    r.obligations += 2
    r.discharged += 2 if not [f for f in r2.findings if "decode::util" in f.key] else 0
    return r


def run(ctx, t0):
    facts = ctx.facts()
    rules = [rule_fill_buf(facts), rule_raw_read(ctx, facts), rule_adapters(facts)]
    from rules import C06
    r6 = C06.rule_table(facts)[0]
    keep = report.RuleResult("C13.R4", "the block-header reader is drained (padding scan to EOF) before its digest is compared")
    for f in r6.findings:
        if f.key.startswith("row6"):
            keep.findings.append(f)
            keep.obligations += 1
    keep.sites = 1
    if not keep.findings:
        keep.ok("must-pass", {"row": 6, "flush_zero_padding": "true on every Ok path of the header parser"})
    rules.append(keep)
    expl = ("Static: provenance of every fill_buf slice and of every raw read count in decoding code; loop-shape "
            "check of the padding scan; effect check of the counting adapter; reachability (E-AI) of variable-length "
            "reads from the one-shot entry points.")
    return report.finish(PROP, ctx.tier, rules, expl, ["documented Read/BufRead contracts (fill_buf does not consume; "
                         "consume(n) with n <= last fill_buf length)"], TRUSTED, t0, None, ctx.seed)
