"""C14 - a reset raw decoder is indistinguishable from a new one.

Sibling agreement driven by the ADT definition (a new field is automatically an
obligation):

R1  for every field of the decoder state the value stored by `reset_state`
    equals the value the constructor builds (provenance terms compared after
    unifying the properties parameter), except the documented exceptions
    (the size in effect, the streaming carry-over buffer).  The literal table is
    re-initialised on both branches of the size test.
R2  the public reset entry points call `reset_state` unconditionally with the
    properties the constructor used.
R3  the size in effect cannot leak across LZMA2 resets: every use in the LZMA2
    decoder is dominated by `set_unpacked_size`.
R4  `decompress` builds its window and range decoder afresh (locals).
"""
from engine import flow, report
from engine.flow import Terms, cfg, short
from rules import pat
from rules.common import TRUSTED

PROP = "C14"
EXCEPTIONS = {
    "unpacked_size": "kept by design; replaced through set_unpacked_size (R3)",
    "partial_input_buf": "only used by the streaming decoder: staged into under mode == Partial only (R1b; C11.R1 / C13.R2 for the consumption side)",
}


def norm(t, pname):
    """Replace references to the properties parameter by a common symbol."""
    if not isinstance(t, tuple) or not t:
        return t
    if not isinstance(t[0], str):
        return tuple(norm(x, pname) for x in t)
    if t[0] == "arg" and t[2] == pname:
        return ("PROPS",)
    if t[0] == "call":
        return ("call", t[1], tuple(norm(a, pname) for a in t[2]))
    return tuple([t[0]] + [norm(x, pname) if isinstance(x, tuple) else x for x in t[1:]])


def rule_fields(facts):
    r = report.RuleResult("C14.R1", "reset_state re-initialises every field exactly as the constructor does")
    adt = facts.adt("decode::lzma::DecoderState")
    new = pat.body_of(facts, "DecoderState::new")
    rst = pat.body_of(facts, "DecoderState::reset_state")
    r.need("DecoderState, its constructor and reset_state", adt is not None and new is not None and rst is not None)
    if adt is None or new is None or rst is None:
        return r
    fields = [f["name"] for f in adt["variants"][0]["fields"]]
    tmn, tmr = Terms(new), Terms(rst)
    ctor = {}
    for blk in new.blocks:
        for s in blk.stmts:
            if s.k == "assign" and s.rv.k == "aggregate" and s.rv.agg == "adt" and s.rv.adt_name.endswith("DecoderState"):
                for i, o in enumerate(s.rv.ops):
                    ctor[fields[i]] = norm(tmn.of_operand(o), "lzma_props")
    r.need("constructor aggregate", len(ctor) == len(fields))
    stores = {}
    for blk in rst.blocks:
        if blk.cleanup:
            continue
        for s in blk.stmts:
            if s.k == "assign" and s.place.proj and s.place.proj[-1][0] == "field" and len(s.place.proj) == 2 and \
                    s.place.proj[-1][4] and s.place.proj[-1][4].endswith("DecoderState"):
                stores.setdefault(s.place.proj[-1][2], []).append((blk.idx, norm(tmr.of_rvalue(s.rv, 0), "new_props")))
        t = blk.term
        if t.k == "call" and t.dest.proj and t.dest.proj[-1][0] == "field" and len(t.dest.proj) == 2:
            nm = flow.declared(t) or flow.callee(t)
            stores.setdefault(t.dest.proj[-1][2], []).append(
                (blk.idx, norm(("call", nm, tuple(tmr.of_operand(a) for a in t.args), blk.idx), "new_props")))
    # private helpers: `self.reset_x()` with no other argument stores what the helper stores on every one of its paths
    for blk in rst.calls():
        cal = blk.term.callee
        if cal is None or not cal.target().local or len(blk.term.args) != 1:
            continue
        a0 = tmr.of_operand(blk.term.args[0])
        while isinstance(a0, tuple) and a0 and a0[0] in ("ref", "deref"):
            a0 = a0[1]
        if not (isinstance(a0, tuple) and a0[0] == "arg" and a0[2] == "self"):
            continue
        hb = facts.by_def.get(cal.target().defk)
        if hb is None or hb is rst:
            continue
        tmh, ch = Terms(hb), cfg(hb)
        hst = {}
        for hblk in hb.blocks:
            if hblk.cleanup or hblk.idx not in ch.reach:
                continue
            for s in hblk.stmts:
                if s.k == "assign" and s.place.proj and s.place.proj[-1][0] == "field" and len(s.place.proj) == 2 and \
                        s.place.proj[-1][4] and s.place.proj[-1][4].endswith("DecoderState"):
                    hst.setdefault(s.place.proj[-1][2], []).append((hblk.idx, tmh.of_rvalue(s.rv, 0)))
        for f_, lst in hst.items():
            if all(not ch.some_path(0, [x], avoid=[bb_ for bb_, _ in lst]) for x in ch.returns) and \
                    not any(flow.term_has(t_, lambda q: q[0] == "arg") for _, t_ in lst):
                for _, t_ in lst:
                    stores.setdefault(f_, []).append((blk.idx, norm(t_, "new_props")))
    # whole-array fills: `self.f.fill(v)` stores [v; N] (N from the field's type)
    ftys = {f["name"]: f["ty"] for f in adt["variants"][0]["fields"]}
    for blk in rst.calls():
        if (flow.callee(blk.term) or "").endswith("core::slice::fill") and len(blk.term.args) == 2:
            a = pat.strip(tmr.of_operand(blk.term.args[0]))
            while isinstance(a, tuple) and a and a[0] in ("ref", "cast"):
                a = a[1] if a[0] == "ref" else a[2]
            if isinstance(a, tuple) and a and a[0] == "field" and a[1] in ftys and isinstance(ftys[a[1]], dict) and \
                    ftys[a[1]].get("k") == "array" and pat.has_arg(a, "self"):
                stores.setdefault(a[1], []).append((blk.idx, ("repeat", norm(tmr.of_operand(blk.term.args[1]), "new_props"), ftys[a[1]]["len"])))
    c = cfg(rst)
    rets = c.returns
    r.sites = len(fields)
    for f in fields:
        if f in EXCEPTIONS:
            if f in stores:
                r.notes.append("field %s is now written by reset_state (exception no longer needed)" % f)
            r.ok("exception", {"field": f, "why": EXCEPTIONS[f]})
            continue
        ss = stores.get(f, [])
        if f == "literal_probs":
            # either re-created like the constructor, or filled with the same element on the equal-size branch
            fills = [blk for blk in rst.calls() if (flow.callee(blk.term) or "").endswith("Vec2D::fill") and
                     pat.has_field(tmr.of_operand(blk.term.args[0]), "literal_probs")]
            okk = True
            elem_ctor = [q for q in flow.term_atoms(ctor[f]) if q[0] == "const"]
            for blk in fills:
                v = tmr.of_operand(blk.term.args[1])
                if not (v[0] == "const" and v in elem_ctor):
                    okk = False
                    r.bad("literal_probs|fill", "the literal table is refilled with %s, the constructor uses %s"
                          % (flow.show(v), [flow.show(x) for x in elem_ctor][:2]), pat.where(rst, blk.idx))
            for bb, t in ss:
                if strip_call_bb(t) != strip_call_bb(ctor[f]):
                    okk = False
                    r.bad("literal_probs|init", "the literal table is re-created differently from the constructor: %s vs %s"
                          % (flow.show(t)[:100], flow.show(ctor[f])[:100]), pat.where(rst, bb))
            covered = [blk.idx for blk in fills] + [bb for bb, _ in ss]
            if not all(not c.some_path(0, [x], avoid=covered) for x in rets):
                okk = False
                r.bad("literal_probs|path", "a path through reset_state leaves the literal table untouched", pat.where(rst))
            if okk:
                r.ok("sibling", {"field": f, "reset": "fill(0x400) on equal size / Vec2D::init otherwise", "paths": "all"})
            continue
        if not ss:
            # an in-place reset method on the field: f.reset() must leave the field as its constructor builds it
            inpl = []
            for blk in rst.calls():
                cal = blk.term.callee
                if cal is None or not cal.target().local or not blk.term.args or blk.term.args[0].ty.k != "ref" or not blk.term.args[0].ty.mut:
                    continue
                a = tmr.of_operand(blk.term.args[0])
                while isinstance(a, tuple) and a and a[0] in ("ref", "deref"):
                    a = a[1]
                if isinstance(a, tuple) and a[0] == "field" and a[1] == f and pat.has_arg(a, "self"):
                    inpl.append(blk)
            fty = ftys.get(f)
            tn = fty.get("name") if isinstance(fty, dict) else None
            w = ctor.get(f)
            if inpl and tn and isinstance(w, tuple) and w[0] == "call" and w[1].split("::<")[0].endswith("%s::new" % tn.split("::")[-1]):
                sub = facts.by_def.get(inpl[0].term.callee.target().defk)
                probs = inplace_equiv(facts, sub, tn) if sub is not None else ["callee body not available"]
                covered = [x.idx for x in inpl]
                if not all(not c.some_path(0, [x], avoid=covered) for x in rets):
                    probs.append("a path through reset_state skips it")
                if probs:
                    r.bad("%s|inplace" % f, "`%s` is reset in place by %s, which does not restore the constructor's value: %s"
                          % (f, short(sub.name) if sub is not None else "?", "; ".join(probs[:3])), pat.where(rst, inpl[0].idx))
                else:
                    r.ok("sibling", {"field": f, "reset": "in place by %s, field by field equal to %s::new()" % (short(sub.name), tn.split("::")[-1])})
                continue
            r.bad("%s|missing" % f, "reset_state does not re-initialise `%s` (the constructor sets it to %s)"
                  % (f, flow.show(ctor.get(f))[:80]), pat.where(rst))
            continue
        okk = True
        for bb, t in ss:
            if strip_call_bb(t) != strip_call_bb(ctor.get(f)):
                okk = False
                r.bad("%s|differs" % f, "reset_state sets `%s` to %s, the constructor to %s"
                      % (f, flow.show(t)[:80], flow.show(ctor.get(f))[:80]), pat.where(rst, bb))
        # on every path
        if not all(not c.some_path(0, [x], avoid=[bb for bb, _ in ss]) for x in rets):
            okk = False
            r.bad("%s|path" % f, "a path through reset_state does not re-initialise `%s`" % f, pat.where(rst))
        if okk:
            r.ok("sibling", {"field": f, "value": flow.show(ctor.get(f))[:80]})
    # both validate the properties they store (shared with C07's justification)
    return r


def strip_call_bb(t):
    """Drop block ids from call terms (they differ between the two bodies)."""
    if not isinstance(t, tuple) or not t:
        return t
    if not isinstance(t[0], str):
        return tuple(strip_call_bb(x) for x in t)
    if t[0] == "call":
        return ("call", t[1], tuple(strip_call_bb(a) for a in t[2]))
    return tuple([t[0]] + [strip_call_bb(x) if isinstance(x, tuple) else x for x in t[1:]])


# ---------------------------------------------------------------- in-place resets
def _ctor_of(facts, adt_name):
    """(body, {field: term}) of `T::new()` - the argument-less constructor of a crate type."""
    sn = adt_name.split("::")[-1]
    for b in facts.bodies:
        if b.promoted is None and b.arg_count == 0 and short(b.name).split("::<")[0].endswith("%s::new" % sn):
            adt = facts.adt(adt_name)
            if adt is None:
                return None
            fields = [f["name"] for f in adt["variants"][0]["fields"]]
            tm = Terms(b)
            for blk in b.blocks:
                for s in blk.stmts:
                    if s.k == "assign" and s.rv.k == "aggregate" and s.rv.agg == "adt" and s.rv.adt_name == adt_name and len(s.rv.ops) == len(fields):
                        return b, {fields[i]: strip_call_bb(tm.of_operand(o)) for i, o in enumerate(s.rv.ops)}
    return None


def inplace_equiv(facts, m, adt_name, depth=0):
    """Does method `m(&mut self)` of crate type `adt_name` leave every field as `T::new()` builds it?
    Returns a list of problems (empty = equivalent)."""
    if depth > 4:
        return ["nesting too deep"]
    ct = _ctor_of(facts, adt_name)
    adt = facts.adt(adt_name)
    if ct is None or adt is None:
        return ["no argument-less constructor of %s to compare with" % adt_name]
    _, want = ct
    ftys = {f["name"]: f["ty"] for f in adt["variants"][0]["fields"]}
    tm = Terms(m)
    c = cfg(m)
    done = {}
    probs = []
    for blk in m.blocks:
        if blk.cleanup:
            continue
        for s in blk.stmts:
            if s.k == "assign" and s.place.proj and len(s.place.proj) == 2 and s.place.proj[-1][0] == "field" and \
                    pat.has_arg(tm.of_local(s.place.local), "self"):
                f = s.place.proj[-1][2]
                t = strip_call_bb(tm.of_rvalue(s.rv, 0))
                if t == want.get(f):
                    done[f] = True
                else:
                    probs.append("`%s` is set to %s, %s::new() builds %s" % (f, flow.show(t)[:50], adt_name.split("::")[-1], flow.show(want.get(f))[:50]))
                    done[f] = True
    for blk in m.calls():
        nm = flow.callee(blk.term) or ""
        if not blk.term.args:
            continue
        a = tm.of_operand(blk.term.args[0])
        base = a
        while isinstance(base, tuple) and base and base[0] in ("ref", "cast", "deref"):
            base = base[1] if base[0] != "cast" else base[2]
        # whole-array fill of a field
        if nm.endswith("core::slice::fill") and isinstance(base, tuple) and base[0] == "field" and base[1] in ftys:
            f = base[1]
            v = strip_call_bb(tm.of_operand(blk.term.args[1]))
            ty = ftys[f]
            if isinstance(ty, dict) and ty.get("k") == "array" and want.get(f) == ("repeat", v, ty["len"]):
                done[f] = True
            elif isinstance(want.get(f), tuple) and want[f][0] == "repeat" and want[f][1] == v:
                done[f] = True      # length given by a const generic
            else:
                probs.append("`%s` is filled with %s, the constructor builds %s" % (f, flow.show(v), flow.show(want.get(f))[:50]))
                done[f] = True
            continue
        cal = blk.term.callee
        if cal is None or not cal.target().local or blk.term.args[0].ty.k != "ref" or not blk.term.args[0].ty.mut:
            continue
        sub = facts.by_def.get(cal.target().defk)
        if sub is None or sub.arg_count != 1:
            continue
        # (a) a field that is itself a crate type: f.reset()
        if isinstance(base, tuple) and base[0] == "field" and base[1] in ftys and pat.has_arg(base, "self"):
            f = base[1]
            fty = ftys[f]
            tn = fty.get("name") if isinstance(fty, dict) else None
            w = want.get(f)
            if tn and isinstance(w, tuple) and w[0] == "call" and w[1].split("::<")[0].endswith("%s::new" % tn.split("::")[-1]):
                sp = inplace_equiv(facts, sub, tn, depth + 1)
                probs += ["%s.%s" % (f, x) for x in sp]
                done[f] = True
            continue
        # (b0) `for x in self.f.iter_mut() { x.reset() }`: every element of the array field
        it = [q for q in _subterms(a) if q[0] == "call" and q[1].endswith(("iter_mut", "IntoIterator::into_iter")) and
              not any(z[0] == "agg" and str(z[1]).endswith("Range::Range") for z in _subterms(q))]
        if it and pat.has_call(a, "::next") and not (isinstance(base, tuple) and base[0] == "index"):
            fbs = [q for q in _subterms(it[0]) if q[0] == "field" and q[1] in ftys and isinstance(ftys[q[1]], dict) and ftys[q[1]].get("k") == "array"]
            if fbs:
                f = fbs[0][1]
                fty = ftys[f]
                en = fty["elem"].get("name") if isinstance(fty.get("elem"), dict) else None
                w = want.get(f)
                elems_new = isinstance(w, tuple) and w[0] == "agg" and w[1] == "array" and en and \
                    all(isinstance(x, tuple) and x[0] == "call" and x[1].split("::<")[0].endswith("%s::new" % en.split("::")[-1]) for x in w[2])
                if elems_new:
                    probs += ["%s[*].%s" % (f, x) for x in inplace_equiv(facts, sub, en, depth + 1)]
                else:
                    probs.append("cannot compare the element-wise reset of `%s` with the constructor" % f)
                done[f] = True
                continue
        # (b) an element of an array field inside a loop over its indices: f[i].reset()
        if isinstance(base, tuple) and base[0] == "index" and isinstance(base[1], tuple):
            fb = base[1]
            while isinstance(fb, tuple) and fb and fb[0] in ("ref", "deref", "cast"):
                fb = fb[1] if fb[0] != "cast" else fb[2]
            if not (isinstance(fb, tuple) and fb[0] == "field" and fb[1] in ftys):
                continue
            f = fb[1]
            fty = ftys[f]
            if not (isinstance(fty, dict) and fty.get("k") == "array"):
                continue
            n = fty["len"]
            idx = base[2]
            rng = [q for q in _subterms(idx) if q[0] == "agg" and str(q[1]).endswith("Range::Range")]
            bound = None
            if rng:
                def lenleaf(q):
                    # `self.g.len()` of an array field
                    if (q[0] == "call" and q[1].endswith("::len")) or q[0] == "PtrMetadata":
                        for g_, ty_ in ftys.items():
                            if isinstance(ty_, dict) and ty_.get("k") == "array" and pat.has_field(q, g_):
                                return ty_["len"]
                    raise pat.NotEvaluable(q)
                try:
                    lo = pat.eval_term(rng[0][2][0], lenleaf)
                    hi = pat.eval_term(rng[0][2][1], lenleaf)
                    bound = (lo, hi)
                except (pat.NotEvaluable, pat.Overflow):
                    bound = None
            en = fty["elem"].get("name") if isinstance(fty.get("elem"), dict) else None
            w = want.get(f)
            elems_new = isinstance(w, tuple) and w[0] == "agg" and w[1] == "array" and en and \
                all(isinstance(x, tuple) and x[0] == "call" and x[1].split("::<")[0].endswith("%s::new" % en.split("::")[-1]) for x in w[2])
            if bound is None or not elems_new:
                probs.append("cannot compare the element-wise reset of `%s` with the constructor" % f)
            elif bound != (0, n):
                probs.append("the reset loop over `%s` covers elements %d..%d of %d" % (f, bound[0], bound[1], n))
            else:
                probs += ["%s[i].%s" % (f, x) for x in inplace_equiv(facts, sub, en, depth + 1)]
            done[f] = True
    for f in ftys:
        if f not in done:
            probs.append("`%s` is not touched" % f)
    return probs


def _subterms(t, out=None):
    out = [] if out is None else out
    if isinstance(t, tuple):
        if t and isinstance(t[0], str):
            out.append(t)
        for x in t:
            if isinstance(x, tuple):
                _subterms(x, out)
    return out


def rule_entries(facts):
    r = report.RuleResult("C14.R2", "the public reset entry points reinitialise unconditionally with the constructor's properties")
    for tn, ctor_sfx, props_field in (("LzmaDecoder", "LzmaDecoder::new", True), ("Lzma2Decoder", "Lzma2Decoder::new", False)):
        rs = pat.body_of(facts, "%s::reset" % tn)
        new = pat.body_of(facts, ctor_sfx)
        r.need("%s::reset and ::new" % tn, rs is not None and new is not None)
        if rs is None or new is None:
            continue
        r.sites += 1
        c = cfg(rs)
        tm, tmn = Terms(rs), Terms(new)
        calls = [blk for blk in rs.calls() if (flow.callee(blk.term) or "").endswith("DecoderState::reset_state")]
        where = pat.where(rs)
        if not calls:
            r.bad("%s|no-reset_state" % tn, "reset does not call reset_state", where)
            continue
        if not all(any(c.dominates(x.idx, ret) for x in calls) for ret in c.returns):
            r.bad("%s|conditional" % tn, "reset_state is skipped on some path through reset (a dirty decoder survives)", where)
        else:
            r.ok("dominance", {"type": tn, "reset_state": "on every path"})
        # properties: same as the constructor's DecoderState::new argument
        cn = [blk for blk in new.calls() if (flow.callee(blk.term) or "").endswith("DecoderState::new")]
        if not cn:
            r.bad("%s|ctor" % tn, "constructor does not build a DecoderState", pat.where(new))
            continue
        pa = strip_call_bb(tm.of_operand(calls[0].term.args[1]))
        pc = strip_call_bb(tmn.of_operand(cn[0].term.args[0]))
        # LzmaDecoder: ctor uses arg params.properties, reset uses self.params.properties
        if props_field:
            okk = pat.has_field(pa, "properties") and pat.has_field(pa, "params") and pat.has_field(pc, "properties")
        else:
            okk = pa == pc
        if okk:
            r.ok("sibling", {"type": tn, "reset props": flow.show(pa)[:80], "ctor props": flow.show(pc)[:80]})
        else:
            r.bad("%s|props" % tn, "reset re-initialises with %s, the constructor uses %s"
                  % (flow.show(pa)[:80], flow.show(pc)[:80]), where)
    # every field of the two raw decoders is either configuration (never written after construction) or state that the
    # reset entry point puts back to the constructor's value (the field list comes from the ADT: a new field is an obligation)
    for tn in ("decode::lzma::LzmaDecoder", "decode::lzma2::Lzma2Decoder"):
        adt = facts.adt(tn)
        rs = pat.body_of(facts, "%s::reset" % tn.split("::")[-1])
        new = pat.body_of(facts, "%s::new" % tn.split("::")[-1])
        if adt is None or rs is None or new is None:
            continue
        tmr_, tmn_ = Terms(rs), Terms(new)
        names = [f_["name"] for f_ in adt["variants"][0]["fields"]]
        ctor = {}
        for blk in new.blocks:
            for s_ in blk.stmts:
                if s_.k == "assign" and s_.rv.k == "aggregate" and s_.rv.agg == "adt" and s_.rv.adt_name == tn and len(s_.rv.ops) == len(names):
                    ctor = {names[i]: strip_call_bb(tmn_.of_operand(o)) for i, o in enumerate(s_.rv.ops)}
        for f_ in names:
            if f_ in ("state", "lzma_state"):
                continue        # the DecoderState: reset_state (above)
            writers = []
            for b in facts.bodies:
                if b.promoted is not None or short(b.name).split("::<")[0].endswith("%s::new" % tn.split("::")[-1]):
                    continue
                for blk in b.blocks:
                    if blk.cleanup:
                        continue
                    for s_ in blk.stmts:
                        if s_.k != "assign":
                            continue
                        hit = any(pr[0] == "field" and pr[2] == f_ and pr[4] == tn for pr in s_.place.proj) or \
                            (s_.rv.k == "ref" and s_.rv.mut and any(pr[0] == "field" and pr[2] == f_ and pr[4] == tn for pr in s_.rv.place.proj))
                        if hit:
                            writers.append((b, blk.idx, s_))
            r.sites += 1
            if not writers:
                r.ok("who-writes", {"type": tn.split("::")[-1], "field": f_, "kind": "configuration (never written after construction)"})
                continue
            inreset = [(b, bb, s_) for (b, bb, s_) in writers if b.defk == rs.defk and s_.place.proj and s_.place.proj[-1][2] == f_]
            good = False
            for (b, bb, s_) in inreset:
                if strip_call_bb(tmr_.of_rvalue(s_.rv, 0)) == ctor.get(f_):
                    good = True
            if good:
                r.ok("sibling", {"type": tn.split("::")[-1], "field": f_, "reset": "restores the constructor's value"})
            else:
                w = writers[0]
                r.bad("%s|field:%s" % (tn.split("::")[-1], f_), "`%s` changes while decoding (%s) but reset does not put it back to the constructor's "
                      "value (%s): a reset decoder differs from a new one" % (f_, short(w[0].name), flow.show(ctor.get(f_))[:40]), pat.where(w[0], w[1]))
    # no other writer of params / memlimit
    for b in facts.bodies:
        if b.promoted is not None:
            continue
        for blk in b.blocks:
            for s in blk.stmts:
                if s.k == "assign" and s.place.proj and s.place.proj[-1][0] == "field" and \
                        s.place.proj[-1][4] and s.place.proj[-1][4].endswith("LzmaDecoder") and s.place.proj[-1][2] in ("params", "memlimit"):
                    r.bad("LzmaDecoder|%s-writer" % s.place.proj[-1][2], "`%s` is modified after construction in %s"
                          % (s.place.proj[-1][2], short(b.name)), pat.where(b, blk.idx))
    return r


def rule_size_and_locals(facts):
    r = report.RuleResult("C14.R3", "no state besides the decoder tables survives a call: sizes are re-set, window and coder are locals")
    b = pat.body_of(facts, "Lzma2Decoder::parse_lzma")
    r.need("Lzma2Decoder::parse_lzma", b is not None)
    if b is not None:
        c = cfg(b)
        sets = [blk.idx for blk in b.calls() if (flow.callee(blk.term) or "").endswith("set_unpacked_size")]
        procs = [blk.idx for blk in b.calls() if (flow.callee(blk.term) or "").endswith("DecoderState::process")]
        r.sites += 1
        if sets and procs and all(any(c.dominates(s, p) for s in sets) for p in procs):
            r.ok("dominance", {"set_unpacked_size": "dominates process in parse_lzma"})
        else:
            r.bad("parse_lzma|size", "a chunk can be decoded with the size left over from an earlier call", pat.where(b))
    for sfx in ("LzmaDecoder::decompress", "Lzma2Decoder::decompress"):
        d = pat.body_of(facts, sfx)
        r.need(sfx, d is not None)
        if d is None:
            continue
        r.sites += 1
        tm = Terms(d)
        mk = [blk for blk in d.calls() if (flow.callee(blk.term) or "").endswith(("LzCircularBuffer::from_stream", "LzAccumBuffer::from_stream"))]
        stored = [s for blk in d.blocks for s in blk.stmts if s.k == "assign" and s.place.proj and
                  any(p[0] == "deref" for p in s.place.proj) and s.place.ty.k == "adt" and "lzbuffer" in (s.place.ty.name or "")]
        if mk and not stored and all(not blk.term.dest.proj for blk in mk):
            r.ok("locals", {"fn": short(d.name), "window": "built per call, kept in a local"})
        else:
            r.bad("%s|window" % sfx, "the window is not rebuilt per call", pat.where(d))
    return r


def rule_params_size_readers(facts):
    """The size in effect lives in the decoder state: `reset(Some(size))` replaces it there and nowhere else.  The copy kept
    in LzmaParams is therefore stale after a reset; it may be read only to hand it to DecoderState::new."""
    r = report.RuleResult("C14.R4", "LzmaParams.unpacked_size is read only to construct the decoder state")
    n = 0

    def is_field(pl):
        return pl is not None and any(pr[0] == "field" and pr[2] == "unpacked_size" and pr[4] and pr[4].endswith("lzma::LzmaParams") for pr in pl.proj)

    for b in facts.bodies:
        if b.promoted is not None or not b.file.startswith("src/"):
            continue
        if b.self_ty is not None and (b.self_ty.name or "").endswith("lzma::LzmaParams"):
            continue
        tracked = set()
        bad = None
        reads = 0
        changed = True
        while changed:
            changed = False
            for blk in b.blocks:
                if blk.cleanup:
                    continue
                for st in blk.stmts:
                    if st.k != "assign":
                        continue
                    srcs = [o.place for o in st.rv.operands() if o.place is not None] + ([st.rv.place] if st.rv.place is not None else [])
                    hit = [pl for pl in srcs if is_field(pl) or (not pl.proj and pl.local in tracked)]
                    if not hit:
                        continue
                    if st.rv.k == "use" and not st.place.proj:
                        if st.place.local not in tracked:
                            tracked.add(st.place.local)
                            changed = True
                    elif st.rv.k == "ref" and not st.rv.mut and not st.place.proj and b.kind != "Closure":
                        # a shared borrow handed on (formatting, a derived impl) is followed like a copy
                        if st.place.local not in tracked:
                            tracked.add(st.place.local)
                            changed = True
                    else:
                        bad = bad or (blk.idx, "used in %s" % st.rv.k)
        for blk in b.blocks:
            if blk.cleanup:
                continue
            for st in blk.stmts:
                if st.k == "assign":
                    srcs = [o.place for o in st.rv.operands() if o.place is not None] + ([st.rv.place] if st.rv.place is not None else [])
                    reads += len([pl for pl in srcs if is_field(pl)])
            t = blk.term
            if t.k == "switch" and t.discr.place is not None and (is_field(t.discr.place) or (not t.discr.place.proj and t.discr.place.local in tracked)):
                bad = bad or (blk.idx, "decides a branch")
            if t.k == "call":
                nm = flow.callee(t) or ""
                for a in t.args:
                    if a.place is not None and (is_field(a.place) or (not a.place.proj and a.place.local in tracked)):
                        reads += 1 if is_field(a.place) else 0
                        if not (nm.endswith("DecoderState::new") or nm.startswith(("core::fmt::", "std::fmt::")) or "fmt::" in nm):
                            bad = bad or (blk.idx, "passed to %s" % nm.split("::")[-1])
        if not reads:
            continue
        n += 1
        if bad:
            r.bad("%s|params-size" % short(b.name), "the construction-time size kept in LzmaParams is %s in %s: after reset(Some(size)) that copy is "
                  "stale, a reused decoder then differs from a fresh one" % (bad[1], short(b.name)), pat.where(b, bad[0]))
        else:
            r.ok("who-reads", {"fn": short(b.name)})
    r.sites = n
    r.need("readers of LzmaParams.unpacked_size outside LzmaParams (found %d)" % n, n >= 1)
    return r


def rule_carry_over_premise(facts):
    """The exception of R1 for `partial_input_buf` rests on a premise: outside streaming (mode == Partial) nothing is ever staged in
    it, so a raw decoder that is reset cannot hold stale input.  Decided here rather than cited: every call of the staging routine
    `read_partial_input_buf` in the decode loop lies under the true edge of `mode == Partial`, or under a test that the buffer is
    non-empty already (the top-up of what a Partial round staged): by induction a decoder that only ever runs in Finish mode - the raw
    decoders and the one-shot functions - keeps it empty."""
    from rules import C13
    r = report.RuleResult("C14.R1b", "the carry-over buffer (not re-initialised by reset) is filled only in Partial mode")
    p = pat.body_of(facts, "DecoderState::process_mode")
    r.need("DecoderState::process_mode", p is not None)
    if p is None:
        return r
    tm, c = Terms(p), cfg(p)
    calls = [blk for blk in p.calls() if (flow.callee(blk.term) or "").endswith("read_partial_input_buf")]
    others = [b for b in facts.bodies if b is not p and b.promoted is None and
              any((flow.callee(blk.term) or "").endswith("read_partial_input_buf") for blk in b.calls())]
    r.sites = len(calls)
    r.need("the staging call in process_mode (found %d)" % len(calls), len(calls) >= 1)
    gs, gtm = pat.guards(p)

    def nonempty_guarded(ub):
        """dominated by the true edge of a test that fails when the buffer is empty (`position() > 0`): topping up what an earlier
        Partial-mode round staged - by induction never reached by a decoder that runs in Finish mode only."""
        for (bb, t, z, nz) in gs:
            if not (pat.has_field(t, "partial_input_buf") and pat.has_call(t, "Cursor::position")) or pat.has_arg(t, "mode"):
                continue
            def leaf(q, v):
                if q[0] == "call" and q[1].endswith("Cursor::position"):
                    return v
                raise pat.NotEvaluable(q)
            try:
                tv = [pat.eval_cmp(t, lambda q, v=v: leaf(q, v)) for v in range(0, 21)]
            except (pat.NotEvaluable, pat.Overflow):
                continue
            for edge, truth in ((nz, True), (z, False)):
                if tv[0] == (not truth) and all(x == truth for x in tv[1:]) and (edge == ub or c.dominates(edge, ub)) and len(c.pred[edge]) == 1:
                    return True
        return False
    for blk in calls:
        if C13.mode_guarded(facts, p, tm, c, blk.idx):
            r.ok("dominance", {"read_partial_input_buf": "only under mode == Partial"})
        elif nonempty_guarded(blk.idx):
            r.ok("dominance", {"read_partial_input_buf": "top-up under `position() > 0` (a buffer that a Partial-mode round filled)"})
        else:
            r.bad("carry-over|finish-mode", "input is staged in `partial_input_buf` outside Partial mode: a raw decoder that is reset after a "
                  "truncated input keeps the staged bytes (reset_state does not clear them) and feeds them to the next stream", pat.where(p, blk.idx))
    for b in others:
        r.bad("carry-over|other-caller:%s" % short(b.name), "read_partial_input_buf is also called from %s: cannot verify that the raw decoders "
              "never stage input" % short(b.name), pat.where(b), "unverifiable")
    return r


def run(ctx, t0):
    facts = ctx.facts()
    from rules import C08
    rules = [rule_fields(facts), rule_carry_over_premise(facts), rule_entries(facts), rule_size_and_locals(facts), C08.rule_size_writers(facts, "C14.R3b"), rule_params_size_readers(facts)]
    expl = ("Static sibling agreement: the provenance term stored in each DecoderState field by reset_state is compared "
            "with the constructor's (field list taken from the ADT definition), on every path; the reset entry points "
            "are checked by dominance and by comparing the properties argument with the constructor's.")
    return report.finish(PROP, ctx.tier, rules, expl, [], TRUSTED, t0, None, ctx.seed)
