"""C15 - streaming output is a prefix of the final output and keeps up with the input
[claimed for the structural clauses only].

R1  output only by committed steps: bytes reach the window only through
    append_literal / append_lz, which the symbol decoder calls only under
    update = true (C05.R1 effect analysis); the dry run cannot emit.
R2  commit discipline (C05.R5): a symbol is committed only after a successful
    dry run or with the full look-ahead available - a committed symbol is never
    revised, so what was produced stays a prefix.
R3  nothing but input is decoded: readers over the staging arrays end at the
    fill position, and staged bytes are never dropped or duplicated
    (C05.R3 term rules).
R4  keeps up: the carry-over buffer is refilled at every fill level below
    capacity (C05.R4), the look-ahead is the 20-byte capacity (C05.R2), so the
    decoder lags by at most one symbol's input.
R5  allow_incomplete: the option is read only in finish, where it guards only
    the final end-of-stream `process` call; both settings pass the window
    flush (LzBuffer::finish) on every Ok path of the Data arm.
Declined: the 64-byte lag figure and prefix equality at value level (numerics).
"""
from engine import flow, report
from engine.flow import Terms, cfg, short
from rules import pat, C05
from rules.common import TRUSTED
from rules.C03 import _subterms

PROP = "C15"


def rule_emitters(facts):
    r = report.RuleResult("C15.R1", "the window is extended only by committed steps (update = true)")
    root, fam = C05.update_family(facts)
    r.need("update-flag family", root is not None and len(fam) >= 6)
    if root is None:
        return r
    n = 0
    for b in facts.bodies:
        if b.promoted is not None:
            continue
        for blk in b.calls():
            d = flow.declared(blk.term) or ""
            if d.endswith(("LzBuffer::append_literal", "LzBuffer::append_lz")):
                fn = short(b.name)
                if "lzbuffer" in fn:
                    continue       # the window's own append_lz uses append_literal
                n += 1
                if b.defk in fam:
                    up = C05._update_param(b)
                    tm = Terms(b)
                    c = cfg(b)
                    okk = False
                    for g in b.blocks:
                        if g.cleanup or g.term.k != "switch":
                            continue
                        if tm.of_operand(g.term.discr) == ("arg", up, b.locals[up].name) and len(g.term.targets) == 1 and \
                                c.dominates(g.term.otherwise, blk.idx) and len(c.pred[g.term.otherwise]) == 1:
                            okk = True
                    if okk:
                        r.ok("control-dependence", {"fn": fn, "emit": d.split("::")[-1], "under": "update"})
                    else:
                        r.bad("%s|emit:%s" % (fn, d.split("::")[-1]), "the window is extended during a dry run", pat.where(b, blk.idx))
                elif d.endswith("append_lz") or d.endswith("append_literal"):
                    r.bad("%s|emitter" % fn, "%s extends the window outside the symbol decoder" % fn, pat.where(b, blk.idx), "unverifiable")
        # uncompressed LZMA2 chunks use append_bytes: not part of the streaming decoder
    r.sites = n
    r.need("the three emit sites of the symbol decoder (found %d)" % n, n >= 3)
    # family purity as a whole
    rp = C05.rule_purity(facts)
    for f in rp.findings:
        f.rule = "C15.R1"
        r.findings.append(f)
    r.obligations += rp.obligations
    r.discharged += rp.discharged
    return r


def rule_allow_incomplete(facts):
    r = report.RuleResult("C15.R5", "allow_incomplete only skips the final end-of-stream check; the window is flushed either way")
    f = pat.body_of(facts, "decode::stream::Stream::finish")
    r.need("Stream::finish", f is not None)
    if f is None:
        return r
    # who reads the option
    readers = []
    for b in facts.bodies:
        if b.promoted is not None:
            continue
        for blk in b.blocks:
            if blk.cleanup:
                continue
            ops = []
            for s in blk.stmts:
                if s.k == "assign":
                    ops += [o.place for o in s.rv.operands() if o.place is not None]
                    if s.rv.place is not None:
                        ops.append(s.rv.place)
            if blk.term.k == "switch" and blk.term.discr.place is not None:
                ops.append(blk.term.discr.place)
            if any(any(pr[0] == "field" and pr[2] == "allow_incomplete" for pr in pl.proj) for pl in ops):
                readers.append((b, blk.idx))
    r.sites = len(readers) + 2
    outside = [(b, bb) for b, bb in readers if b.defk != f.defk and "Options" not in short(b.name) and "fmt" not in short(b.name)
               and not short(b.name).endswith(("clone", "default", "eq"))]
    if outside:
        r.bad("allow|other-reader", "allow_incomplete is also read in %s" % short(outside[0][0].name), pat.where(outside[0][0], outside[0][1]))
    elif not any(b.defk == f.defk for b, _ in readers):
        r.bad("allow|unread", "Stream::finish does not read allow_incomplete", pat.where(f), "unverifiable")
    else:
        r.ok("who-reads", {"allow_incomplete": "read in Stream::finish only"})
    tm = Terms(f)
    c = cfg(f)
    sw = [blk for blk in f.blocks if not blk.cleanup and blk.term.k == "switch" and pat.has_field(tm.of_operand(blk.term.discr), "allow_incomplete")]
    proc = [blk.idx for blk in f.calls() if (flow.callee(blk.term) or "").endswith("DecoderState::process")]
    fin = [blk.idx for blk in f.calls() if (flow.declared(blk.term) or "").endswith("LzBuffer::finish")]
    if len(sw) != 1 or len(proc) != 1 or len(fin) != 1:
        r.bad("allow|shape", "expected one allow_incomplete test, one final process call and one window flush", pat.where(f), "unverifiable")
        if not fin:
            return r
        z = nz = None
    else:
        z, nz = sw[0].term.targets[0][1], sw[0].term.otherwise      # z: allow == false
        # the test may be on a value computed from the option (`let check = !allow`): the edge taken for allow == false is found
        # by evaluation
        try:
            tsw = tm.of_operand(sw[0].term.discr)
            vals = [pat.eval_term(tsw, lambda q, v=v: v if (q[0] == "field" and q[1] == "allow_incomplete") else (_ for _ in ()).throw(pat.NotEvaluable(q)))
                    for v in (0, 1)]
            if vals[0] != 0 and vals[1] == 0:
                z, nz = nz, z
            elif not (vals[0] == 0 and vals[1] != 0):
                z = nz = None
                r.bad("allow|shape", "the test on allow_incomplete does not separate its two values", pat.where(f, sw[0].idx), "unverifiable")
        except (pat.NotEvaluable, pat.Overflow):
            z = nz = None
            r.bad("allow|shape", "cannot evaluate the test on allow_incomplete", pat.where(f, sw[0].idx), "unverifiable")
    if z is None:
        pass
    elif not (c.dominates(z, proc[0]) or z == proc[0]) or proc[0] in c.reachable_from(nz, avoid=[z]):
        r.bad("allow|check", "the end-of-stream check is not run exactly when allow_incomplete is false", pat.where(f, sw[0].idx))
    elif fin[0] not in c.reachable_from(nz) or fin[0] not in c.reachable_from(z):
        r.bad("allow|flush", "one setting of allow_incomplete does not reach the window flush", pat.where(f, sw[0].idx))
    else:
        # everything control dependent on the option other than the check: nothing between nz and the flush may touch state
        between = c.reachable_from(nz, avoid=[fin[0]]) - {nz}
        calls = [x for x in between if f.blocks[x].term.k == "call" and x != fin[0] and not f.blocks[x].cleanup and
                 "drop" not in (flow.callee(f.blocks[x].term) or "").lower()]
        r.ok("control-dependence", {"allow_incomplete = false": "process(Finish) then flush", "true": "flush only"})
    # conversely: the final end-of-stream pass (the only place where the streaming API compares the produced length with the
    # size in effect and the coder's final state) is skipped for no other reason than allow_incomplete
    if len(proc) == 1:
        from engine.flow import PosTerms
        ptf = PosTerms(f)
        term_at = lambda b_: ptf.at(b_.idx, None).of_operand(b_.term.discr)
        extra = []
        for (gb, t_, cond) in pat.branch_conditions(f, c, proc[0], term_at):
            if t_[0] == "discr" or pat.has_field(t_, "allow_incomplete"):
                continue        # Option / State discriminants and the option itself
            extra.append(t_)
        if extra:
            r.bad("allow|check-extra-guard", "the final end-of-stream pass of finish also depends on %s: with that condition the size in effect "
                  "and the coder's end state are never checked" % flow.show(extra[-1])[:70], pat.where(f, proc[0]))
        else:
            r.ok("control-dependence", {"final pass": "depends on allow_incomplete only"})
    # every Ok of the Data arm passes the flush
    data_arm = None
    for blk in f.blocks:
        if blk.cleanup or blk.term.k != "switch":
            continue
        t = tm.of_operand(blk.term.discr)
        if t[0] == "discr" and pat.has_call(t, "Option::take") and len(blk.term.targets) >= 2 and not pat.has_call(t, "Try::branch") \
                and data_arm is None:
            data_arm = dict(blk.term.targets).get(1)
    # more precisely: the switch on the discriminant of the State enum, its `Data` edge (whatever the nesting of the matches)
    adt_state = facts.adt("decode::stream::State")
    if adt_state is not None:
        vidx = [i for i, v in enumerate(adt_state["variants"]) if v["name"].split("::")[-1] == "Data"]
        for blk in f.blocks:
            if blk.cleanup or blk.term.k != "switch" or blk.term.discr.place is None or blk.term.discr.place.proj:
                continue
            dl = blk.term.discr.place.local
            for b2 in f.blocks:
                for st in b2.stmts:
                    if st.k == "assign" and not st.place.proj and st.place.local == dl and st.rv.k == "discriminant" and \
                            st.rv.place.ty.k == "adt" and (st.rv.place.ty.name or "").endswith("stream::State") and vidx:
                        e_ = dict(blk.term.targets).get(vidx[0], blk.term.otherwise)
                        # (drop elaboration may test the discriminant again on the way out: the arm that leads to the flush counts)
                        if fin and (c.dominates(e_, fin[0]) or e_ == fin[0]):
                            data_arm = e_
    oks = [o for o, k in flow.ret_sources(f).items() if k in ("ok", "any", "other")]
    if data_arm is not None and oks:
        mine = [x for x in oks if x in c.reachable_from(data_arm)]
        if mine and all(x not in c.reachable_from(data_arm, avoid=[fin[0]]) for x in mine):
            r.ok("must-pass", {"Data arm": "every Ok passes LzBuffer::finish"})
        else:
            r.bad("allow|ok-without-flush", "finish can succeed in the Data state without flushing the window", pat.where(f))
    else:
        r.bad("allow|arm", "cannot locate the Data arm of Stream::finish", pat.where(f), "unverifiable")
    return r


def rule_sink_sites(facts):
    """Without bookkeeping of what was already delivered, the window may hand its bytes to the sink only at the two
    points where each byte is delivered exactly once: the whole buffer when the cursor wraps, and [0, cursor) in finish."""
    r = report.RuleResult("C15.R6", "window bytes reach the sink exactly once: whole buffer at the wrap, [0, cursor) at finish")
    n = 0
    seen = {"wrap": 0, "finish": 0}
    for b in facts.bodies:
        if b.promoted is not None or b.self_ty is None or not (b.self_ty.name or "").endswith("LzCircularBuffer"):
            continue
        tm = Terms(b)
        c = cfg(b)
        fn = short(b.name)
        for blk in b.calls():
            d = flow.declared(blk.term) or ""
            if not d.endswith(("Write::write_all", "Write::write")) or not blk.term.args:
                continue
            if not pat.has_field(tm.of_operand(blk.term.args[0]), "stream"):
                continue
            n += 1
            data = tm.of_operand(blk.term.args[1])
            where = pat.where(b, blk.idx)
            if b.item == "append_literal" and pat.has_call(data, "Vec::as_slice") and pat.has_field(data, "buf") and not pat.has_call(data, "index"):
                # under cursor == dict_size, followed by cursor = 0
                okk = any(c.dominates(full, blk.idx) for (_, full) in pat.wrap_guards(b))
                if okk:
                    seen["wrap"] += 1
                    r.ok("term", {"fn": fn, "sink write": "whole window at cursor == dict_size"})
                else:
                    r.bad("%s|wrap-guard" % fn, "the whole window is written to the sink without the cursor == dict_size test", where)
            elif b.item == "finish":
                idx = [q for q in _subterms(data) if q[0] == "call" and q[1].endswith(("::index", "Index::index"))]
                okk = False
                if idx:
                    rng = idx[0][2][1]
                    if rng[0] == "agg" and rng[1].endswith(("Range::Range", "RangeTo::RangeTo")):
                        lo = rng[2][0] if len(rng[2]) == 2 else ("const", 0)
                        hi = rng[2][-1]
                        okk = lo == ("const", 0) and pat.strip(hi) and pat.strip(hi)[0] == "field" and pat.strip(hi)[1] == "cursor"
                if okk:
                    seen["finish"] += 1
                    r.ok("term", {"fn": fn, "sink write": "buf[0..cursor] at finish"})
                else:
                    r.bad("%s|finish-slice" % fn, "finish hands %s to the sink, not buf[0..cursor]: bytes may be lost or delivered twice"
                          % flow.show(data)[:80], where)
            else:
                r.bad("%s|extra-sink-write" % fn, "an additional place writes window bytes to the sink (%s): nothing here tracks what was "
                      "already delivered, so bytes can reach the sink twice or out of order" % flow.show(data)[:60], where, "unverifiable")
    r.sites = n
    r.need("the wrap write and the finish write of the circular window (found %s)" % seen, seen["wrap"] >= 1 and seen["finish"] >= 1)
    return r


def _rename(rr, rule):
    rr.rule = rule
    for f in rr.findings:
        f.rule = rule
    return rr


def run(ctx, t0):
    facts = ctx.facts()
    pat.FACTS = facts
    rules = [rule_emitters(facts), _rename(C05.rule_commit(facts), "C15.R2"), _rename(C05.rule_staging(facts), "C15.R3"),
             _rename(C05.rule_refill(facts), "C15.R4"), _rename(C05.rule_constants(facts), "C15.R4b"), rule_allow_incomplete(facts), rule_sink_sites(facts), _rename(__import__('rules.C01', fromlist=['x']).rule_window(facts), "C15.R7"),
             _rename(C05.rule_carry(facts), "C15.R8")]
    expl = ("Static, structural clauses only: who-may-emit enumeration of the window's append calls with control dependence on the update "
            "flag, the dry-run / commit protocol, provenance of staged slices and positions, refill guards evaluated over all fill levels, "
            "who-reads enumeration of allow_incomplete and control dependence / must-pass-through in Stream::finish. The lag figure and "
            "prefix equality at value level are declined.")
    return report.finish(PROP, ctx.tier, rules, expl, [], TRUSTED, t0, None, ctx.seed)
