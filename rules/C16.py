"""C16 - a failed or completed stream stays failed or completed.

Typestate over the latch `Stream.state: Option<State<W>>` (the Option-typed
field of the streaming decoder that holds the sink).

R1  at every Err source of the streaming `write`, the latch is empty: on every
    path the last operation on it was `take()` (or an assignment of None); the
    only refill (`replace` / assignment of Some) is followed by Ok only.
R2  with the latch empty, `write` calls nothing that can touch a sink or the
    decoder, and `finish` returns Err; `flush` does nothing.
R3  completed stream: the loop of the shared decoding core tests the produced
    length against the size in effect with an ordering comparison as the first
    thing of every round, before any consuming read or append.
(A compile-fail witness "write after finish(self) is E0382" was built and removed: the property says nothing
about calls after finish, so the witness demanded more than the property - see DESIGN.md section 10.)
"""
import os
import subprocess

from engine import flow, report
from engine.flow import Terms, cfg, short
from rules.common import TRUSTED
from rules import pat

PROP = "C16"


def latch_field(facts):
    """The Option-typed field of the public streaming type."""
    for a in facts.adts.values():
        if a["kind"] != "Struct":
            continue
        for i, f in enumerate(a["variants"][0]["fields"]):
            t = f["ty"]
            if t.get("k") == "adt" and t.get("name") == "std::option::Option" and t["args"] and \
                    t["args"][0].get("k") == "adt" and "State" in t["args"][0].get("name", ""):
                return a["name"], f["name"]
    return None, None


def touches_latch(tm, op, field):
    t = tm.of_operand(op)
    return flow.term_has(t, lambda q: q[0] == "field" and q[1] == field)


def latch_ops(b, field):
    """bb -> op in {'take','fill','none','peek'} for operations on self.<field>."""
    tm = Terms(b)
    ops = {}
    for blk in b.blocks:
        if blk.cleanup:
            continue
        for s in blk.stmts:
            if s.k == "assign" and s.place.proj and s.place.proj[-1][0] == "field" and s.place.proj[-1][2] == field:
                if s.rv.k == "aggregate" and s.rv.adt_name == "std::option::Option":
                    ops[blk.idx] = "none" if s.rv.variant == 0 else "fill"
                else:
                    ops[blk.idx] = "fill"
        t = blk.term
        if t.k == "call" and t.args and touches_latch(tm, t.args[0], field):
            dn = flow.declared(t) or ""
            if dn.endswith("Option::take"):
                ops[blk.idx] = "take"
            elif dn.endswith(("Option::replace", "Option::insert", "Option::get_or_insert")):
                ops[blk.idx] = "fill"
            elif dn.endswith(("Option::as_mut", "Option::as_ref", "Option::is_some", "Option::is_none")):
                ops.setdefault(blk.idx, "peek")
            else:
                ops.setdefault(blk.idx, "peek")
    return ops


def latch_states(b, ops):
    """Forward dataflow: possible latch states at block entry.
    'U' unknown (as on entry), 'N' empty, 'S' filled."""
    c = cfg(b)
    ins = {0: {"U"}}
    work = [0]
    while work:
        x = work.pop()
        cur = set(ins[x])
        op = ops.get(x)
        if op in ("take", "none"):
            cur = {"N"}
        elif op == "fill":
            cur = {"S"}
        for y in c.succ[x]:
            old = ins.get(y, set())
            new = old | cur
            if new != old:
                ins[y] = new
                work.append(y)
    return ins


def rule_write(facts, tname, field):
    r = report.RuleResult("C16.R1", "after any failing write the latch is empty; it is refilled only on success")
    r2 = report.RuleResult("C16.R2", "with the latch empty nothing touches the sink or the decoder")
    ws = [b for b in facts.bodies if b.trait == "std::io::Write" and b.item == "write" and b.self_ty is not None
          and b.self_ty.name == tname and b.promoted is None]
    r.need("streaming write implementation", len(ws) == 1)
    if not ws:
        return r, r2
    b = ws[0]
    fn = short(b.name)
    ops = latch_ops(b, field)
    ins = latch_states(b, ops)
    c = cfg(b)
    takes = [x for x, o in ops.items() if o == "take"]
    fills = [x for x, o in ops.items() if o == "fill"]
    r.need("take() of the latch", len(takes) >= 1)
    r.need("refill of the latch", len(fills) >= 1)
    src = flow.ret_sources(b)
    errs = [x for x, k in src.items() if k == "err"]
    r.sites = len(errs) + len(fills)
    for e in errs:
        stt = ins.get(e, set())
        # state after this block's own op (none here normally)
        where = "%s (%s)" % (fn, b.blocks[e].term.span)
        if stt <= {"N"} and stt:
            r.ok("typestate", {"error exit": str(b.blocks[e].term.span), "latch": "empty"})
        else:
            r.bad("%s|err-latch" % fn, "an error return is reachable with the stream state still in place "
                  "(latch %s): a later write would keep decoding" % "/".join(sorted(stt)), where)
    for f in fills:
        where = "%s (%s)" % (fn, b.blocks[f].term.span)
        if flow.err_blocks(b) and (c.reachable_from(f) & set(errs)):
            r.bad("%s|fill-then-err" % fn, "the state is put back before a fallible step", where)
        else:
            r.ok("path", {"refill": "followed by Ok only"})
    # R2: None edge of the take result
    tm = Terms(b)
    found = False
    for blk in b.blocks:
        if blk.cleanup or blk.term.k != "switch":
            continue
        t = tm.of_operand(blk.term.discr)
        if t[0] == "discr" and isinstance(t[1], tuple) and t[1] and t[1][0] == "call" and t[1][1].endswith("Option::take"):
            none_edge = None
            for v, tgt in blk.term.targets:
                if v == 0:
                    none_edge = tgt
            if none_edge is None:
                none_edge = blk.term.otherwise if all(v != 0 for v, _ in blk.term.targets) else None
            if none_edge is None:
                continue
            found = True
            r2.sites += 1
            reach = c.reachable_from(none_edge)
            bad = []
            for x in reach:
                tt = b.blocks[x].term
                if tt.k == "call":
                    dn = flow.declared(tt) or ""
                    if dn.endswith(("Cursor::position", "Drop::drop")) or dn.startswith("std::io::Cursor"):
                        continue
                    bad.append(dn)
            where = "%s (%s)" % (fn, blk.term.span)
            if bad:
                r2.bad("%s|none-calls" % fn, "on an emptied stream `write` still calls %s" % ", ".join(sorted(set(bad))[:3]), where)
            else:
                r2.ok("path", {"None arm of write": "no call besides Cursor::position"})
    r2.need("None arm of the taken latch in write", found)
    return r, r2


def rule_finish_flush(facts, tname, field, r2):
    fins = [b for b in facts.bodies if b.self_ty is not None and b.self_ty.name == tname and b.item == "finish"
            and b.trait is None and b.promoted is None]
    r2.need("finish of the streaming type", len(fins) == 1)
    for b in fins:
        fn = short(b.name)
        tm = Terms(b)
        found = False
        for blk in b.blocks:
            if blk.cleanup or blk.term.k != "switch":
                continue
            t = tm.of_operand(blk.term.discr)
            if t[0] == "discr" and isinstance(t[1], tuple) and t[1] and t[1][0] == "call" and t[1][1].endswith("Option::take"):
                found = True
                r2.sites += 1
                none_edge = None
                for v, tgt in blk.term.targets:
                    if v == 0:
                        none_edge = tgt
                if none_edge is None:
                    none_edge = blk.term.otherwise
                where = "%s (%s)" % (fn, blk.term.span)
                if flow.reaches_ok(b, none_edge):
                    r2.bad("%s|none-ok" % fn, "finish can succeed after a failed write", where)
                else:
                    r2.ok("path", {"None arm of finish": "Err only"})
        if not found:
            # `self.state.take().ok_or_else(|| Error..)?`: the None case is turned into an error by ok_or / ok_or_else and
            # propagated - the same refusal, without a switch in this body
            for blk in b.calls():
                nm = flow.declared(blk.term) or ""
                if nm.endswith(("Option::ok_or_else", "Option::ok_or")) and blk.term.args and \
                        pat.has_call(tm.of_operand(blk.term.args[0]), "Option::take"):
                    nb = b.blocks[blk.term.target] if blk.term.target is not None else None
                    if nb is not None and flow.is_try_branch(nb.term):
                        found = True
                        r2.sites += 1
                        r2.ok("path", {"None arm of finish": "ok_or_else(..)? - Err only"})
        r2.need("None arm in finish", found)
    fl = [b for b in facts.bodies if b.trait == "std::io::Write" and b.item == "flush" and b.self_ty is not None
          and b.self_ty.name == tname]
    for b in fl:
        # calls on the None / Header paths: none expected except in the Data arm
        pass
    return r2


def rule_completed(facts):
    r = report.RuleResult("C16.R3", "once the size in effect is reached a round of the decoding core does nothing")
    cands = []
    for b in facts.bodies:
        if b.promoted is not None or b.kind != "AssocFn":
            continue
        # the unique method taking a ProcessingMode-like two-variant fieldless enum and containing a loop
        if any(l.ty.k == "adt" and l.ty.name.endswith("ProcessingMode") for l in b.locals[1:b.arg_count + 1]) and \
                cfg(b).loops():
            cands.append(b)
    r.need("decoding core loop (method taking the processing mode)", len(cands) == 1)
    for b in cands:
        fn = short(b.name)
        tm = Terms(b)
        c = cfg(b)
        loops = c.loops()
        h, blocks, tails = max(loops, key=lambda l: len(l[1]))
        # the size test: switch on a comparison between LzBuffer::len(output) and the payload of unpacked_size
        tests = []
        for x in sorted(blocks):
            blk = b.blocks[x]
            if blk.term.k != "switch":
                continue
            t = tm.of_operand(blk.term.discr)
            # (the verdict may come out of a spliced `is_done()?` helper: then the test is one alternative of the value tested)
            alts = list(t[1]) if (t[0] == "phi" and len(t) == 2 and isinstance(t[1], tuple) and t[1] and not isinstance(t[1][0], str)) else [t]
            for t in alts:
                if isinstance(t, tuple) and t and t[0] in ("Ge", "Gt", "Le", "Lt", "Eq", "Ne") and \
                        flow.term_has(t, lambda q: q[0] == "call" and q[1].endswith("LzBuffer::len")) and \
                        flow.term_has(t, lambda q: q[0] == "field" and q[1] == "unpacked_size"):
                    tests.append((x, t))
        r.need("size test inside the core loop", len(tests) >= 1)
        for x, t in tests[:1]:
            r.sites += 1
            where = "%s (%s)" % (fn, b.blocks[x].term.span)
            if t[0] in ("Eq", "Ne"):
                r.bad("%s|size-test-eq" % fn, "the loop stops only when produced == size: a match that overshoots the "
                      "size keeps the decoder running (use an ordering test)", where)
            elif flow.term_has(t, lambda q: q[0] in ("Sub", "Add", "Mul")):
                r.bad("%s|size-test-arith" % fn, "the size test computes %s: it can wrap or overflow when the output "
                      "overshoots the size" % flow.show(t), where)
            else:
                r.ok("term", {"size test": flow.show(t)})
            # it dominates every consuming read / append of the loop body
            bad = []
            for y in blocks:
                tt = b.blocks[y].term
                if tt.k == "call":
                    dn = flow.declared(tt) or ""
                    cal = flow.callee(tt) or ""
                    consuming = dn.endswith(("fill_buf", "consume", "Read::read")) or "process_next" in cal or \
                        "read_partial_input_buf" in cal or dn.endswith(("append_literal", "append_lz"))
                    if consuming and not c.dominates(x, y):
                        # allowed: the end-of-input probe on the branch where no size is in effect
                        if dn.endswith(("is_eof", "is_finished_ok")) or "is_eof" in cal or "is_finished_ok" in cal:
                            continue
                        bad.append(cal or dn)
            # the test must sit on the Some(size) edge at the loop top: its block is reached from the
            # header without passing a consuming call
            if bad:
                # consuming calls not dominated are fine only if they are on the `None` (no size) side
                nob = [z for z in bad if True]
                side_ok = size_side_only(b, tm, c, h, x, blocks)
                if side_ok:
                    r.ok("dominance", {"fn": fn, "consuming calls": "behind the size test whenever a size is in effect"})
                else:
                    r.bad("%s|size-test-late" % fn, "input is consumed or output produced before the size test (%s)"
                          % ", ".join(sorted(set(bad))[:3]), where)
            else:
                r.ok("dominance", {"fn": fn, "size test": "dominates every consuming call of the round"})
    return r


def size_side_only(b, tm, c, h, x, blocks):
    """From the loop header, on the edge where the size is Some, the size test
    is reached before any consuming call."""
    # find the discriminant switch on unpacked_size dominating x
    for y in blocks:
        blk = b.blocks[y]
        if blk.term.k != "switch" or not c.dominates(y, x):
            continue
        t = tm.of_operand(blk.term.discr)
        if t[0] == "discr" and flow.term_has(t, lambda q: q[0] == "field" and q[1] == "unpacked_size"):
            some = [tgt for v, tgt in blk.term.targets if v == 1]
            if not some:
                continue
            # header -> y: no consuming call
            between = c.reachable_from(h, avoid=[y]) & c.reaching(y)
            for z in list(between) + [y]:
                tt = b.blocks[z].term
                if tt.k == "call":
                    dn = flow.declared(tt) or ""
                    if dn.endswith(("fill_buf", "consume", "Read::read", "append_literal", "append_lz")):
                        return False
            # some-edge: x is reached before any consuming call
            reach = c.reachable_from(some[0], avoid=[x])
            for z in reach:
                if z not in blocks:
                    continue
                tt = b.blocks[z].term
                if tt.k == "call":
                    dn = flow.declared(tt) or ""
                    cal = flow.callee(tt) or ""
                    if dn.endswith(("fill_buf", "consume", "Read::read", "append_literal", "append_lz")) or \
                            "process_next" in cal or "read_partial_input_buf" in cal:
                        return False
            return True
    return False


def rule_size_plumbing(facts):
    """The 'completed' latch is the size in effect stored in the decoder state: the streaming decoder must build its
    DecoderState with the size LzmaParams::read_header decided (header / option), whatever the other options are."""
    r = report.RuleResult("C16.R3b", "the streaming decoder's size in effect is the one read_header decided, unconditionally")
    b = None
    for x in facts.bodies:
        if x.promoted is None and short(x.name).endswith("stream::Stream::read_header"):
            b = x
    r.need("Stream::read_header", b is not None)
    if b is None:
        return r
    tm = Terms(b)
    calls = [blk for blk in b.calls() if (flow.callee(blk.term) or "").endswith("DecoderState::new")]
    r.sites = len(calls)
    r.need("construction of the DecoderState in Stream::read_header", len(calls) >= 1)
    for blk in calls:
        t = tm.of_operand(blk.term.args[1])
        base = t
        while isinstance(base, tuple) and base and base[0] in ("ok", "okp", "try", "cast"):
            base = base[1] if base[0] != "cast" else base[2]
        if isinstance(base, tuple) and base[0] == "field" and base[1] == "unpacked_size" and \
                flow.term_has(base, lambda q: q[0] == "call" and q[1].endswith("LzmaParams::read_header")) and \
                not flow.term_has(t, lambda q: q[0] == "phi"):
            r.ok("provenance", {"DecoderState::new(_, size)": "params.unpacked_size of LzmaParams::read_header"})
        else:
            r.bad("read_header|size", "the size in effect of the streaming decoder is %s, not the size decided by LzmaParams::read_header: "
                  "with a different size the stream never becomes 'completed' (or completes early)" % flow.show(t)[:100], pat.where(b, blk.idx))
    return r


def rule_wrappers(facts):
    """The "completed" test is the first thing of every round of the decoding core.  Nothing on the way from
    Stream::write to that core may touch the input before it: the wrappers only build the range decoder and call on."""
    r = report.RuleResult("C16.R3c", "nothing consumes input between Stream::write and the size test of the decoding core")
    names = ("decode::stream::Stream::read_data", "DecoderState::process_stream", "DecoderState::process")
    n = 0
    for b in facts.bodies:
        if b.promoted is not None or not short(b.name).split("::<")[0].endswith(names):
            continue
        n += 1
        tm = Terms(b)
        for blk in b.calls():
            nm = flow.callee(blk.term) or ""
            d_ = flow.declared(blk.term) or ""
            if nm.endswith(("DecoderState::process_mode", "DecoderState::process_stream", "RangeDecoder::from_parts", "Result::map_err",
                            "Try::branch", "FromResidual::from_residual", "Into::into", "From::from")) or d_.endswith(("Try::branch", "from_residual")):
                continue
            consuming = d_.endswith(("fill_buf", "consume", "Read::read", "read_exact")) or "read_u" in d_ or \
                nm.endswith(("read_partial_input_buf", "read_into", "process_next", "try_process_next", "append_literal", "append_lz"))
            touches = any(a.ty.k == "ref" and a.ty.mut and (pat.has_arg(tm.of_operand(a), "rangecoder") or pat.has_arg(tm.of_operand(a), "input"))
                          for a in blk.term.args)
            if consuming or (touches and blk.term.callee is not None and blk.term.callee.target().local):
                r.bad("%s|touches-input:%s" % (short(b.name).split("::")[-1], nm.split("::")[-1]), "%s uses the input (%s) before the decoding core "
                      "has tested whether the declared size is already reached: a completed stream keeps consuming" % (short(b.name), nm or d_),
                      pat.where(b, blk.idx))
    r.sites = n
    r.need("the wrappers read_data / process_stream / process (found %d)" % n, n >= 3)
    if not r.findings:
        r.ok("effect", {"wrappers": "only build the range decoder and call the core"})
    return r


def _staging(facts):
    """'No sequence of calls panics' and 'a failed write stays failed' both lean on the staging bookkeeping of write being
    exact (C05.R3): a wrong fill position panics on the next slice or silently fails a valid stream."""
    from rules import C05
    r = C05.rule_staging(facts)
    r.rule = "C16.R5"
    for f in r.findings:
        f.rule = "C16.R5"
    return r


def run(ctx, t0):
    facts = ctx.facts()
    tname, field = latch_field(facts)
    rules = []
    if tname is None:
        rr = report.RuleResult("C16.R0", "latch field")
        rr.need("Option<State> field of the streaming decoder", False)
        rules.append(rr)
    else:
        r1, r2 = rule_write(facts, tname, field)
        r2 = rule_finish_flush(facts, tname, field, r2)
        rules += [r1, r2, rule_completed(facts), rule_size_plumbing(facts), rule_wrappers(facts), _staging(facts)]
    expl = ("Static typestate analysis of the Option latch of the streaming decoder over the MIR control-flow graph "
            "(take / refill / None-assignment as transfer functions; checked at every Err source), path checks on "
            "the None arms of write and finish, and the position/shape of the size test of the shared decoding loop. "
            "'No sequence of calls panics' is C07.R1 over the same bodies.")
    return report.finish(PROP, ctx.tier, rules, expl, [], TRUSTED, t0, {"latch": "%s.%s" % (tname, field)}, ctx.seed)
