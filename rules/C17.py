"""C17 - malformed LZMA2 framing is rejected.

R1  control bytes: the chunk loop dispatches on status == 0 / 1 / 2 and hands
    everything else to the LZMA chunk parser, whose first action is the test
    `status & 0x80 == 0 -> Err`, dominating every other call of the function.
R2  properties: in the new-properties arm the tests `props >= 225 -> Err` and
    `lc + lp > 4 -> Err` dominate the construction of the properties value.
R3  compressed size: the range decoder handed to the decoding core is built
    over `input.take(packed)` with packed = be16 + 1.
R4  uncompressed size: `set_unpacked_size(Some(declared + already produced))`
    dominates the call of the decoding core, whose Finish-mode final equality
    (C08.R4) and unclamped copy lengths (C08.R6) make over/under-production an
    error.
R5  uncompressed chunks: the bytes appended are the buffer filled by one
    read_exact of be16 + 1 bytes; an input that ends early can only surface as
    the propagated read error (C12.R1).
"""
from engine import flow, report
from engine.flow import Terms, cfg, short
from rules import pat
from rules.common import TRUSTED

PROP = "C17"


def rule_control(facts):
    r = report.RuleResult("C17.R1", "control bytes 0x03-0x7F are rejected before anything else happens")
    d = pat.chunk_loop_body(facts)
    p = pat.body_of(facts, "Lzma2Decoder::parse_lzma")
    r.need("Lzma2Decoder::decompress and parse_lzma", d is not None and p is not None)
    if d is None or p is None:
        return r
    from engine.flow import PosTerms
    c = cfg(d)
    ptd = PosTerms(d)
    r.sites = 2
    callsp = [blk.idx for blk in d.calls() if (flow.callee(blk.term) or "").endswith("parse_lzma")]
    callsu = [blk.idx for blk in d.calls() if (flow.callee(blk.term) or "").endswith("parse_uncompressed")]
    reads = [blk.idx for blk in d.calls() if (flow.declared(blk.term) or "").endswith("read_u8") and c.loop_blocks_of(blk.idx)]
    r.need("status read, parse_lzma and parse_uncompressed calls in the chunk loop", bool(callsp and callsu and len(reads) == 1))
    if not (callsp and callsu and len(reads) == 1):
        return r
    loop = c.loop_blocks_of(reads[0])
    heads = {h for h, blocks, _ in c.loops() if reads[0] in blocks}
    exits = {y for x in loop for y in c.succ[x] if y not in loop}
    stops = set(callsp) | set(callsu) | exits

    def leaf_of(v):
        def lf(q):
            if pat.has_call(q, "read_u8") and q[0] in ("ok", "okp", "try", "call", "cast"):
                return v
            raise pat.NotEvaluable(q)
        return lf
    wrong = None
    refused_here, to_lzma = set(), set()
    for v in range(256):
        got = pat.reached_under(d, ptd, d.blocks[reads[0]].term.target, leaf_of(v), stops, avoid=heads)
        # an exit that can only return an error is a refusal of the chunk (C02.R6 judges those), not the end of the stream
        kinds = {"lzma" if x in callsp else "uncompressed" if x in callsu else "end" for x in got
                 if x in callsp or x in callsu or flow.reaches_ok(d, x)}
        want = {"end"} if v == 0 else {"uncompressed"} if v in (1, 2) else {"lzma"}
        if 3 <= v < 0x80 and not kinds and got:
            # refused by the dispatch itself: every exit reached under this value can only return an error
            refused_here.add(v)
            continue
        if v >= 3:
            to_lzma.add(v)
        if kinds != want:
            wrong = (v, sorted(kinds), sorted(want))
            break
    if wrong is None:
        r.ok("dispatch", {"status": "0 -> end, 1/2 -> uncompressed chunk, everything else -> parse_lzma (walk under each of the 256 values)"})
        r.ok("path", {"other status values": "handled by parse_lzma only"})
    else:
        r.bad("decompress|dispatch", "control byte 0x%02x is dispatched to %s, the format says %s" % wrong, pat.where(d))
    # parse_lzma: the 0x80 test
    gs2, tm2 = pat.guards(p)
    c2 = cfg(p)
    g = None
    for (bb, t, z, nz) in gs2:
        # a two-way test on the status byte alone that separates status < 0x80 from status >= 0x80
        # (evaluated for all 256 values: `status & 0x80 == 0`, `status < 0x80`, `status >> 7 == 0` ... are the same test)
        if not pat.has_arg(t, "status") or pat.has_call(t, "read_"):
            continue
        try:
            tv = [pat.eval_cmp(t, lambda q, v=v: v if (q[0] == "arg" and q[2] == "status") else (_ for _ in ()).throw(pat.NotEvaluable(q)))
                  for v in range(256)]
        except (pat.NotEvaluable, pat.Overflow):
            continue
        low = [v < 0x80 for v in range(256)]
        if tv == low:
            g = (bb, nz, z)      # (block, edge when bit clear, edge when set)
        elif tv == [not x for x in low]:
            g = (bb, z, nz)
        if g:
            break
    if g is None and wrong is None and refused_here == set(range(3, 0x80)) and to_lzma == set(range(0x80, 256)):
        # the refusal sits in the dispatch: no value below 0x80 reaches parse_lzma, so it needs no test of its own
        r.ok("path", {"control bytes 0x03-0x7F": "refused by the dispatch (error-only exits), parse_lzma receives 0x80-0xFF only"})
        return r
    if g is None and wrong is None and refused_here:
        low = sorted(v for v in to_lzma if v < 0x80)
        if low:
            r.bad("decompress|dispatch-low", "control byte 0x%02x is handed to parse_lzma, which does not test bit 7 (the dispatch refuses only %d of the 125 "
                  "values 0x03-0x7F)" % (low[0], len(refused_here)), pat.where(d))
            return r
    r.need("test of bit 7 of the status byte in parse_lzma", g is not None)
    if g:
        bb, clear_edge, set_edge = g
        if flow.reaches_ok(p, clear_edge):
            r.bad("parse_lzma|bit7-edge", "a control byte without bit 7 can be decoded as an LZMA chunk", pat.where(p, bb))
        else:
            r.ok("path", {"status & 0x80 == 0": "Err only"})
        calls = [blk.idx for blk in p.calls() if not (flow.declared(blk.term) or "").startswith(("core::fmt", "std::fmt"))
                 and not (flow.callee(blk.term) or "").endswith(("must_use", "format"))]
        early = [x for x in calls if not c2.dominates(bb, x) and x in c2.reachable_from(0, avoid=[bb])]
        real = [x for x in early if flow.declared(p.blocks[x].term) not in (None,) and
                not (flow.callee(p.blocks[x].term) or "").startswith(("core::fmt", "std::fmt", "std::hint"))]
        if real:
            r.bad("parse_lzma|before-test", "something happens before the control byte is validated (%s)"
                  % flow.callee(p.blocks[real[0]].term), pat.where(p, real[0]))
        else:
            r.ok("dominance", {"bit-7 test": "first action of parse_lzma"})
    return r


def rule_props(facts):
    r = report.RuleResult("C17.R2", "property bytes >= 225 or with lc + lp > 4 are rejected")
    p = pat.body_of(facts, "Lzma2Decoder::parse_lzma")
    if p is None:
        r.need("parse_lzma", False)
        return r
    gs, tm = pat.guards(p)
    c = cfg(p)
    # construction of LzmaProperties from decoded values
    aggs = []
    for blk in p.blocks:
        for s in blk.stmts:
            if s.k == "assign" and s.rv.k == "aggregate" and s.rv.agg == "adt" and s.rv.adt_name.endswith("LzmaProperties"):
                t = tm.of_rvalue(s.rv, 0)
                if pat.has_call(t, "read_u8"):
                    aggs.append((blk.idx, t))
    # or a helper returning validated properties
    helpers = [blk for blk in p.calls() if blk.term.callee is not None and blk.term.callee.target().local and
               blk.term.dest.ty.s.endswith("LzmaProperties>") or (blk.term.callee is not None and
               "LzmaProperties" in (flow.callee(blk.term) or "") and "from" in (flow.callee(blk.term) or ""))]
    scope = [(p, gs, tm, c, aggs)]
    for h in helpers:
        hb = facts.by_def.get(h.term.callee.target().defk)
        if hb is not None:
            g2, t2 = pat.guards(hb)
            ag2 = [(blk.idx, t2.of_rvalue(s.rv, 0)) for blk in hb.blocks for s in blk.stmts
                   if s.k == "assign" and s.rv.k == "aggregate" and s.rv.agg == "adt" and s.rv.adt_name.endswith("LzmaProperties")]
            scope.append((hb, g2, t2, cfg(hb), ag2))
    found_agg = False
    for (b, gs_, tm_, c_, aggs_) in scope:
        for (ab, at) in aggs_:
            found_agg = True
            r.sites += 1
            g225 = gsum = None
            for (bb, t, z, nz) in gs_:
                s = pat.cmp_sides(t)
                if not s:
                    continue
                op, x, y = s
                if op == "Ge" and y == ("const", 225) and (pat.has_call(x, "read_u8") or pat.has_arg(x)):
                    g225 = (bb, nz)
                if op == "Gt" and y == ("const", 224) and (pat.has_call(x, "read_u8") or pat.has_arg(x)):
                    g225 = (bb, nz)
                if op == "Gt" and y == ("const", 4) and x and x[0] == "Add" and pat.has_op(x, ("Rem",)):
                    gsum = (bb, nz, x)
                if op == "Ge" and y == ("const", 5) and x and x[0] == "Add" and pat.has_op(x, ("Rem",)):
                    gsum = (bb, nz, x)
            where = pat.where(b, ab)
            for nm, g in (("props >= 225", g225), ("lc + lp > 4", gsum)):
                if g is None:
                    r.bad("%s|missing:%s" % (short(b.name), nm), "properties are accepted without the `%s` test" % nm, where)
                elif not c_.dominates(g[0], ab):
                    r.bad("%s|bypass:%s" % (short(b.name), nm), "the `%s` test does not guard the construction of the properties" % nm, where)
                elif flow.reaches_ok(b, g[1]) and b is p:
                    r.bad("%s|edge:%s" % (short(b.name), nm), "`%s` does not end in an error" % nm, pat.where(b, g[0]))
                else:
                    r.ok("dominance", {"test": nm, "guards": "LzmaProperties{..}"})
            # lc = p % 9, lp = (p / 9) % 5
            if gsum and pat.has_const(gsum[2], 9) and pat.has_const(gsum[2], 5):
                r.ok("term", {"lc + lp": flow.show(gsum[2])[:100]})
    r.need("construction of LzmaProperties from the property byte", found_agg)
    return r


def _sub(t, out=None):
    out = [] if out is None else out
    if isinstance(t, tuple):
        if t and isinstance(t[0], str):
            out.append(t)
        for x in t:
            if isinstance(x, tuple):
                _sub(x, out)
    return out


def rule_sizes(facts):
    r = report.RuleResult("C17.R3", "the payload is limited to the declared compressed size; the output target is declared + produced")
    p = pat.body_of(facts, "Lzma2Decoder::parse_lzma")
    if p is None:
        r.need("parse_lzma", False)
        return r
    tm = Terms(p)
    c = cfg(p)
    proc = [blk for blk in p.calls() if (flow.callee(blk.term) or "").endswith("DecoderState::process")]
    r.need("call of the decoding core", len(proc) >= 1)
    for blk in proc:
        r.sites += 1
        rc = tm.of_operand(blk.term.args[2])
        where = pat.where(p, blk.idx)
        news = pat.calls_of(rc, "RangeDecoder::new")
        if not news:
            r.bad("parse_lzma|rangecoder", "the decoding core does not get a range decoder created here", where)
            continue
        src = news[0][2][0] if news[0][2] else None
        takes = pat.calls_of(src, "Read::take")
        if not takes:
            r.bad("parse_lzma|no-take", "the chunk payload is read from the unlimited input: a chunk can run past its "
                  "declared compressed size", where)
            continue
        lim = takes[0][2][1]
        # evaluated: the limit is be16 + 1 for the packed-size field (the second u16 read), over the whole field range
        u16s = sorted({q[3] for q in _sub(lim) if q[0] == "call" and q[1].endswith("read_u16") and len(q) > 3})
        bad = None
        try:
            for v in (0, 1, 0x7FFF, 0xFFFE, 0xFFFF):
                got = pat.eval_term(lim, lambda q, v=v: v if (q[0] in ("ok", "try") and pat.has_call(q, "read_u16")) else
                                    (_ for _ in ()).throw(pat.NotEvaluable(q)))
                if got != v + 1:
                    bad = "a packed-size field of 0x%04x limits the chunk to %d bytes, the format says %d" % (v, got, v + 1)
                    break
        except pat.Overflow:
            bad = "the compressed-size limit overflows for a field value of 0xFFFF"
        except pat.NotEvaluable:
            bad = "the compressed-size limit is not a function of the packed-size field: %s" % flow.show(lim)[:80]
        if bad or len(u16s) != 1:
            r.bad("parse_lzma|take-limit", bad or "the compressed-size limit mixes two size fields", where)
        else:
            r.ok("evaluation", {"take limit": "be16 + 1 for 0, 1, 0x7FFF, 0xFFFE, 0xFFFF"})
        if pat.has_arg(takes[0][2][0], "input"):
            r.ok("provenance", {"take over": "the chunk loop's input"})
        else:
            r.bad("parse_lzma|take-source", "the limited reader is not the caller's input", where)
        sets = [b2 for b2 in p.calls() if (flow.callee(b2.term) or "").endswith("set_unpacked_size")]
        okk = False
        why = "no set_unpacked_size before decoding"
        for s in sets:
            a = tm.of_operand(s.term.args[1])
            if not c.dominates(s.idx, blk.idx):
                continue
            # evaluated: Some(((status & 0x1F) << 16 | be16) + 1 + produced) for a grid incl. the carry cases
            inner = a
            if inner[0] == "agg" and str(inner[1]).endswith("Option::Some"):
                inner = inner[2][0]
            try:
                okk = True
                for st_ in (0x80, 0x81, 0x9F, 0xE0, 0xE1, 0xFF):
                    for lo_ in (0, 1, 0xFFFE, 0xFFFF):
                        for prod in (0, 7, 1 << 20):
                            def leaf(q, st_=st_, lo_=lo_, prod=prod):
                                if q[0] == "arg" and q[2] == "status":
                                    return st_
                                if q[0] in ("ok", "try") and pat.has_call(q, "read_u16"):
                                    return lo_
                                if q[0] == "call" and q[1].endswith("LzBuffer::len"):
                                    return prod
                                raise pat.NotEvaluable(q)
                            got = pat.eval_term(inner, leaf)
                            want = (((st_ & 0x1F) << 16) | lo_) + 1 + prod
                            if got != want:
                                okk = False
                                why = "control byte 0x%02x with size field 0x%04x and %d bytes produced sets the target to %d, the format says %d" % (
                                    st_, lo_, prod, got, want)
                                break
                        if not okk:
                            break
                    if not okk:
                        break
            except pat.Overflow:
                okk, why = False, "the output target computation overflows"
            except pat.NotEvaluable as ex:
                okk, why = False, "cannot evaluate the output target %s" % flow.show(a)[:80]
            if okk:
                r.ok("evaluation", {"output target": "((status & 0x1F) << 16 | be16) + 1 + produced on 72 points incl. 0xFFFF carries"})
                break
        if not okk:
            r.bad("parse_lzma|target", "the chunk's output target is wrong: %s" % why, where)
    return r


def rule_uncompressed(facts):
    r = report.RuleResult("C17.R5", "an uncompressed chunk delivers exactly the declared number of bytes read in one read_exact")
    u = pat.body_of(facts, "Lzma2Decoder::parse_uncompressed")
    r.need("parse_uncompressed", u is not None)
    if u is None:
        return r
    tm = Terms(u)
    c = cfg(u)
    rex = [blk for blk in u.calls() if (flow.declared(blk.term) or "") == "std::io::Read::read_exact"]
    app = [blk for blk in u.calls() if (flow.callee(blk.term) or "").endswith("append_bytes")]
    r.sites = 1
    if len(rex) == 1 and len(app) == 1 and c.dominates(rex[0].idx, app[0].idx):
        buf_r = pat.calls_of(tm.of_operand(rex[0].term.args[1]), "from_elem")
        buf_a = pat.calls_of(tm.of_operand(app[0].term.args[1]), "from_elem")
        if buf_r and buf_a and buf_r[0][3] == buf_a[0][3]:
            n = buf_r[0][2][1]
            if pat.has_call(n, "read_u16") and pat.has_op(n, ("Add",)) and pat.has_const(n, 1):
                r.ok("term", {"chunk length": flow.show(n)[:80], "appended": "the buffer filled by read_exact"})
            else:
                r.bad("parse_uncompressed|length", "the chunk length is not be16 + 1: %s" % flow.show(n)[:80], pat.where(u))
        else:
            r.bad("parse_uncompressed|buffer", "the bytes appended are not the buffer that was just read", pat.where(u))
    else:
        r.bad("parse_uncompressed|shape", "an uncompressed chunk is not read by a single read_exact before being appended", pat.where(u))
    oks = flow.ok_blocks(u)
    if rex and all(c.dominates(rex[0].idx, o) for o in oks):
        r.ok("dominance", {"read_exact": "dominates every Ok"})
    else:
        r.bad("parse_uncompressed|skip", "a chunk can be accepted without its bytes being read", pat.where(u))
    return r


def run(ctx, t0):
    facts = ctx.facts()
    from rules import C08
    r4a = C08.rule_final(facts)
    r4a.rule = "C17.R4a"
    r4b = C08.rule_lengths(facts)
    r4b.rule = "C17.R4b"
    from rules import C02
    r4c = C02.rule_target_order(facts)
    r4c.rule = "C17.R4c"
    for f in r4c.findings:
        f.rule = "C17.R4c"
    rules = [rule_control(facts), rule_props(facts), rule_sizes(facts), r4a, r4b, r4c, rule_uncompressed(facts)]
    expl = ("Static: guards of the LZMA2 chunk parser located by operand provenance (status bit 7, property byte bounds, "
            "lc+lp), with Err-only failing edges and dominance over the guarded construction/calls; provenance of the "
            "io::Take limit and of the output target; the Finish-mode final equality and unclamped copy lengths of "
            "the shared core make over- and under-production an error. 'Input ends early' surfaces as the read "
            "error that C12.R1 shows is propagated.")
    return report.finish(PROP, ctx.tier, rules, expl, ["io::Take yields EOF at its limit (std contract)"], TRUSTED, t0, None, ctx.seed)
