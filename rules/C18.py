"""C18 - unsupported XZ features are refused explicitly.

R1  check-id table: the function mapping a u8 to the check-method enum accepts
    exactly {0x00, 0x01, 0x04, 0x0A}; every path of the stream decoder on which
    the check method is SHA-256 ends in Err (no Ok source reachable once the
    method is known to be SHA-256).
R2  filter-id table accepts exactly {0x21}.
R3  reserved bits: block-header flags & 0x3C != 0 and a non-null first stream
    flag byte lead only to Err, and those tests dominate every Ok result.
R4  trailing data / second stream / stream padding: `is_eof` false leads only
    to Err and dominates the only Ok result of the stream decoder.
"""
from engine import flow, report
from rules import pat
from engine.flow import Terms, cfg, short
from rules.common import TRUSTED

PROP = "C18"


def accept_set(body):
    """For a body `fn(x: int) -> Result<_, _>` whose first test is a switch on
    its argument: values that can reach an Ok source, and whether the default
    edge can."""
    c = cfg(body)
    tm = Terms(body)
    for b in body.blocks:
        if b.cleanup or b.term.k != "switch":
            continue
        t = tm.of_operand(b.term.discr)
        if t[0] == "arg" or (t[0] == "cast" and t[2][0] == "arg"):
            acc = {}
            for v, tgt in b.term.targets:
                acc[v] = flow.reaches_ok(body, tgt)
            other = flow.reaches_ok(body, b.term.otherwise)
            return b.idx, acc, other
    return _accept_by_regions(body, c, tm)


def _accept_by_regions(body, c, tm):
    """The id is classified by comparisons with constants (if / else-if chains): every constant k the argument is
    compared with splits the domain into regions; the points {k-1, k, k+1} of every k, 0 and the type maximum
    hit every region.  Each point is walked through the CFG with its guards evaluated; a guard that is not a
    function of the argument alone is followed on both edges (may-analysis)."""
    from rules import pat
    arg = ("arg", 1, body.locals[1].name)
    bits = body.locals[1].ty.bits or 64
    ks = set()
    first = None
    for b in body.blocks:
        if b.cleanup or b.term.k != "switch":
            continue
        t = tm.of_operand(b.term.discr)
        if any(q == arg for q in _sub(t)):
            if first is None:
                first = b.idx
            for q in _sub(t):
                if q[0] == "const" and isinstance(q[1], int):
                    ks.add(q[1])
    if first is None or not ks:
        return None
    pts = {0, (1 << bits) - 1}
    for k in ks:
        pts |= {x for x in (k - 1, k, k + 1) if 0 <= x < (1 << bits)}
    oks = set(_ok_blocks(body))

    def accepted(v):
        seen = set()
        work = [0]
        while work:
            x = work.pop()
            if x in seen:
                continue
            seen.add(x)
            if x in oks:
                return True
            blk = body.blocks[x]
            if blk.cleanup:
                continue
            if blk.term.k == "switch":
                t = tm.of_operand(blk.term.discr)
                try:
                    val = pat.eval_term(t, lambda q: v if q == arg else (_ for _ in ()).throw(pat.NotEvaluable(q))) \
                        if not pat.cmp_sides(t) else int(pat.eval_cmp(t, lambda q: v if q == arg else (_ for _ in ()).throw(pat.NotEvaluable(q))))
                    tgt = dict(blk.term.targets).get(val, blk.term.otherwise)
                    work.append(tgt)
                    continue
                except (pat.NotEvaluable, pat.Overflow):
                    pass
            work.extend(c.succ[x])
        return False
    acc = {}
    other = False
    for v in sorted(pts):
        a = accepted(v)
        if v in ks:
            acc[v] = a
        elif a:
            other = True
    return first, acc, other


def _sub(t, out=None):
    out = [] if out is None else out
    if isinstance(t, tuple):
        if t and isinstance(t[0], str):
            out.append(t)
        for x in t:
            if isinstance(x, tuple):
                _sub(x, out)
    return out


def _ok_blocks(body):
    out = []
    for blk in body.blocks:
        if blk.cleanup:
            continue
        for s in blk.stmts:
            if s.k == "assign" and s.place.local == 0 and not s.place.proj and s.rv.k == "aggregate" and s.rv.agg == "adt" and \
                    s.rv.adt_name.endswith("Result") and s.rv.variant == 0:
                out.append(blk.idx)
    return out


def _has_call(t, suffix):
    return flow.term_has(t, lambda q: q[0] == "call" and q[1].endswith(suffix))


def result_of(body, adt_suffix):
    t = body.locals[0].ty
    return t.k == "adt" and t.name == "std::result::Result" and t.args and \
        getattr(t.args[0], "name", None) is not None and t.args[0].name.endswith(adt_suffix)


def rule_tables(facts):
    r1 = report.RuleResult("C18.R1", "check-method ids accepted are exactly {0x00,0x01,0x04,0x0A}")
    r2 = report.RuleResult("C18.R2", "filter ids accepted are exactly {0x21}")
    cm = [b for b in facts.bodies if b.kind in ("Fn", "AssocFn") and b.arg_count == 1 and
          b.locals[1].ty.k == "uint" and b.locals[1].ty.bits == 8 and result_of(b, "CheckMethod")]
    r1.need("function u8 -> Result<CheckMethod>", len(cm) >= 1)
    for b in cm:
        r1.sites += 1
        a = accept_set(b)
        if a is None:
            r1.bad("%s|switch" % short(b.name), "no switch on the id argument found", short(b.name), "unverifiable")
            continue
        bb, acc, other = a
        ok_ids = sorted(v for v, okk in acc.items() if okk)
        if other:
            r1.bad("%s|default" % short(b.name), "unlisted check ids are accepted (default arm reaches Ok)",
                   "%s (%s)" % (short(b.name), b.blocks[bb].term.span))
        else:
            r1.ok("switch", {"fn": short(b.name), "default_arm": "Err only"})
        extra = [v for v in ok_ids if v not in (0x00, 0x01, 0x04, 0x0A)]
        if extra:
            r1.bad("%s|accept:%s" % (short(b.name), extra), "unassigned check ids accepted: %s" % extra,
                   "%s (%s)" % (short(b.name), b.blocks[bb].term.span))
        else:
            r1.ok("switch", {"fn": short(b.name), "accepted_ids": ok_ids})
    fid = [b for b in facts.bodies if b.kind in ("Fn", "AssocFn") and b.promoted is None and b.arg_count == 1 and
           b.locals[1].ty.k == "uint" and result_of(b, "FilterId")]
    r2.need("function uint -> Result<FilterId>", len(fid) >= 1)
    # the id handed to the classifier is the multi-byte value as read (filter ids have up to 63 bits): no narrowing on the way
    from rules import C06 as _c06
    for fb in fid:
        for b in facts.bodies:
            if b.promoted is not None:
                continue
            tmc = None
            for blk in b.calls():
                cal = blk.term.callee
                if cal is None or not cal.target().local or cal.target().defk != fb.defk:
                    continue
                tmc = tmc or Terms(b)
                a = tmc.of_operand(blk.term.args[0])
                r2.sites += 1
                lo = _c06.lossy_ops(a)
                if lo:
                    r2.bad("%s|id-narrowed" % short(b.name), "the filter id is altered before it is classified (%s): ids that differ only in the "
                           "dropped bits are taken for a supported filter" % lo[0][:80], "%s (%s)" % (short(b.name), blk.term.span))
                elif not (_has_call(a, "get_multibyte")):
                    r2.bad("%s|id-source" % short(b.name), "the classified filter id is not the multi-byte value read from the header: %s"
                           % flow.show(a)[:80], "%s (%s)" % (short(b.name), blk.term.span), "unverifiable")
                else:
                    r2.ok("provenance", {"fn": short(b.name), "id": "get_multibyte value, unaltered"})
    for b in fid:
        r2.sites += 1
        a = accept_set(b)
        if a is None:
            r2.bad("%s|switch" % short(b.name), "no switch on the id argument found", short(b.name), "unverifiable")
            continue
        bb, acc, other = a
        ok_ids = sorted(v for v, okk in acc.items() if okk)
        if other or ok_ids != [0x21]:
            r2.bad("%s|accept:%s:%s" % (short(b.name), ok_ids, other),
                   "filter ids accepted: %s%s (only 0x21 = LZMA2 is supported)" % (ok_ids, " + default" if other else ""),
                   "%s (%s)" % (short(b.name), b.blocks[bb].term.span))
        else:
            r2.ok("switch", {"fn": short(b.name), "accepted_ids": ok_ids})
    return r1, r2


def guards(body):
    """All two-way tests: (bb, comparison term, bb_if_zero, bb_if_nonzero)."""
    tm = Terms(body)
    out = []
    for b in body.blocks:
        if b.cleanup or b.term.k != "switch":
            continue
        t = b.term
        if len(t.targets) == 1 and t.targets[0][0] == 0:
            out.append((b.idx, tm.of_operand(t.discr), t.targets[0][1], t.otherwise))
    return out, tm


def is_read_call(t, width=None):
    return isinstance(t, tuple) and t and t[0] == "call" and "ReadBytesExt::read_u" in t[1] and \
        (width is None or t[1].endswith("read_u%d" % width))


def strip(t):
    """Peel `?`/payload/cast wrappers."""
    while isinstance(t, tuple) and t and t[0] in ("ok", "okp", "try", "cast"):
        t = t[1] if t[0] != "cast" else t[2]
    return t


def rule_reserved(facts):
    r = report.RuleResult("C18.R3", "reserved bits must be zero: the tests lead only to Err and dominate every Ok")
    found_block = False
    found_stream = False
    for b in facts.bodies:
        if b.kind not in ("Fn", "AssocFn") or not b.file.endswith(("decode/xz.rs", "xz/mod.rs", "xz/header.rs")):
            pass
        gs, tm = guards(b)
        c = cfg(b)
        oks = flow.ok_blocks(b)
        for (bb, t, z, nz) in gs:
            # pattern A: Ne(BitAnd(<read_u8>, M), 0) with M covering 0x3C
            if t[0] in ("Ne", "Eq") and len(t) >= 3:
                x, y = strip(t[1]), strip(t[2])
                if y == ("const", 0) and x and x[0] == "BitAnd":
                    a1, a2 = strip(x[1]), strip(x[2])
                    m = a2 if a2[0] == "const" else (a1 if a1[0] == "const" else None)
                    v = a1 if m is a2 else a2
                    if m is not None and is_read_call(strip(v), 8) and (m[1] & 0x3C) and not (m[1] & 0xC3):
                        found_block = True
                        r.sites += 1
                        bad_edge = nz if t[0] == "Ne" else z
                        where = "%s (%s)" % (short(b.name), b.blocks[bb].term.span)
                        if m[1] != 0x3C:
                            r.bad("%s|mask:%#x" % (short(b.name), m[1]),
                                  "reserved-bit mask is %#x, the format reserves 0x3C" % m[1], where)
                        else:
                            r.ok("term", {"fn": short(b.name), "test": "read_u8 & 0x3C != 0"})
                        if flow.reaches_ok(b, bad_edge):
                            r.bad("%s|reserved-edge" % short(b.name),
                                  "block header with reserved flag bits set can still be accepted", where)
                        else:
                            r.ok("path", {"fn": short(b.name), "edge": "reserved != 0 -> Err only"})
                        if all(c.dominates(bb, o) for o in oks):
                            r.ok("dominance", {"fn": short(b.name), "test dominates": "%d Ok sources" % len(oks)})
                        else:
                            r.bad("%s|reserved-dom" % short(b.name),
                                  "some successful return is not guarded by the reserved-bits test", where)
            # pattern B: first byte of to_be_bytes(arg u16) compared with 0
            if t[0] in ("Ne", "Eq") and len(t) >= 3 and strip(t[2]) == ("const", 0):
                x = strip(t[1])
                if x and x[0] == "index" and x[2] in (0, ("const", 0)) and flow.term_has(x, lambda q: q[0] == "call" and "to_be_bytes" in q[1]):
                    found_stream = True
                    r.sites += 1
                    bad_edge = nz if t[0] == "Ne" else z
                    where = "%s (%s)" % (short(b.name), b.blocks[bb].term.span)
                    if flow.reaches_ok(b, bad_edge):
                        r.bad("%s|nullbyte-edge" % short(b.name), "non-null first stream-flags byte can be accepted", where)
                    else:
                        r.ok("path", {"fn": short(b.name), "edge": "flags[0] != 0 -> Err only"})
                    if all(c.dominates(bb, o) for o in oks):
                        r.ok("dominance", {"fn": short(b.name), "test dominates": "%d Ok sources" % len(oks)})
                    else:
                        r.bad("%s|nullbyte-dom" % short(b.name), "some successful return skips the null-byte test", where)
    # the second stream-flags byte must reach the id table unmodified (its high
    # bits are reserved: masking them away would accept reserved values)
    found_call = False
    for b in facts.bodies:
        if b.promoted is not None:
            continue
        tm = Terms(b)
        for blk in b.calls():
            t = blk.term
            tb = facts.by_def.get(t.callee.target().defk) if t.callee is not None else None
            if tb is None or not (tb.arg_count == 1 and tb.locals[1].ty.k == "uint" and tb.locals[1].ty.bits == 8
                                  and result_of(tb, "CheckMethod")):
                continue
            found_call = True
            r.sites += 1
            a = tm.of_operand(t.args[0])
            # a parser of the 16-bit stream flags: decided by evaluation over the flag values, whatever the spelling - the id table
            # is reached exactly when the first byte is null, and then with the second byte unmodified
            u16args = [i for i in range(1, b.arg_count + 1) if b.locals[i].ty.k == "uint" and b.locals[i].ty.bits == 16]
            if len(u16args) == 1 and b.arg_count == 1:
                from engine.flow import PosTerms
                ptb = PosTerms(b)
                oks_b = [o for o, k in flow.ret_sources(b).items() if k in ("ok", "any", "other")]
                verdict = None
                try:
                    for hi in (0, 1, 2, 0x10, 0x80, 0xFF):
                        for lo in range(256):
                            v = (hi << 8) | lo
                            def lf(q, v=v):
                                if q[0] == "arg":
                                    return v
                                if q[0] == "index" and flow.term_has(q[1], lambda z: z[0] == "call" and "to_be_bytes" in z[1]) and \
                                        not flow.term_has(q[1], lambda z: z[0] in ("index",)):
                                    i_ = q[2][1] if isinstance(q[2], tuple) else q[2]
                                    if i_ in (0, 1):
                                        return (v >> (8 * (1 - i_))) & 0xFF
                                if q[0] == "index" and flow.term_has(q[1], lambda z: z[0] == "call" and "to_le_bytes" in z[1]):
                                    i_ = q[2][1] if isinstance(q[2], tuple) else q[2]
                                    if i_ in (0, 1):
                                        return (v >> (8 * i_)) & 0xFF
                                raise pat.NotEvaluable(q)
                            got = pat.reached_under(b, ptb, 0, lf, {blk.idx} | set(oks_b), strict=True)
                            if hi != 0 and got:
                                verdict = "flags 0x%04x (first byte not null) are not refused before the check-id lookup" % v
                            elif hi == 0 and blk.idx not in got and (got or lo in (0x00, 0x01, 0x04, 0x0A)):
                                verdict = "flags 0x%04x do not reach the check-id lookup" % v
                            elif hi == 0 and blk.idx not in got:
                                pass        # refused before the lookup: the id is not one of the format's anyway
                            elif hi == 0 and pat.eval_term(ptb.at(blk.idx, None).of_operand(t.args[0]), lf) != lo:
                                verdict = "for flags 0x%04x the check-id lookup is given 0x%02x: reserved bits of the second byte are not refused" % (
                                    v, pat.eval_term(ptb.at(blk.idx, None).of_operand(t.args[0]), lf))
                            if verdict:
                                break
                        if verdict:
                            break
                except (pat.NotEvaluable, pat.Overflow):
                    verdict = None
                else:
                    found_stream = True
                    where = "%s (%s)" % (short(b.name), t.span)
                    if verdict:
                        r.bad("%s|flags-eval" % short(b.name), verdict, where)
                    else:
                        r.ok("evaluation", {"fn": short(b.name), "stream flags": "first byte null or Err; id = second byte (1536 flag values)"})
                    continue
            lossy = flow.term_has(a, lambda q: q[0] in ("BitAnd", "Shr", "Shl", "Rem", "Div", "BitOr", "BitXor",
                                                        "Sub", "Add", "Mul"))
            where = "%s (%s)" % (short(b.name), t.span)
            if lossy:
                r.bad("%s|id-arg-lossy" % short(b.name),
                      "the flags byte is altered before the check-id lookup (%s): reserved bits are not refused"
                      % flow.show(a), where)
            else:
                r.ok("provenance", {"fn": short(b.name), "id argument": flow.show(a)})
    r.need("block-header reserved-bits test (read_u8 & 0x3C)", found_block)
    r.need("stream-flags null-byte test", found_stream)
    r.need("call of the check-id table", found_call)
    return r


def rule_trailing(facts):
    r = report.RuleResult("C18.R4", "trailing data after the footer is an error (is_eof false -> Err, dominates Ok)")
    b = facts.body("decode::xz::decode_stream")
    if b is None:
        cands = [x for x in facts.bodies if x.kind == "Fn" and x.reachable is False and "xz" in x.name and
                 any(flow.callee(t.term) and "StreamHeader::parse" in flow.callee(t.term) for t in x.calls())]
        b = cands[0] if cands else None
    r.need("XZ stream decoder function", b is not None)
    if b is None:
        return r
    gs, tm = guards(b)
    c = cfg(b)
    oks = [o for o, k in flow.ret_sources(b).items() if k in ("ok", "any", "other")]
    found = False
    for (bb, t, z, nz) in gs:
        x = strip(t)
        neg = False
        if x and x[0] == "Not":
            neg = True
            x = strip(x[1])
        if x and x[0] == "call" and x[1].endswith("is_eof"):
            found = True
            r.sites += 1
            # value of is_eof: false edge is `z` (or nz when negated)
            false_edge = nz if neg else z
            where = "%s (%s)" % (short(b.name), b.blocks[bb].term.span)
            if flow.reaches_ok(b, false_edge):
                r.bad("decode_stream|eof-edge", "data after the stream footer can be accepted", where)
            else:
                r.ok("path", {"fn": short(b.name), "edge": "!is_eof -> Err only"})
            if all(c.dominates(bb, o) for o in oks):
                r.ok("dominance", {"fn": short(b.name), "ok_sources": len(oks)})
            else:
                r.bad("decode_stream|eof-dom", "a successful return is not guarded by the end-of-input test", where)
            # the reader tested must be the caller's reader (argument), not a local buffer
            arg = x[2][0] if x[2] else None
            if not flow.term_has(arg, lambda q: q[0] == "arg"):
                r.bad("decode_stream|eof-reader", "the end-of-input test does not look at the caller's reader: %s"
                      % flow.show(arg), where)
            else:
                r.ok("provenance", {"is_eof argument": flow.show(arg)})
    r.need("is_eof test in the stream decoder", found)
    return r


def promoted_variant(facts, term):
    """If term mentions a promoted constant that is a fieldless enum value,
    return its variant name."""
    names = []

    def walk(t):
        if isinstance(t, tuple):
            if t and t[0] == "constval" and "promoted[" in t[1]:
                names.append(t[1])
            for x in t[1:]:
                walk(x)
    walk(term)
    out = []
    for n in names:
        for b in facts.bodies:
            if b.promoted is not None and (b.name == n or n.startswith(flow.short(b.name).split("::promoted")[0]) and
                                           b.name.endswith(n[n.index("promoted["):])):
                for blk in b.blocks:
                    for s in blk.stmts:
                        if s.k == "assign" and s.rv.k == "aggregate" and s.rv.agg == "adt":
                            out.append((s.rv.adt_name, s.rv.variant_name))
    return out


def rule_sha256_cfg(facts, accepted_ids):
    r = report.RuleResult("C18.R1b", "a stream whose check method is SHA-256 is never reported as success")
    if 0x0A not in accepted_ids:
        r.sites = 1
        r.ok("table", {"id 0x0A": "already refused by the id table"})
        return r
    b = facts.body("decode::xz::decode_stream")
    r.need("XZ stream decoder function", b is not None)
    adt = facts.adt("xz::CheckMethod")
    if b is None or adt is None:
        r.need("CheckMethod enum", adt is not None)
        return r
    sha = [v for v in adt["variants"] if v["discr"] == 0x0A]
    r.need("variant with discriminant 0x0A", len(sha) == 1)
    if not sha:
        return r
    sha_name = sha[0]["name"]
    gs, tm = guards(b)
    c = cfg(b)
    oks = flow.ok_blocks(b)
    found = False

    def from_header(t):
        return flow.term_has(t, lambda q: q[0] == "field" and q[1] == "check_method") and \
            flow.term_has(t, lambda q: q[0] == "call" and q[1].endswith("parse"))

    for (bb, t, z, nz) in gs:
        x = strip(t)
        if x and x[0] == "call" and x[1].endswith(("PartialEq::eq", "PartialEq::ne")) and len(x[2]) == 2:
            a1, a2 = x[2]
            vs = promoted_variant(facts, a2) + promoted_variant(facts, a1)
            if any(v[1] == sha_name for v in vs) and (from_header(a1) or from_header(a2)):
                found = True
                r.sites += 1
                eq_edge = nz if x[1].endswith("eq") else z
                where = "%s (%s)" % (short(b.name), b.blocks[bb].term.span)
                if flow.reaches_ok(b, eq_edge):
                    r.bad("decode_stream|sha256-edge", "the SHA-256 branch can still reach a successful return", where)
                else:
                    r.ok("path", {"test": "check_method == Sha256", "edge": "Err only"})
                if all(c.dominates(bb, o) for o in oks):
                    r.ok("dominance", {"ok_sources": len(oks)})
                else:
                    r.bad("decode_stream|sha256-dom", "a successful return is not guarded by the SHA-256 refusal", where)
    # form (b): switch on the discriminant of the header's check method
    for blk in b.blocks:
        if blk.cleanup or blk.term.k != "switch":
            continue
        t = tm.of_operand(blk.term.discr)
        if t and t[0] == "discr" and from_header(t):
            for v, tgt in blk.term.targets:
                if v == 0x0A:
                    found = True
                    r.sites += 1
                    where = "%s (%s)" % (short(b.name), blk.term.span)
                    if flow.reaches_ok(b, tgt):
                        r.bad("decode_stream|sha256-edge", "the SHA-256 arm can still reach a successful return", where)
                    else:
                        r.ok("path", {"test": "match check_method", "edge": "Err only"})
                    if all(c.dominates(blk.idx, o) for o in oks):
                        r.ok("dominance", {"ok_sources": len(oks)})
                    else:
                        r.bad("decode_stream|sha256-dom", "a successful return is not guarded by the SHA-256 refusal", where)
    if not found:
        r.bad("decode_stream|sha256-ok", "the id table accepts 0x0A (SHA-256) and no test in the stream decoder "
              "refuses it before a successful return (a stream without blocks is accepted)",
              "%s (%s)" % (short(b.name), b.span))
    return r


def rule_sha256(ctx, facts):
    """Every path on which the check method is SHA-256 ends in Err: decided by
    E-AI with the header's check method restricted to that variant."""
    from engine.harness import new_interp
    from engine.dom import EnumV, State, StructV
    r = report.RuleResult("C18.R1b", "a stream whose check method is SHA-256 is never reported as success")
    b = facts.body("decode::xz::decode_stream")
    r.need("XZ stream decoder function", b is not None)
    adt = facts.adt("xz::CheckMethod")
    r.need("CheckMethod enum", adt is not None)
    if b is None or adt is None:
        return r
    sha = [v["index"] for v in adt["variants"] if v["discr"] == 0x0A]
    r.need("variant with discriminant 0x0A", len(sha) == 1)
    if not sha:
        return r
    ai = new_interp(facts)

    class Obs:
        def __init__(self):
            self.ok_variants = set()
            self.seen = 0

        def on_call(self, *a):
            pass

        def on_return(self, *a):
            pass

        def on_assert(self, *a):
            pass

        def on_switch(self, *a):
            pass

        def on_ret_assign(self, ai_, fr, bb, val, st):
            if fr.body is not b:
                return
            if isinstance(val, EnumV) and 0 in val.variants:
                self.seen += 1
                # find the header local: a StructV named StreamHeader
                for root, v in st.store.items():
                    if root[0] == "L" and root[1] == fr.fid and isinstance(v, StructV) and v.name and v.name.endswith("StreamHeader"):
                        sf = v.fields[0]
                        if isinstance(sf, StructV) and isinstance(sf.fields[0], EnumV):
                            self.ok_variants.update(sf.fields[0].variants.keys())
                        else:
                            self.ok_variants.add("unknown")

    obs = Obs()
    ai.observers.append(obs)
    st = State()
    args = [ai.mk_top(b.locals[i + 1].ty, ("arg", i), st, {}) for i in range(b.arg_count)]
    try:
        ai.analyze(b, {}, ((b.defk, 0, None),), st, args)
    except Exception as e:  # noqa
        r.bad("decode_stream|ai", "abstract interpretation failed: %s" % e, kind="unverifiable")
        return r
    r.sites = 1
    if obs.seen == 0:
        r.bad("decode_stream|no-ok", "no successful return was reached by the analysis", kind="unverifiable")
    elif sha[0] in obs.ok_variants or "unknown" in obs.ok_variants:
        r.bad("decode_stream|sha256-ok", "a successful return is reachable with check method SHA-256 "
              "(e.g. a stream without blocks)", "%s (%s)" % (short(b.name), b.span))
    else:
        r.ok("abstract-interpretation", {"check methods possible at Ok": sorted(
            adt["variants"][i]["name"] for i in obs.ok_variants)})
    return r


def run(ctx, t0):
    import time
    facts = ctx.facts()
    r1, r2 = rule_tables(facts)
    acc = set()
    for b in facts.bodies:
        if b.kind in ("Fn", "AssocFn") and b.arg_count == 1 and b.locals[1].ty.k == "uint" and \
                b.locals[1].ty.bits == 8 and result_of(b, "CheckMethod"):
            a = accept_set(b)
            if a:
                acc |= {v for v, okk in a[1].items() if okk}
                if a[2]:
                    acc.add(0x0A)
    rules = [r1, rule_sha256_cfg(facts, acc), r2, rule_reserved(facts), rule_trailing(facts)]
    # a filter id is classified as read: the multi-byte decoder must not drop high bits (shared with C03.R2)
    from rules import C03 as _c03
    r6 = _c03.rule_multibyte(facts)
    r6.rule = "C18.R6"
    r6.title = "multi-byte integers (filter ids) are decoded with all their bits"
    for f in r6.findings:
        f.rule = "C18.R6"
    rules.append(r6)
    expl = ("Static: accept-sets are read off the SwitchInt terminators of the id-mapping functions; reserved-bit "
            "and trailing-data tests are located by the provenance term of their condition and checked by "
            "dominance over every Ok source and by reachability of Ok from the failing edge; the SHA-256 clause "
            "is decided by abstract interpretation of the stream decoder (check-method variants possible at Ok).")
    return report.finish(PROP, ctx.tier, rules, expl,
                         ["documented Read/BufRead contracts"], TRUSTED, t0, None, ctx.seed)
