"""Shared helpers for rule files."""
import json
import os

from engine.cfg import CFG
from engine.mir import _strip_generics

ROOT = os.path.dirname(os.path.dirname(os.path.abspath(__file__)))

TRUSTED = [
    "rustc nightly MIR construction and type resolution (mir-opt-level 0, overflow checks on)",
    "target x86_64: usize is 64 bits",
    "std/byteorder/crc models in engine/models.py (documented trait contracts of Read/BufRead/Write)",
    "crate attribute forbid(unsafe_code) (checked on every run)",
]

DECODE_ENTRY_FNS = ("lzma_decompress", "lzma_decompress_with_options", "lzma2_decompress", "xz_decompress")
DECODE_ENTRY_TYPES = ("decode::stream::Stream", "decode::lzma::LzmaDecoder", "decode::lzma2::Lzma2Decoder",
                      "decode::lzma::LzmaParams")
ENCODE_ENTRY_FNS = ("lzma_compress", "lzma_compress_with_options", "lzma2_compress", "xz_compress")


def is_decode_entry(e):
    kind, key, name = e
    if kind == "fn":
        return "decompress" in name
    return name.startswith("decode::") and "options" not in name


def is_encode_entry(e):
    kind, key, name = e
    return kind == "fn" and "compress" in name and "decompress" not in name


def short(name):
    return _strip_generics(name)


def place_term(body, place):
    """Readable, line-free rendering of a place using debug names."""
    s = body.local_name(place.local)
    for p in place.proj:
        if p[0] == "deref":
            s = "*" + s
        elif p[0] == "field":
            s = "%s.%s" % (s, p[2] if p[2] is not None else p[1])
        elif p[0] == "index":
            s = "%s[%s]" % (s, body.local_name(p[1]))
        elif p[0] == "downcast":
            s = "%s as %s" % (s, p[2])
        elif p[0] == "constindex":
            s = "%s[%d]" % (s, p[1])
    return s


def operand_term(body, bb, op, depth=0, upto=None):
    """Structural term of an operand: follows temporaries to their defining
    statement (within the block or its unique-predecessor chain)."""
    if op.is_const():
        if op.const_int() is not None:
            return str(op.const_int())
        return "const"
    pl = op.place
    if pl.proj or body.locals[pl.local].name is not None or depth > 8:
        return place_term(body, pl)
    d = find_def(body, bb, pl.local, upto)
    if d is None:
        return "_"
    dbb, idx, kind, node = d
    if kind == "stmt":
        rv = node.rv
        if rv.k == "use":
            return operand_term(body, dbb, rv.op, depth + 1, idx)
        if rv.k == "binop":
            return "%s(%s,%s)" % (rv.binop.replace("WithOverflow", ""),
                                  operand_term(body, dbb, rv.a, depth + 1, idx),
                                  operand_term(body, dbb, rv.b, depth + 1, idx))
        if rv.k == "cast":
            return "cast(%s)" % operand_term(body, dbb, rv.op, depth + 1, idx)
        if rv.k == "unop":
            return "%s(%s)" % (rv.unop, operand_term(body, dbb, rv.a, depth + 1, idx))
        if rv.k == "ref":
            return "&" + place_term(body, rv.place)
        if rv.k == "discriminant":
            return "discr(%s)" % place_term(body, rv.place)
        return rv.k
    if kind == "call":
        t = node
        cal = t.callee
        nm = short(cal.name).split("::")[-1] if cal else "call"
        return "%s(%s)" % (nm, ",".join(operand_term(body, dbb, a, depth + 1, None) for a in t.args[:3]))
    return "_"


def find_def(body, bb, local, upto=None):
    """Last definition of a temporary before position `upto` in bb, following
    single predecessors.  -> (bb, idx, 'stmt'|'call', node) or None."""
    cfg = cfg_of(body)
    seen = set()
    cur = bb
    lim = upto
    for _ in range(12):
        if cur in seen:
            return None
        seen.add(cur)
        blk = body.blocks[cur]
        stmts = blk.stmts if lim is None else blk.stmts[:lim]
        for i in range(len(stmts) - 1, -1, -1):
            s = stmts[i]
            if s.k == "assign" and s.place.local == local:
                if not s.place.proj:
                    return (cur, i, "stmt", s)
                # tuple field of a checked op: _x.0
                return (cur, i, "stmt", s)
        preds = cfg.pred[cur]
        if len(preds) != 1:
            return None
        p = preds[0]
        t = body.blocks[p].term
        if t.k == "call" and t.dest.local == local and not t.dest.proj:
            return (p, None, "call", t)
        cur = p
        lim = None
    return None


_CFGS = {}


def cfg_of(body):
    c = _CFGS.get(id(body))
    if c is None:
        c = CFG(body)
        _CFGS[id(body)] = c
    return c


def assert_term(body, bb):
    """Line-free key of an Assert terminator: kind, operator and operand terms."""
    t = body.blocks[bb].term
    m = t.msg
    parts = [m["kind"]]
    if "op" in m:
        parts.append(m["op"])
    ops = []
    for k in ("a", "b", "len", "index"):
        if k in m:
            ops.append(operand_term(body, bb, m[k]))
    return "%s(%s)" % (":".join(parts), ",".join(ops))


def call_term(body, bb):
    t = body.blocks[bb].term
    cal = t.callee
    nm = short(cal.target().name) if cal else "indirect"
    return "%s(%s)" % (nm, ",".join(operand_term(body, bb, a) for a in t.args[:4]))


def load_justified():
    p = os.path.join(ROOT, "rules", "justified.json")
    with open(p) as f:
        return json.load(f)["entries"]


def fn_calls(body, pred):
    """Blocks of body whose call terminator satisfies pred(term)."""
    return [b for b in body.calls() if pred(b.term)]


def callee_name(term):
    if term.callee is None:
        return None
    return short(term.callee.target().name)


def declared_name(term):
    if term.callee is None:
        return None
    return short(term.callee.name)
