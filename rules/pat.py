"""Pattern helpers over provenance terms and guards (shared by the rule files)."""
import re

from engine import flow
from engine.flow import Terms, cfg, short


def has_call(t, suffix):
    return flow.term_has(t, lambda q: q[0] == "call" and q[1].endswith(suffix))


def has_field(t, name):
    return flow.term_has(t, lambda q: q[0] == "field" and q[1] == name)


def has_arg(t, name=None):
    return flow.term_has(t, lambda q: q[0] == "arg" and (name is None or q[2] == name))


def has_const(t, c):
    return flow.term_has(t, lambda q: q[0] == "const" and q[1] == c)


def has_op(t, ops):
    return flow.term_has(t, lambda q: q[0] in ops)


def calls_of(t, suffix):
    out = []

    def w(q):
        if q[0] == "call" and q[1].endswith(suffix):
            out.append(q)
        return False
    flow.term_has(t, w)
    return out


def strip(t):
    """Peel `?` payload / cast wrappers."""
    while isinstance(t, tuple) and t and t[0] in ("ok", "okp", "try", "cast"):
        t = t[1] if t[0] != "cast" else t[2]
    return t


def guards(body):
    """Two-way tests of a body: (bb, term, edge_if_zero, edge_if_nonzero), Terms."""
    tm = Terms(body)
    out = []
    for b in body.blocks:
        if b.cleanup or b.term.k != "switch":
            continue
        t = b.term
        if len(t.targets) == 1 and t.targets[0][0] == 0:
            out.append((b.idx, tm.of_operand(t.discr), t.targets[0][1], t.otherwise))
    return out, tm


def cmp_sides(t):
    if isinstance(t, tuple) and t and t[0] in ("Ne", "Eq", "Lt", "Le", "Gt", "Ge") and len(t) >= 3:
        return t[0], t[1], t[2]
    if isinstance(t, tuple) and t and t[0] == "call" and t[1].endswith(("PartialEq::ne", "PartialEq::eq")) and len(t[2]) == 2:
        return ("Ne" if t[1].endswith("ne") else "Eq"), t[2][0], t[2][1]
    return None


def wrap_guards(body):
    """Tests of `body` on the window's cursor and dict_size that hold exactly when cursor == dict_size on the domain the
    window maintains (cursor <= dict_size), whatever their spelling (==, >=, !(<)): [(test block, block entered when the
    window is full)]."""
    gs, tm = guards(body)
    out = []
    pts = [(0, 1), (1, 1), (0, 4096), (1, 4096), (4095, 4096), (4096, 4096), (7, 8), (8, 8)]

    def leaf(cu, di):
        def lf(q):
            if q[0] == "field" and q[1] == "cursor":
                return cu
            if q[0] == "field" and q[1] == "dict_size":
                return di
            raise NotEvaluable(q)
        return lf
    for (bb, t, z, nz) in gs:
        if not (has_field(t, "cursor") and has_field(t, "dict_size")):
            continue
        try:
            tv = [bool(eval_cmp(t, leaf(cu, di))) if cmp_sides(t) else bool(eval_term(t, leaf(cu, di))) for cu, di in pts]
        except (NotEvaluable, Overflow):
            continue
        want = [cu == di for cu, di in pts]
        if tv == want:
            out.append((bb, nz))
        elif tv == [not w for w in want]:
            out.append((bb, z))
    return out


def true_false_edges(t, z, nz):
    """(edge when the comparison holds, edge when it does not)."""
    return nz, z


def body_of(facts, suffix):
    for b in facts.bodies:
        if b.promoted is None and short(b.name).endswith(suffix):
            return b
    return None


def bodies_of(facts, pred):
    return [b for b in facts.bodies if b.promoted is None and pred(b)]


def calls(body, pred):
    return [blk for blk in body.calls() if pred(blk.term)]


def where(body, bb=None):
    if bb is None:
        return "%s (%s)" % (short(body.name), body.span)
    return "%s (%s)" % (short(body.name), body.blocks[bb].term.span)


def read_width(name):
    m = re.search(r"read_u(\d+)$", name or "")
    return int(m.group(1)) // 8 if m else None


def promoted_variants(facts, term):
    """Variant names of fieldless-enum promoted constants mentioned in a term."""
    names = []

    def walk(t):
        if isinstance(t, tuple):
            if t and t[0] == "constval" and isinstance(t[1], str) and "promoted[" in t[1]:
                names.append(t[1])
            for x in t[1:] if (t and isinstance(t[0], str)) else t:
                walk(x)
    walk(term)
    out = []
    for n in names:
        suf = n[n.index("promoted["):]
        base = short(n.split("::promoted")[0])
        for b in facts.bodies:
            if b.promoted is not None and b.name.endswith(suf) and short(b.name).split("::promoted")[0] == base:
                for blk in b.blocks:
                    for s in blk.stmts:
                        if s.k == "assign" and s.rv.k == "aggregate" and s.rv.agg == "adt":
                            out.append((s.rv.adt_name, s.rv.variant_name))
    return out


# ---------------------------------------------------------------- finite evaluation of arithmetic terms
BITS = {"u8": 8, "u16": 16, "u32": 32, "u64": 64, "usize": 64, "i8": 8, "i16": 16, "i32": 32, "i64": 64, "isize": 64,
        "bool": 1, "u128": 128, "i128": 128}


def flow_declared(t):
    from engine import flow as _f
    return _f.declared(t)


class Overflow(Exception):
    pass


class NotEvaluable(Exception):
    pass


def eval_term(t, leaf):
    """Value of an arithmetic term under Rust's checked semantics.  `leaf(t)` gives the value of a non-arithmetic
    sub-term (or raises NotEvaluable).  Raises Overflow where the compiled code would panic / wrap."""
    if not isinstance(t, tuple) or not t:
        raise NotEvaluable(t)
    h = t[0]
    if h == "const":
        if isinstance(t[1], int):
            return t[1]
        raise NotEvaluable(t)
    if h == "deref" and isinstance(t[1], tuple) and len(t[1]) == 2 and t[1][0] == "ref":
        return eval_term(t[1][1], leaf)         # *&x (a match binding by reference)
    if h == "field" and isinstance(t[1], int) and isinstance(t[2], tuple) and len(t[2]) == 3 and t[2][0] == "agg" and t[2][1] == "tuple" \
            and t[1] < len(t[2][2]):
        return eval_term(t[2][2][t[1]], leaf)   # (a, b).0
    if h == "cast":
        v = eval_term(t[2], leaf)
        bits = BITS.get(t[1])
        if bits is None:
            raise NotEvaluable(t)
        return v & ((1 << bits) - 1)
    if h in ("Add", "Sub", "Mul", "Shl", "Shr", "BitAnd", "BitOr", "BitXor", "Div", "Rem") and len(t) >= 3:
        a = eval_term(t[1], leaf)
        b = eval_term(t[2], leaf)
        bits = BITS.get(t[3]) if len(t) > 3 else 64
        if bits is None:
            raise NotEvaluable(t)
        m = (1 << bits) - 1
        if h == "Add":
            v = a + b
        elif h == "Sub":
            v = a - b
        elif h == "Mul":
            v = a * b
        elif h == "Shl":
            if b >= bits:
                raise Overflow(t)
            return (a << b) & m
        elif h == "Shr":
            if b >= bits:
                raise Overflow(t)
            return a >> b
        elif h == "BitAnd":
            return a & b
        elif h == "BitOr":
            return a | b
        elif h == "BitXor":
            return a ^ b
        elif h in ("Div", "Rem"):
            if b == 0:
                raise Overflow(t)
            return a // b if h == "Div" else a % b
        if v < 0 or v > m:
            raise Overflow(t)
        return v
    if h in ("Eq", "Ne", "Lt", "Le", "Gt", "Ge") and len(t) >= 3:
        a, b = eval_term(t[1], leaf), eval_term(t[2], leaf)
        return int({"Eq": a == b, "Ne": a != b, "Lt": a < b, "Le": a <= b, "Gt": a > b, "Ge": a >= b}[h])
    if h == "Not" and len(t) >= 2:
        v = eval_term(t[1], leaf)
        return int(not v) if v in (0, 1) else (~v) & ((1 << (BITS.get(t[2], 64) if len(t) > 2 else 64)) - 1)
    if h == "call" and t[1].endswith(("::from", "::into")) and len(t[2]) == 1:
        return eval_term(t[2][0], leaf)
    if h == "call" and t[1].endswith("::contains") and len(t[2]) == 2 and "Range" in t[1]:
        # (a..b).contains(&x) / (a..=b).contains(&x)
        rg, x = t[2]
        while isinstance(rg, tuple) and rg and rg[0] in ("ref", "deref"):
            rg = rg[1]
        while isinstance(x, tuple) and x and x[0] in ("ref", "deref"):
            x = x[1]
        lo = hi = None
        if isinstance(rg, tuple) and rg and rg[0] == "constval" and "promoted[" in str(rg[1]) and FACTS is not None:
            # a constant range lives in a promoted body: `_1 = RangeInclusive::new(a, b); _0 = &_1`
            import re as _re
            m_ = _re.search(r"^(.*)::promoted\[(\d+)\]$", str(rg[1]))
            if m_:
                base_ = _re.sub(r"<'[_a-z]+, ", "<", m_.group(1)).replace("<'_>", "").replace("<'a>", "")
                for pb in FACTS.bodies:
                    if pb.promoted == int(m_.group(2)) and _re.sub(r"<'[_a-z]+, ", "<", pb.name.split("::promoted")[0]).replace("<'a>", "") == base_:
                        from engine.flow import Terms as _T
                        tp_ = _T(pb)
                        for blk_ in pb.blocks:
                            if blk_.term.k == "call" and (flow_declared(blk_.term) or "").endswith(("RangeInclusive::new",)):
                                rg = ("call", "std::ops::RangeInclusive::new", tuple(tp_.of_operand(a_) for a_ in blk_.term.args), 0)
                            for st_ in blk_.stmts:
                                if st_.k == "assign" and st_.rv.k == "aggregate" and st_.rv.agg == "adt" and (st_.rv.adt_name or "").endswith("ops::Range"):
                                    rg = ("agg", "std::ops::Range::Range", tuple(tp_.of_operand(o_) for o_ in st_.rv.ops))
        if isinstance(rg, tuple) and rg and rg[0] == "call" and str(rg[1]).endswith("RangeInclusive::new") and len(rg[2]) == 2:
            lo, hi = eval_term(rg[2][0], leaf), eval_term(rg[2][1], leaf)
        elif isinstance(rg, tuple) and rg and rg[0] == "agg" and str(rg[1]).endswith("Range::Range") and len(rg[2]) == 2:
            lo, hi = eval_term(rg[2][0], leaf), eval_term(rg[2][1], leaf) - 1
        if lo is not None:
            return int(lo <= eval_term(x, leaf) <= hi)
        raise NotEvaluable(t)
    if h == "call" and len(t[2]) == 2 and t[1].split("::")[-1] in ("max", "min", "saturating_sub", "abs_diff") and \
            (t[1].startswith(("std::cmp::", "core::num::", "core::cmp::")) or "::Ord::" in t[1]):
        try:
            a, b = eval_term(t[2][0], leaf), eval_term(t[2][1], leaf)
        except NotEvaluable:
            a = None
        if a is not None:
            n = t[1].split("::")[-1]
            if n == "max":
                return max(a, b)
            if n == "min":
                return min(a, b)
            if n == "saturating_sub":
                return max(a - b, 0)
            if n == "abs_diff":
                return abs(a - b)
            raise NotEvaluable(t)     # widths are not recorded on call terms: wrapping / saturating additions are not evaluated
    if h == "call" and FACTS is not None:
        try:
            return leaf(t)
        except NotEvaluable:
            v = _eval_local_call(t, leaf)
            if v is None:
                raise
            return v
    return leaf(t)


FACTS = None       # set by a rule module that wants crate-local pure helpers evaluated through (eval_term)
_PURE = {}


def _pure_return_term(body):
    """Return-value term of a crate-local function that only computes (no calls except checked arithmetic, no stores
    through references); None otherwise."""
    if body.defk in _PURE:
        return _PURE[body.defk]
    res = None
    okk = True
    for blk in body.blocks:
        if blk.cleanup:
            continue
        if blk.term.k == "call" or blk.term.k == "switch":
            okk = False
        for s in blk.stmts:
            if s.k == "assign" and any(pr[0] == "deref" for pr in s.place.proj):
                okk = False
    if okk:
        res = Terms(body).of_local(0)
    _PURE[body.defk] = res
    return res


def _eval_local_call(t, leaf):
    name = t[1]
    cands = [b for b in FACTS.bodies if b.promoted is None and short(b.name).split("::<")[0].endswith(name.split("::<")[0]) and b.arg_count == len(t[2])]
    if len(cands) != 1:
        return None
    rt = _pure_return_term(cands[0])
    if rt is None:
        return None
    try:
        args = [eval_term(a, leaf) for a in t[2]]
    except NotEvaluable:
        return None

    def inner(q):
        if q[0] == "arg" and isinstance(q[1], int) and 1 <= q[1] <= len(args):
            return args[q[1] - 1]
        raise NotEvaluable(q)
    try:
        return eval_term(rt, inner)
    except NotEvaluable:
        return None


def eval_cmp(t, leaf):
    """Truth value of a comparison term (or of an integer/bool term: non-zero)."""
    s = cmp_sides(t)
    if s:
        x, y = eval_term(s[1], leaf), eval_term(s[2], leaf)
        return {"Eq": x == y, "Ne": x != y, "Lt": x < y, "Le": x <= y, "Gt": x > y, "Ge": x >= y}[s[0]]
    if isinstance(t, tuple) and t and t[0] == "Not":
        return not eval_cmp(t[1], leaf)
    return eval_term(t, leaf) != 0


def path_guards(body, c, bb, term_at):
    """Two-way tests whose outcome is fixed on every path to `bb`: [(guard block, term, required truth)].
    `term_at(block)` gives the term of that block's switch operand."""
    out = []
    for b in body.blocks:
        if b.cleanup or b.term.k != "switch" or b.idx not in c.reach:
            continue
        t = b.term
        if not (len(t.targets) == 1 and t.targets[0][0] == 0):
            continue
        z, nz = t.targets[0][1], t.otherwise
        if z == nz:
            continue
        for edge, truth in ((nz, True), (z, False)):
            other = z if truth else nz
            if len(c.pred[edge]) == 1 and (c.dominates(edge, bb) or edge == bb) and not (c.dominates(other, bb) or other == bb):
                out.append((b.idx, term_at(b), truth))
    return out


def spine_ops(t, out=None):
    """Arithmetic operators applied to the value itself (not inside the arguments of the calls that produce it)."""
    out = set() if out is None else out
    if not isinstance(t, tuple) or not t:
        return out
    if not isinstance(t[0], str):
        for x in t:
            spine_ops(x, out)
        return out
    if t[0] == "call":
        return out
    if t[0] in ("Add", "Sub", "Mul", "Shl", "Shr", "BitAnd", "BitOr", "BitXor", "Div", "Rem"):
        out.add(t[0])
    for x in t[1:]:
        if isinstance(x, tuple):
            spine_ops(x, out)
    return out


# ---------------------------------------------------------------- gated evaluation (if-conversion of loop-free regions)
def branch_conditions(body, c, bb, term_at):
    """Conditions fixed on every path to `bb`, for two-way and multi-way switches:
    [(guard block, term, ("is", v) | ("notin", (v..)) )] - a two-way test on a bool is ("is", 0) / ("notin", (0,))."""
    out = []
    for b in body.blocks:
        if b.cleanup or b.term.k != "switch" or b.idx not in c.reach or b.idx == bb:
            continue
        t = b.term
        vals = tuple(v for v, _ in t.targets)
        edges = [(tgt, ("is", v)) for v, tgt in t.targets] + [(t.otherwise, ("notin", vals))]
        tgts = [e for e, _ in edges]
        for edge, cond in edges:
            if tgts.count(edge) != 1 or len(c.pred[edge]) != 1:
                continue
            if not (c.dominates(edge, bb) or edge == bb):
                continue
            out.append((b.idx, term_at(b), cond))
    return out


def _cond_holds(t, cond, leaf):
    s = cmp_sides(t)
    v = int(eval_cmp(t, leaf)) if s else eval_term(t, leaf)
    return v == cond[1] if cond[0] == "is" else v not in cond[1]


def _reaching_def(body, pt, local, use_bb, use_idx, leaf, defs):
    """The definition of `local` that reaches (use_bb, use_idx) for one valuation, in loop-free code: from the nearest
    block dominating the use and all definitions, follow every test whose operand can be evaluated under the valuation
    (both edges of the others); all paths arriving at the use must agree on the last definition."""
    c = pt.c
    dblocks = {d[0] for d in defs}
    start = use_bb
    idom = c.dominators()
    while not all(c.dominates(start, x) for x in dblocks | {use_bb}):
        if start == 0:
            break
        start = idom.get(start, 0)
    bydef = {}
    for d in defs:
        bydef.setdefault(d[0], []).append(d)
    found = set()
    seen = set()
    work = [(start, None)]
    steps = 0
    while work:
        steps += 1
        if steps > 4000:
            raise NotEvaluable(("walk", local))
        bb, last = work.pop()
        if (bb, last) in seen:
            continue
        seen.add((bb, last))
        for d in sorted(bydef.get(bb, ()), key=lambda x: x[1]):
            if bb == use_bb and use_idx is not None and d[1] >= use_idx:
                continue
            last = (d[0], d[1])
        if bb == use_bb:
            found.add(last)
            continue
        blk = body.blocks[bb]
        succ = [x for x in c.succ[bb] if use_bb in c.reachable_from(x) or x == use_bb]
        if blk.term.k == "switch":
            t = pt.at(bb, None).of_operand(blk.term.discr)
            try:
                v = int(eval_cmp(t, leaf)) if cmp_sides(t) else eval_term(t, leaf)
                tgt = dict(blk.term.targets).get(v, blk.term.otherwise)
                succ = [tgt] if (use_bb in c.reachable_from(tgt) or tgt == use_bb) else []
            except (NotEvaluable, Overflow):
                pass
        for x in succ:
            work.append((x, last))
    if len(found) != 1 or None in found:
        raise NotEvaluable(("ambiguous", local))
    bb, i = next(iter(found))
    return next(d for d in defs if d[0] == bb and d[1] == i)


class _CallDef:
    """A definition of a local by a call terminator (for eval_gated)."""
    k = "calldef"

    def __init__(self, blk):
        self.blk = blk
        self.term = blk.term
        self.rv = None
        self.place = blk.term.dest


def eval_gated(body, pt, local, use_bb, leaf, use_idx=None, on_def=None, want_field=None):
    """Value of `local` as seen at (use_bb, use_idx) for one valuation of the inputs, in loop-free code: among the
    definitions of the local whose branch conditions hold under the valuation, the one latest in dominance order
    (gated single assignment).  Raises NotEvaluable when the choice is not determined."""
    c = pt.c
    defs = []
    for blk in body.blocks:
        if blk.cleanup or blk.idx not in c.reach:
            continue
        for i, s in enumerate(blk.stmts):
            if s.k == "assign" and not s.place.proj and s.place.local == local:
                if blk.idx == use_bb and use_idx is not None and i >= use_idx:
                    continue
                if blk.idx != use_bb and use_bb not in c.reachable_from(blk.idx):
                    continue
                defs.append((blk.idx, i, s))
    if c.loop_blocks_of(use_bb) and any(c.loop_blocks_of(d[0]) for d in defs):
        # inside a loop only definitions of the current iteration are considered: those that dominate the use
        defs = [d for d in defs if c.dominates(d[0], use_bb)]
        if not defs:
            raise NotEvaluable(("loop", local))

    def term_at(b):
        return pt.at(b.idx, None).of_operand(b.term.discr)
    # conditions on the path to the use hold by assumption ("the value at the use, given that the use is reached")
    use_conds = {(gb, cond) for (gb, t, cond) in branch_conditions(body, c, use_bb, term_at)}
    live = []
    for (bb, i, s) in defs:
        okk = True
        for (gb, t, cond) in branch_conditions(body, c, bb, term_at):
            try:
                if not _cond_holds(t, cond, leaf):
                    okk = False
                    break
            except NotEvaluable:
                if (gb, cond) in use_conds:
                    continue
                # `?` on a fallible call: the value is evaluated for the error-free path
                if isinstance(t, tuple) and t and t[0] == "discr" and isinstance(t[1], tuple) and t[1] and t[1][0] == "try":
                    if cond == ("is", 0) or (cond[0] == "notin" and 0 not in cond[1]):
                        continue
                    okk = False
                    break
                raise
        if okk:
            live.append((bb, i, s))
    if not live:
        if 1 <= local <= body.arg_count:
            return leaf(("arg", local, body.locals[local].name))
        # defined as the result of one call (`max(a, b)`, `u64::from(x)`, a pure crate helper): the call term is evaluated
        cdefs = [blk for blk in body.blocks if not blk.cleanup and blk.idx in c.reach and blk.term.k == "call" and
                 not blk.term.dest.proj and blk.term.dest.local == local]
        if not defs and len(cdefs) == 1:
            return eval_term(pt.at(use_bb, use_idx).of_local(local), leaf)
        raise NotEvaluable(("undefined", local))
    best = live[0]
    for d in live[1:]:
        if (d[0] == best[0] and d[1] > best[1]) or (d[0] != best[0] and c.dominates(best[0], d[0])):
            best = d
        elif (d[0] == best[0]) or c.dominates(d[0], best[0]):
            continue
        else:
            # definitions in arms reached over several edges (e.g. `match x { 0..=3 => .., 4..=9 => .. }`): the dominance
            # conditions do not separate them; select the reaching definition by following the evaluable tests instead
            best = _reaching_def(body, pt, local, use_bb, use_idx, leaf, [d for d in defs])
            break
    bb, i, s = best
    if isinstance(s, _CallDef):
        if on_def is not None:
            v = on_def(s.blk.idx, "call", s)
            if v is not None:
                return v
        if len(defs) == 1:
            return eval_term(pt.at(use_bb, use_idx).of_local(local), leaf)
        return eval_term(pt.at(s.blk.idx, None).of_def(s.blk.idx, "call", s.blk.term, 0), leaf)
    rv = s.rv
    if on_def is not None:
        v = on_def(bb, i, s)
        if v is not None:
            return v
    if want_field is not None:
        # the caller asked for one component of a tuple assigned in several arms
        if rv.k == "aggregate" and rv.agg == "tuple" and want_field < len(rv.ops):
            op = rv.ops[want_field]
            if op.is_const() and op.const_int() is not None:
                return op.const_int()
            if op.place is not None and not op.place.proj:
                return eval_gated(body, pt, op.place.local, bb, leaf, i, on_def)
            return eval_term(pt.at(bb, i).of_operand(op), leaf)
        if rv.k == "use" and rv.op.place is not None and not rv.op.place.proj:
            return eval_gated(body, pt, rv.op.place.local, bb, leaf, i, on_def, want_field)
        raise NotEvaluable(("tuple field", local))
    if rv.k == "use" and rv.op.place is not None and not rv.op.place.proj:
        return eval_gated(body, pt, rv.op.place.local, bb, leaf, i, on_def)
    # `(value, base) = if .. { (a, 0) } else { (b, 8) }; value + base`: a component of a tuple assigned in several arms
    if rv.k == "use" and rv.op.place is not None and len(rv.op.place.proj) == 1 and rv.op.place.proj[0][0] == "field" and \
            body.locals[rv.op.place.local].ty.k == "tuple":
        try:
            return eval_gated(body, pt, rv.op.place.local, bb, leaf, i, on_def, rv.op.place.proj[0][1])
        except NotEvaluable:
            pass
    # the payload of `x?` where x is a local holding a Result built in this body (a spliced helper): the value given to Ok(..)
    if rv.k == "use" and rv.op.place is not None and len(rv.op.place.proj) == 2 and rv.op.place.proj[0][0] == "downcast" and \
            rv.op.place.proj[0][2] == "Continue" and rv.op.place.proj[1][0] == "field":
        for blk in body.blocks:
            tt = blk.term
            if not blk.cleanup and tt.k == "call" and not tt.dest.proj and tt.dest.local == rv.op.place.local and \
                    (flow_declared(tt) or "").endswith("Try::branch") and tt.args and tt.args[0].place is not None and not tt.args[0].place.proj:
                d_ = tt.args[0].place.local
                built_here = any(s2.k == "assign" and not s2.place.proj and s2.place.local == d_ and s2.rv.k == "aggregate" and
                                 s2.rv.agg == "adt" and (s2.rv.adt_name or "").endswith("Result")
                                 for b2 in body.blocks for s2 in b2.stmts)
                moved_here = any(s2.k == "assign" and not s2.place.proj and s2.place.local == d_ and s2.rv.k == "use" and
                                 s2.rv.op.place is not None and not s2.rv.op.place.proj for b2 in body.blocks for s2 in b2.stmts)
                if built_here or moved_here:
                    return eval_gated(body, pt, d_, blk.idx, leaf, None, on_def)
    if rv.k == "aggregate" and rv.agg == "adt" and (rv.adt_name or "").endswith("Result") and rv.variant == 0 and len(rv.ops) == 1:
        op = rv.ops[0]
        if op.place is not None and not op.place.proj:
            return eval_gated(body, pt, op.place.local, bb, leaf, i, on_def)
        if op.const_int() is not None:
            return op.const_int()
    t = pt.at(bb, i).of_rvalue(rv, bb)

    def leaf2(q):
        return leaf(q)
    try:
        return eval_term(t, leaf2)
    except NotEvaluable:
        # an operand that is itself assigned in several arms (`base + low_bits` with low_bits an if-expression): evaluate the
        # operands as gated locals and combine
        if rv.k in ("binop", "cast") and (not isinstance(i, int) or i >= 0):
            def opv(op):
                if op.is_const() and op.const_int() is not None:
                    return op.const_int()
                if op.place is not None and not op.place.proj:
                    return eval_gated(body, pt, op.place.local, bb, leaf, i, on_def)
                return eval_term(pt.at(bb, i).of_operand(op), leaf2)
            if rv.k == "binop":
                va, vb = opv(rv.a), opv(rv.b)
                return eval_term((rv.binop.replace("WithOverflow", ""), ("const", va), ("const", vb), rv.a.ty.s), leaf2)
            va = opv(rv.op)
            return eval_term(("cast", rv.ty.s, ("const", va), rv.op.ty.s), leaf2)
        # the value half of a checked operation: `_t = AddWithOverflow(a, b); x = move _t.0`
        if rv.k == "use" and rv.op.place is not None and len(rv.op.place.proj) == 1 and rv.op.place.proj[0][0] == "field" and \
                rv.op.place.proj[0][1] == 0:
            cands = [(b2.idx, j2, s2) for b2 in body.blocks if not b2.cleanup for j2, s2 in enumerate(b2.stmts)
                     if s2.k == "assign" and not s2.place.proj and s2.place.local == rv.op.place.local and s2.rv.k == "binop"]
            if len(cands) == 1:
                b2i, j2, s2 = cands[0]

                def opv2(op):
                    if op.is_const() and op.const_int() is not None:
                        return op.const_int()
                    if op.place is not None and not op.place.proj:
                        return eval_gated(body, pt, op.place.local, b2i, leaf, j2, on_def)
                    return eval_term(pt.at(b2i, j2).of_operand(op), leaf2)
                return eval_term((s2.rv.binop.replace("WithOverflow", ""), ("const", opv2(s2.rv.a)), ("const", opv2(s2.rv.b)), s2.rv.a.ty.s), leaf2)
        raise


def reached_under(body, pt, start, leaf, stops, avoid=(), strict=False):
    """Blocks of `stops` reachable from `start` when every two- or multi-way test whose operand can be evaluated under the
    valuation `leaf` takes its evaluated edge, the `?` tests take their success edge, and all other tests take both.
    The walk does not continue past a stop block nor into `avoid`."""
    c = pt.c
    seen, out = set(), set()
    work = [start]
    while work:
        x = work.pop()
        if x in seen or x in avoid:
            continue
        seen.add(x)
        if x in stops:
            out.add(x)
            continue
        blk = body.blocks[x]
        t = blk.term
        if t.k == "switch":
            tt = pt.at(x, None).of_operand(t.discr)
            nxt = None
            try:
                v = int(eval_cmp(tt, leaf)) if cmp_sides(tt) else eval_term(tt, leaf)
                nxt = [tg for val, tg in t.targets if val == v] or [t.otherwise]
            except (NotEvaluable, Overflow):
                if isinstance(tt, tuple) and tt and tt[0] == "discr" and isinstance(tt[1], tuple) and tt[1] and tt[1][0] == "try":
                    nxt = [tg for val, tg in t.targets if val == 0] or [t.otherwise]
                elif t.discr.place is not None and not t.discr.place.proj and not c.loop_blocks_of(x):
                    # a flag set in several arms (`let pending = a && b; if !pending ..`): its value under the valuation
                    try:
                        v = int(eval_gated(body, pt, t.discr.place.local, x, leaf))
                        nxt = [tg for val, tg in t.targets if val == v] or [t.otherwise]
                    except (NotEvaluable, Overflow):
                        nxt = None
            if nxt is None and strict:
                raise NotEvaluable(("undecided test", x))
            work.extend(nxt if nxt is not None else c.succ[x])
        else:
            work.extend(c.succ[x])
    return out


def walk_concrete(body, c, start, stops, discr_val=None, call_val=None, region=None, env0=None, limit=6000, avoid=()):
    """Blocks of `stops` reached from `start` in a concrete walk: plain locals carry small integers (constants, copies, `!`, `&`, `|`,
    `^`, `==`, `!=` of known values; `discr_val(place)` for a discriminant read, `call_val(block)` for a call result), a test on a known
    value takes its edge, a test on an unknown value takes all.  Over-approximates reachability under the given valuation (so "not
    reached" is definite).  The walk stays inside `region` (if given) and never re-enters `start`."""
    def opval(o, env):
        if o is None:
            return None
        if o.k == "const":
            return int(o.val) if isinstance(o.val, (bool, int)) else None
        if o.place is not None and not o.place.proj:
            return env.get(o.place.local)
        return None
    out, seen = set(), set()
    stack = [(start, dict(env0 or {}))]
    steps = 0
    while stack:
        bb, env = stack.pop()
        key = (bb, tuple(sorted((k, v) for k, v in env.items() if v is not None)))
        if key in seen:
            continue
        seen.add(key)
        steps += 1
        if steps > limit:
            return set(stops)
        if bb in stops:
            out.add(bb)
            continue
        env = dict(env)
        blk = body.blocks[bb]
        for st in blk.stmts:
            if st.k != "assign" or st.place.proj:
                continue
            rv, v = st.rv, None
            if rv.k == "use":
                v = opval(rv.op, env)
            elif rv.k == "discriminant" and discr_val is not None:
                v = discr_val(rv.place)
            elif rv.k == "unop" and rv.unop == "Not":
                a = opval(rv.a, env)
                v = None if a is None else (0 if a else 1)
            elif rv.k == "binop":
                a, b2 = opval(rv.a, env), opval(rv.b, env)
                if rv.binop == "BitAnd":
                    v = 0 if (a == 0 or b2 == 0) else (a & b2 if None not in (a, b2) else None)
                elif rv.binop == "BitOr":
                    v = 1 if (a == 1 or b2 == 1) else (a | b2 if None not in (a, b2) else None)
                elif None not in (a, b2):
                    v = {"BitXor": a ^ b2, "Eq": int(a == b2), "Ne": int(a != b2)}.get(rv.binop)
            env[st.place.local] = v
        t = blk.term
        if t.k == "call":
            if t.dest is not None and not t.dest.proj:
                env[t.dest.local] = call_val(blk) if call_val is not None else None
            succs = [t.target] if t.target is not None else []
        elif t.k == "switch":
            d = opval(t.discr, env)
            if d is None:
                succs = [tg for _, tg in t.targets] + [t.otherwise]
            else:
                succs = [tg for v_, tg in t.targets if v_ == d] or [t.otherwise]
        else:
            succs = [y for y in c.succ[bb] if not body.blocks[y].cleanup]
        for y in succs:
            if y is None or y == start or y in avoid or (region is not None and y not in region):
                continue
            stack.append((y, env))
    return out


def chunk_loop_body(facts):
    """The body that holds the LZMA2 chunk loop: the one calling both chunk parsers (found by what it calls, not by name)."""
    for b in facts.bodies:
        if b.promoted is not None:
            continue
        names = [flow.callee(blk.term) or "" for blk in b.calls()]
        if any(n.endswith("parse_lzma") for n in names) and any(n.endswith("parse_uncompressed") for n in names):
            return b
    return None
