"""Range-decoder arithmetic: per-statement terms evaluated against the LZMA reference formulas (used by C01.R6).

Decides the operator / constant structure of every store to range, code and the
probability, of the bit tests and of the bit-tree index arithmetic.  It does not
decide that the sequence of these steps reproduces the encoder's bits.
"""
from engine import flow, report
from engine.flow import PosTerms, cfg, short
from rules import pat
from rules.C03 import _subterms

M32 = (1 << 32) - 1
GRID = [(r_, c_, p_) for r_ in (1 << 24, 0x01000001, 0x7FFFFFFF, 0x80000000, 0xFFFFFFFF, 0x12345678, 0x00FFFFFF, 0x00800000, 3 << 10)
        for c_ in (0, 1, 0x00345678, 0x7FFFFFFF, 0xFFFFFFFE) for p_ in (1, 31, 0x400, 0x7E1, 0x7FF)]


def _leaf(R, C, P, B=0, extra=None):
    def lf(q):
        if q[0] == "field" and q[1] == "range":
            return R
        if q[0] == "field" and q[1] == "code":
            return C
        if q[0] == "deref" and pat.has_arg(q, "prob"):
            return P
        if q[0] in ("ok", "try") and pat.has_call(q, "read_u8"):
            return B
        if extra:
            v = extra(q)
            if v is not None:
                return v
        raise pat.NotEvaluable(q)
    return lf


def stores(b, pt):
    out = []
    for blk in b.blocks:
        if blk.cleanup:
            continue
        for i, s in enumerate(blk.stmts):
            if s.k == "assign" and s.place.proj:
                out.append((blk.idx, i, pt.at(blk.idx, i).of_place(s.place), pt.at(blk.idx, i).of_rvalue(s.rv, blk.idx)))
    return out


def _which(pl):
    if pl[0] == "field" and pl[1] in ("range", "code"):
        return pl[1]
    if pl[0] == "deref" and pat.has_arg(pl, "prob"):
        return "prob"
    return None


def _agree(term, fn, grid, mask=M32, **kw):
    """None if term == fn(R, C, P[, B]) on the grid (where fn is defined), else a counterexample string."""
    for (R, C, P) in grid:
        want = fn(R, C, P)
        if want is None:
            continue
        try:
            got = pat.eval_term(term, _leaf(R, C, P, **kw))
        except pat.Overflow:
            return "overflows at range=0x%x code=0x%x prob=0x%x" % (R, C, P)
        if got != want & mask:
            return "gives 0x%x, the format 0x%x (range=0x%x code=0x%x prob=0x%x)" % (got, want & mask, R, C, P)
    return None


def len_decoder_table(ld):
    """LenDecoder::decode as a function of the two choice bits and the three sub-decodings (free values): the returned length
    must be low, 8 + mid, 16 + high for choice = 0, (1, 0), (1, 1).  None if so, else what differs."""
    pt = PosTerms(ld)
    c = cfg(ld)
    if len(c.returns) != 1:
        return "cannot evaluate the decoded length: several return blocks"
    SUB = {"low_coder": 100, "mid_coder": 200, "high_coder": 300}

    def leaf_of(b1, b2):
        def lf(q):
            if q[0] in ("ok", "try", "okp") or (q[0] == "cast" and False):
                if pat.has_call(q, "decode_bit"):
                    if pat.has_field(q, "choice2"):
                        return b2
                    if pat.has_field(q, "choice"):
                        return b1
                for f_, v in SUB.items():
                    if pat.has_field(q, f_) and pat.has_call(q, "parse"):
                        return v
            raise pat.NotEvaluable(q)
        return lf

    def on_def_for(lf):
        def on_def(bb, i, s):
            if s.rv.k == "aggregate" and s.rv.agg == "adt" and s.rv.variant == 0 and len(s.rv.ops) == 1:
                op = s.rv.ops[0]
                if op.place is not None and not op.place.proj:
                    return pat.eval_gated(ld, pt, op.place.local, bb, lf, i)
                return pat.eval_term(pt.at(bb, i).of_operand(op), lf)
            return None
        return on_def
    try:
        for (b1, b2, want, what) in ((0, 0, 100, "low"), (0, 1, 100, "low"), (1, 0, 208, "8 + mid"), (1, 1, 316, "16 + high")):
            lf = leaf_of(b1, b2)
            got = pat.eval_gated(ld, pt, 0, c.returns[0], lf, None, on_def_for(lf))
            if got != want:
                which = [k for k, v in SUB.items() if v <= got < v + 100]
                return "with choice = %d, choice2 = %d the length is %s + %s, the format says %s" % (
                    b1, b2, which[0] if which else "?", (got - SUB[which[0]]) if which else got, what)
    except (pat.NotEvaluable, pat.Overflow) as ex:
        return "cannot evaluate the decoded length as a function of the choice bits (%s)" % (str(ex)[:60])
    return None


def rule_rangedecoder(facts):
    r = report.RuleResult("C01.R6", "range-decoder steps: every store to range / code / probability and every bit test is the format's expression")
    db = pat.body_of(facts, "RangeDecoder::decode_bit")
    gb = pat.body_of(facts, "RangeDecoder::get_bit")
    nb = pat.body_of(facts, "RangeDecoder::normalize")
    g = pat.body_of(facts, "RangeDecoder::get")
    bt = pat.body_of(facts, "RangeDecoder::parse_bit_tree")
    rbt = pat.body_of(facts, "RangeDecoder::parse_reverse_bit_tree")
    ld = pat.body_of(facts, "LenDecoder::decode")
    nw = pat.body_of(facts, "decode::rangecoder::RangeDecoder::new")
    r.need("range decoder bodies", None not in (db, gb, nb, g, bt, rbt, ld, nw))
    if None in (db, gb, nb, g, bt, rbt, ld, nw):
        return r
    n = 0
    # ---------------------------------------------------------------- decode_bit
    pt = PosTerms(db)
    c = cfg(db)
    bound = lambda R, P: (R >> 11) * P
    sw = None
    for blk in db.blocks:
        if blk.cleanup or blk.term.k != "switch" or len(blk.term.targets) != 1:
            continue
        t = pt.at(blk.idx, None).of_operand(blk.term.discr)
        if pat.cmp_sides(t) and pat.has_field(t, "code"):
            sw = (blk, t)
    if sw is None:
        r.bad("decode_bit|test", "cannot find the `code < bound` test", pat.where(db), "unverifiable")
    else:
        blk, t = sw
        n += 1
        bad = None
        sense = None        # True: the test is `code < bound` (true edge = bit 0); False: its negation (true edge = bit 1)
        try:
            pts = GRID + [(1 << 24, ((1 << 24) >> 11) * 0x400, 0x400), (1 << 24, ((1 << 24) >> 11) * 0x400 - 1, 0x400)]
            tv = [pat.eval_cmp(t, _leaf(R, C, P)) for (R, C, P) in pts]
            ref = [C < bound(R, P) for (R, C, P) in pts]
            if tv == ref:
                sense = True
            elif tv == [not x for x in ref]:
                sense = False
            else:
                k = [i for i in range(len(pts)) if tv[i] != ref[i]][0]
                bad = "range=0x%x code=0x%x prob=0x%x" % pts[k]
        except (pat.NotEvaluable, pat.Overflow) as ex:
            bad = "not evaluable: %s" % flow.show(ex.args[0])[:60]
        if sense is None:
            r.bad("decode_bit|test", "the bit test is neither `code < (range >> 11) * prob` nor its negation (%s)" % bad, pat.where(db, blk.idx))
        else:
            r.ok("evaluation", {"decode_bit": "bit = !(code < (range >> 11) * prob)"})
        true_e, false_e = blk.term.otherwise, blk.term.targets[0][1]
        zero_e, one_e = (true_e, false_e) if sense in (True, None) else (false_e, true_e)
        # the same test may be consulted more than once (`let bit = code >= bound;` then two `if bit`): every switch on it counts
        sides = [(zero_e, one_e)]
        for b2 in db.blocks:
            if b2.cleanup or b2.term.k != "switch" or len(b2.term.targets) != 1 or b2.idx == blk.idx:
                continue
            t2 = pt.at(b2.idx, None).of_operand(b2.term.discr)
            if not (pat.cmp_sides(t2) and pat.has_field(t2, "code")):
                continue
            try:
                tv2 = [pat.eval_cmp(t2, _leaf(R, C, P)) for (R, C, P) in pts]
            except (pat.NotEvaluable, pat.Overflow):
                continue
            te2, fe2 = b2.term.otherwise, b2.term.targets[0][1]
            if tv2 == ref:
                sides.append((te2, fe2))
            elif tv2 == [not x for x in ref]:
                sides.append((fe2, te2))
        want = {
            (0, "range"): lambda R, C, P: bound(R, P),
            (0, "prob"): lambda R, C, P: P + ((0x800 - P) >> 5),
            (1, "range"): lambda R, C, P: R - bound(R, P) if C >= bound(R, P) else None,
            (1, "code"): lambda R, C, P: C - bound(R, P) if C >= bound(R, P) else None,
            (1, "prob"): lambda R, C, P: P - (P >> 5),
        }
        seen = set()
        for (bb, i, pl, rv) in stores(db, pt):
            w = _which(pl)
            if w is None:
                continue
            bit = None
            for (ze_, oe_) in sides:
                if c.dominates(ze_, bb) or ze_ == bb:
                    bit = 0
                elif c.dominates(oe_, bb) or oe_ == bb:
                    bit = 1
            n += 1
            if bit is None and w == "prob":
                # one store of a value chosen by the bit (`*prob = if bit { .. } else { .. }`): the value under each valuation
                st_ = db.blocks[bb].stmts[i]
                if st_.rv.k == "use" and st_.rv.op.place is not None and not st_.rv.op.place.proj:
                    try:
                        bad_ = None
                        for p_ in range(1, 0x800, 3):
                            for (R_, C_) in ((1 << 24, 0), (1 << 24, 0xFFFFFF00)):
                                got_ = pat.eval_gated(db, pt, st_.rv.op.place.local, bb, _leaf(R_, C_, p_), i)
                                exp_ = (p_ + ((0x800 - p_) >> 5)) if C_ < bound(R_, p_) else (p_ - (p_ >> 5))
                                if got_ != exp_:
                                    bad_ = (R_, C_, p_, got_, exp_)
                                    break
                            if bad_:
                                break
                        if bad_:
                            r.bad("decode_bit|store:prob", "the new probability for range=0x%x code=0x%x prob=0x%x is 0x%x, the coder needs 0x%x" % bad_,
                                  pat.where(db, bb))
                        else:
                            seen.add((0, "prob"))
                            seen.add((1, "prob"))
                            r.ok("evaluation", None)
                        continue
                    except (pat.NotEvaluable, pat.Overflow):
                        pass
            if bit is None or (bit, w) not in want:
                r.bad("decode_bit|store:%s" % w, "unexpected store to %s (outside / on the wrong side of the bit test)" % w, pat.where(db, bb))
                continue
            grid = GRID if w != "prob" else [(1 << 24, 0, p_) for p_ in range(1, 0x800)]
            try:
                ce = _agree(rv, want[(bit, w)], grid, mask=M32 if w != "prob" else 0xFFFF)
            except pat.NotEvaluable as ex:
                r.bad("decode_bit|store:%s:%d" % (w, bit), "cannot evaluate %s" % flow.show(rv)[:80], pat.where(db, bb), "unverifiable")
                continue
            if ce:
                r.bad("decode_bit|store:%s:%d" % (w, bit), "for bit %d the new %s %s" % (bit, w, ce), pat.where(db, bb))
            else:
                seen.add((bit, w))
                r.ok("evaluation", None)
        miss = set(want) - seen
        if miss and not r.findings:
            r.bad("decode_bit|missing", "decode_bit no longer updates %s" % sorted(miss), pat.where(db))
        # returned bit: a constant per branch, or the value of the test itself; normalisation on every path to the return
        rets = []
        for x in db.blocks:
            if x.cleanup or x.idx not in c.reach:
                continue
            for s_ in x.stmts:
                if s_.k == "assign" and s_.place.local == 0 and not s_.place.proj and s_.rv.k == "aggregate" and s_.rv.agg == "adt" and s_.rv.variant == 0:
                    rets.append((x.idx, pt.at(x.idx, None).of_operand(s_.rv.ops[0]), s_.rv.ops[0]))
        n += 1
        okr = bool(rets)
        for (x, rt, rop) in rets:
            if rt[0] == "phi" and rop.place is not None and not rop.place.proj:
                # a local set to false / true in the two branches: its value under each valuation (gated evaluation)
                try:
                    pts = GRID[:40]
                    if [bool(pat.eval_gated(db, pt, rop.place.local, x, _leaf(R, C, P))) for (R, C, P) in pts] != [C >= bound(R, P) for (R, C, P) in pts]:
                        okr = False
                except (pat.NotEvaluable, pat.Overflow):
                    okr = False
                continue
            if rt[0] == "const":
                side = 0 if (c.dominates(zero_e, x) or zero_e == x) else 1 if (c.dominates(one_e, x) or one_e == x) else None
                if side is None or rt[1] != side:
                    okr = False
            else:
                try:
                    pts = GRID[:40]
                    if [bool(pat.eval_cmp(rt, _leaf(R, C, P))) for (R, C, P) in pts] != [C >= bound(R, P) for (R, C, P) in pts]:
                        okr = False
                except (pat.NotEvaluable, pat.Overflow):
                    okr = False
        if okr:
            r.ok("term", {"decode_bit returns": "the decoded bit"})
        else:
            r.bad("decode_bit|return", "decode_bit does not return the decoded bit: %s" % [flow.show(x[1])[:40] for x in rets], pat.where(db))
        norm = [x.idx for x in db.calls() if (flow.callee(x.term) or "").endswith("RangeDecoder::normalize")]
        n += 1
        if norm and not any(x in c.reachable_from(blk.idx, avoid=norm) for (x, _, _r) in rets):
            r.ok("must-pass", {"decode_bit": "normalises on every path from the bit test to Ok"})
        else:
            r.bad("decode_bit|normalize", "a decoded bit can be returned without normalisation", pat.where(db))
    # ---------------------------------------------------------------- get_bit
    pt = PosTerms(gb)
    c = cfg(gb)
    st = [(bb, i, pl, rv) for (bb, i, pl, rv) in stores(gb, pt) if _which(pl)]
    rs = [x for x in st if _which(x[2]) == "range"]
    cs = [x for x in st if _which(x[2]) == "code"]
    sw = [blk for blk in gb.blocks if not blk.cleanup and blk.term.k == "switch" and len(blk.term.targets) == 1 and
          pat.has_field(pt.at(blk.idx, None).of_operand(blk.term.discr), "code")]
    n += 3
    if len(rs) == 1 and len(cs) == 1 and len(sw) == 1:
        ce = _agree(rs[0][3], lambda R, C, P: R >> 1, GRID)
        t = pt.at(sw[0].idx, None).of_operand(sw[0].term.discr)
        one_e = sw[0].term.otherwise
        okt = True
        try:
            for (R, C, P) in GRID + [(8, 8, 1), (8, 7, 1)]:
                if pat.eval_cmp(t, _leaf(R, C, P)) != (C >= R):
                    okt = False
        except (pat.NotEvaluable, pat.Overflow):
            okt = False
        ce2 = _agree(cs[0][3], lambda R, C, P: C - R if C >= R else None, GRID)
        order = (rs[0][0] == sw[0].idx or c.dominates(rs[0][0], sw[0].idx)) and (c.dominates(one_e, cs[0][0]) or one_e == cs[0][0])
        if ce:
            r.bad("get_bit|range", "direct bit: the new range %s" % ce, pat.where(gb, rs[0][0]))
        elif not okt:
            r.bad("get_bit|test", "direct bit: the test is not `code >= range`: %s" % flow.show(t)[:60], pat.where(gb, sw[0].idx))
        elif ce2:
            r.bad("get_bit|code", "direct bit: the new code %s" % ce2, pat.where(gb, cs[0][0]))
        elif not order:
            r.bad("get_bit|order", "direct bit: range is not halved before the test, or code is reduced outside the 1-branch", pat.where(gb))
        else:
            r.ok("evaluation", {"get_bit": "range >>= 1; bit = code >= range; if bit { code -= range }"})
        if not any((flow.callee(blk.term) or "").endswith("normalize") and c.dominates(sw[0].idx, blk.idx) for blk in gb.calls()):
            r.bad("get_bit|normalize", "a direct bit is not followed by normalisation", pat.where(gb))
    else:
        r.bad("get_bit|shape", "unexpected stores / tests in get_bit", pat.where(gb), "unverifiable")
    # ---------------------------------------------------------------- normalize
    pt = PosTerms(nb)
    c = cfg(nb)
    sw = [blk for blk in nb.blocks if not blk.cleanup and blk.term.k == "switch" and len(blk.term.targets) == 1 and
          pat.has_field(pt.at(blk.idx, None).of_operand(blk.term.discr), "range")]
    st = [(bb, i, pl, rv) for (bb, i, pl, rv) in stores(nb, pt) if _which(pl)]
    n += 3
    if len(sw) == 1:
        t = pt.at(sw[0].idx, None).of_operand(sw[0].term.discr)
        low_e = sw[0].term.otherwise
        okt = True
        try:
            tvn = [bool(pat.eval_cmp(t, _leaf(R, 0, 1))) for R in (0, 1, (1 << 24) - 1, 1 << 24, (1 << 24) + 1, 0xFFFFFFFF)]
            wantn = [R < (1 << 24) for R in (0, 1, (1 << 24) - 1, 1 << 24, (1 << 24) + 1, 0xFFFFFFFF)]
            if tvn == [not w for w in wantn]:
                low_e = sw[0].term.targets[0][1]        # the test is `range >= 2^24` (early return): the other edge normalises
            elif tvn != wantn:
                okt = False
        except (pat.NotEvaluable, pat.Overflow):
            okt = False
        if not okt:
            r.bad("normalize|test", "normalisation does not trigger exactly when range < 2^24: %s" % flow.show(t)[:60], pat.where(nb, sw[0].idx))
        else:
            r.ok("evaluation", {"normalize": "iff range < 2^24"})
        reads = [blk.idx for blk in nb.calls() if (flow.declared(blk.term) or "").endswith("read_u8")]
        if len(reads) != 1 or not c.dominates(low_e, reads[0]) or len(c.pred[low_e]) != 1:
            r.bad("normalize|read", "normalisation does not read exactly one byte, only when range < 2^24", pat.where(nb))
        fm = {"range": lambda R, C, P: (R << 8), "code": None}
        for (bb, i, pl, rv) in st:
            w = _which(pl)
            inside = c.dominates(low_e, bb) or low_e == bb
            if not inside:
                r.bad("normalize|store:%s" % w, "%s is changed although range >= 2^24" % w, pat.where(nb, bb))
                continue
            if w == "range":
                ce = _agree(rv, lambda R, C, P: R << 8, GRID)
            else:
                ce = None
                for B in (0, 1, 0x80, 0xFF):
                    ce = ce or _agree(rv, lambda R, C, P, B=B: ((C << 8) & M32) ^ B, GRID, B=B)
            if ce:
                r.bad("normalize|store:%s" % w, "normalisation: the new %s %s" % (w, ce), pat.where(nb, bb))
            else:
                r.ok("evaluation", None)
        if {_which(x[2]) for x in st} != {"range", "code"}:
            r.bad("normalize|stores", "normalisation must shift both range and code", pat.where(nb))
    else:
        r.bad("normalize|shape", "cannot find the range test of normalize", pat.where(nb), "unverifiable")
    # ---------------------------------------------------------------- bit trees and direct bits: accumulator terms
    def acc_check(b, name, specs):
        """specs: list of (description, predicate over the set of evaluated update terms)"""
        nonlocal n
        pt = PosTerms(b)
        ups = []
        for blk in b.blocks:
            if blk.cleanup:
                continue
            for i, s in enumerate(blk.stmts):
                if s.k == "assign" and not s.place.proj and s.rv.k == "binop" and s.rv.binop.replace("WithOverflow", "") in ("BitXor", "BitOr", "Add", "Sub"):
                    ups.append((blk.idx, s.rv.binop, pt.at(blk.idx, i).of_rvalue(s.rv, blk.idx)))
        for desc, fn in specs:
            n += 1
            hit = False
            for bb, op, t in ups:
                try:
                    if fn(t):
                        hit = True
                        break
                except (pat.NotEvaluable, pat.Overflow, IndexError, TypeError):
                    continue
            if hit:
                r.ok("evaluation", {name: desc})
            else:
                r.bad("%s|%s" % (name, desc.split(" ")[0]), "%s: no statement computes %s" % (name, desc), pat.where(b))

    def ev(t, acc, bit, i=0, off=0, nb_=0):
        def lf(q):
            if q[0] in ("phi", "loopvar") or (q[0] == "cast" and False):
                return acc
            if q[0] in ("ok", "try") and (pat.has_call(q, "decode_bit") or pat.has_call(q, "get_bit")):
                return bit
            if q[0] == "field" and pat.has_call(q, "::next"):
                return i
            if q[0] == "arg" and q[2] == "offset":
                return off
            if q[0] == "arg" and q[2] == "num_bits":
                return nb_
            raise pat.NotEvaluable(q)
        return pat.eval_term(t, lf)
    accs = [(a, b_) for a in (1, 2, 5, 0x7F, 0x1234) for b_ in (0, 1)]
    acc_check(g, "get", [("result = (result << 1) ^ bit", lambda t: all(ev(t, a, b_) == ((a << 1) ^ b_) for a, b_ in accs) and pat.has_call(t, "get_bit"))])
    acc_check(bt, "parse_bit_tree", [
        ("tmp = (tmp << 1) ^ bit", lambda t: all(ev(t, a, b_) == ((a << 1) ^ b_) for a, b_ in accs) and pat.has_call(t, "decode_bit")),
        ("result = tmp - (1 << num_bits)", lambda t: t[0] == "Sub" and all(ev(t, (1 << k) + 3, 0, nb_=k) == 3 for k in (3, 6, 8))),
    ])
    acc_check(rbt, "parse_reverse_bit_tree", [
        ("tmp = (tmp << 1) ^ bit", lambda t: all(ev(t, a, b_) == ((a << 1) ^ b_) for a, b_ in accs) and pat.has_call(t, "decode_bit") and not pat.has_call(t, "::next")),
        ("result ^= bit << i", lambda t: pat.has_call(t, "::next") and all(ev(t, a, b_, i=i_) == (a ^ (b_ << i_)) for i_ in (0, 1, 5, 13) for a in (0, (1 << i_) - 1, (1 << i_) >> 1) for b_ in (0, 1))),
    ])
    # index terms of the probability lookups
    for b, name, want in ((bt, "parse_bit_tree", lambda a, off: a), (rbt, "parse_reverse_bit_tree", lambda a, off: off + a)):
        pt = PosTerms(b)
        n += 1
        okk = False
        for blk in b.calls():
            if (flow.callee(blk.term) or "").endswith("decode_bit"):
                t = pt.at(blk.idx, None).of_operand(blk.term.args[1])
                idx = [q for q in _subterms(t) if q[0] == "index"]
                if idx:
                    try:
                        okk = all(ev(idx[0][2], a, 0, off=off) == want(a, off) for a in (1, 2, 9) for off in (0, 7, 100))
                    except (pat.NotEvaluable, pat.Overflow):
                        okk = False
        if okk:
            r.ok("evaluation", {name: "probs[%s]" % ("tmp" if name == "parse_bit_tree" else "offset + tmp")})
        else:
            r.bad("%s|index" % name, "%s does not look up the probability at the format's index" % name, pat.where(b))
    # initial values of the accumulators: tmp = 1, result = 0
    for b, name, inits in ((bt, "parse_bit_tree", {1}), (rbt, "parse_reverse_bit_tree", {0, 1}), (g, "get", {0})):
        consts = set()
        blk0 = b.blocks[0]
        for s in blk0.stmts:
            if s.k == "assign" and not s.place.proj and s.rv.k == "use" and s.rv.op.const_int() is not None and b.locals[s.place.local].name:
                consts.add(s.rv.op.const_int())
        n += 1
        if inits <= consts:
            r.ok("constant", {name: "accumulators start at %s" % sorted(inits)})
        else:
            r.bad("%s|init" % name, "%s: accumulators start at %s, the format says %s" % (name, sorted(consts), sorted(inits)), pat.where(b))
    # ---------------------------------------------------------------- LenDecoder::decode
    n += 1
    bad = len_decoder_table(ld)
    if bad is None:
        r.ok("evaluation", {"LenDecoder": "choice 0 -> low + 0, choice2 0 -> mid + 8, else high + 16 (gated evaluation over both choice bits)"})
    else:
        r.bad("LenDecoder|table", bad, pat.where(ld), "unverifiable" if bad.startswith("cannot") else "violated")
    # ---------------------------------------------------------------- initial state
    tn = flow.Terms(nw)
    adt = facts.adt("decode::rangecoder::RangeDecoder")
    init = None
    for blk in nw.blocks:
        for s in blk.stmts:
            if s.k == "assign" and s.rv.k == "aggregate" and s.rv.agg == "adt" and s.rv.adt_name.endswith("RangeDecoder"):
                init = {f_["name"]: tn.of_operand(o) for f_, o in zip(adt["variants"][0]["fields"], s.rv.ops)}
    n += 1
    if init and init.get("range") == ("const", 0xFFFFFFFF) and init.get("code") == ("const", 0):
        cst = [(bb, pl, rv) for (bb, i, pl, rv) in stores(nw, PosTerms(nw)) if _which(pl) == "code"]
        if len(cst) == 1 and pat.has_call(cst[0][2], "read_u32") and not pat.has_op(cst[0][2], ("Add", "Sub", "Shl", "Shr", "BitXor")):
            r.ok("constant", {"RangeDecoder::new": "range = 0xFFFFFFFF, code = be32 after one ignored byte"})
        else:
            r.bad("new|code", "the initial code is not the big-endian u32 that follows the first byte", pat.where(nw))
    else:
        r.bad("new|init", "the range decoder does not start with range = 0xFFFFFFFF, code = 0", pat.where(nw))
    r.sites = n
    r.need("at least 25 range-decoder obligations (found %d)" % n, n >= 25)
    return r
