#!/bin/bash
# Runs every hand mutant of handmut/EXPECT.txt against its check in scratch copies and compares with the expectation.
cd "$(dirname "$0")/.."
fail=0
while read -r p c e rest; do
  case "$p" in \#*|"") continue;; esac
  out=$(mktemp)
  python3 tools/matrix.py handmut/$p.diff $out $c >/dev/null 2>&1
  rc=$(python3 -c "import json,sys; print(json.load(open('$out'))['$c']['rc'])" 2>/dev/null)
  rm -f $out
  got="?"; [ "$rc" = "1" ] && got="X"; [ "$rc" = "0" ] && got="."
  if [ "$got" != "$e" ]; then echo "MISMATCH $p $c expected $e got $got   $rest"; fail=1; else echo "ok       $p $c $got   $rest"; fi
done < handmut/EXPECT.txt
exit $fail
