//! lzfacts: a rustc_private driver that dumps type-checked facts (MIR bodies,
//! resolved callees, ADTs, consts, impls) of one crate as JSON.
//!
//! Invoked through RUSTC_WORKSPACE_WRAPPER: argv = [lzfacts, <rustc>, args...].
//! Env: LZFACTS_OUT  = output file (one write per process)
//!      LZFACTS_CRATE = crate name to dump (default lzma_rs)
#![feature(rustc_private)]
#![allow(clippy::all)]

extern crate rustc_abi;
extern crate rustc_driver;
extern crate rustc_hir;
extern crate rustc_interface;
extern crate rustc_middle;
extern crate rustc_session;
extern crate rustc_span;

use rustc_driver::Compilation;
use rustc_hir::def::DefKind;
use rustc_hir::def_id::{DefId, LocalDefId};
use rustc_middle::mir::{self, *};
use rustc_middle::ty::{self, GenericArgKind, GenericArgsRef, Instance, Ty, TyCtxt, TypingEnv};
use rustc_span::Span;
use std::fmt::Write as _;

// ---------------------------------------------------------------- JSON -----

enum J {
    Null,
    Bool(bool),
    Int(i128),
    UInt(u128),
    Str(String),
    Arr(Vec<J>),
    Obj(Vec<(&'static str, J)>),
}

fn s<T: Into<String>>(x: T) -> J {
    J::Str(x.into())
}

fn esc(out: &mut String, x: &str) {
    out.push('"');
    for c in x.chars() {
        match c {
            '"' => out.push_str("\\\""),
            '\\' => out.push_str("\\\\"),
            '\n' => out.push_str("\\n"),
            '\r' => out.push_str("\\r"),
            '\t' => out.push_str("\\t"),
            c if (c as u32) < 0x20 => {
                let _ = write!(out, "\\u{:04x}", c as u32);
            }
            c => out.push(c),
        }
    }
    out.push('"');
}

impl J {
    fn write(&self, out: &mut String) {
        match self {
            J::Null => out.push_str("null"),
            J::Bool(b) => out.push_str(if *b { "true" } else { "false" }),
            J::Int(i) => {
                let _ = write!(out, "{}", i);
            }
            J::UInt(i) => {
                let _ = write!(out, "{}", i);
            }
            J::Str(x) => esc(out, x),
            J::Arr(v) => {
                out.push('[');
                for (i, x) in v.iter().enumerate() {
                    if i > 0 {
                        out.push(',');
                    }
                    x.write(out);
                }
                out.push(']');
            }
            J::Obj(v) => {
                out.push('{');
                for (i, (k, x)) in v.iter().enumerate() {
                    if i > 0 {
                        out.push(',');
                    }
                    esc(out, k);
                    out.push(':');
                    x.write(out);
                }
                out.push('}');
            }
        }
    }
}

// --------------------------------------------------------------- helpers ---

struct Cx<'tcx> {
    tcx: TyCtxt<'tcx>,
}

impl<'tcx> Cx<'tcx> {
    fn span(&self, sp: Span) -> J {
        let sm = self.tcx.sess.source_map();
        let from_exp = sp.from_expansion();
        let mut macro_name = J::Null;
        if from_exp {
            let ed = sp.ctxt().outer_expn_data();
            macro_name = s(format!("{:?}", ed.kind));
        }
        let cs = sp.source_callsite();
        let lo = sm.lookup_char_pos(cs.lo());
        let file = format!("{}", lo.file.name.prefer_local_unconditionally());
        J::Obj(vec![
            ("file", s(file)),
            ("line", J::Int(lo.line as i128)),
            ("col", J::Int(lo.col.0 as i128 + 1)),
            ("exp", J::Bool(from_exp)),
            ("macro", macro_name),
        ])
    }

    fn def_key(&self, d: DefId) -> String {
        let krate = self.tcx.crate_name(d.krate);
        format!("{}{}", krate, self.tcx.def_path(d).to_string_no_crate_verbose())
    }

    fn def_name(&self, d: DefId) -> String {
        self.tcx.def_path_str(d)
    }

    fn ty(&self, t: Ty<'tcx>) -> J {
        let st = format!("{}", t);
        let mut o: Vec<(&'static str, J)> = vec![];
        match t.kind() {
            ty::Bool => o.push(("k", s("bool"))),
            ty::Char => o.push(("k", s("char"))),
            ty::Int(i) => {
                o.push(("k", s("int")));
                o.push(("bits", J::Int(i.bit_width().unwrap_or(64) as i128)));
            }
            ty::Uint(u) => {
                o.push(("k", s("uint")));
                o.push(("bits", J::Int(u.bit_width().unwrap_or(64) as i128)));
                o.push(("ptr", J::Bool(u.bit_width().is_none())));
            }
            ty::Float(_) => o.push(("k", s("float"))),
            ty::Adt(def, args) => {
                o.push(("k", s("adt")));
                o.push(("def", s(self.def_key(def.did()))));
                o.push(("name", s(self.def_name(def.did()))));
                o.push(("args", self.gargs(args)));
            }
            ty::Ref(_, inner, m) => {
                o.push(("k", s("ref")));
                o.push(("mut", J::Bool(m.is_mut())));
                o.push(("to", self.ty(*inner)));
            }
            ty::RawPtr(inner, m) => {
                o.push(("k", s("ptr")));
                o.push(("mut", J::Bool(m.is_mut())));
                o.push(("to", self.ty(*inner)));
            }
            ty::Array(e, n) => {
                o.push(("k", s("array")));
                o.push(("elem", self.ty(*e)));
                o.push(("len", self.tyconst(*n)));
            }
            ty::Slice(e) => {
                o.push(("k", s("slice")));
                o.push(("elem", self.ty(*e)));
            }
            ty::Str => o.push(("k", s("str"))),
            ty::Tuple(ts) => {
                o.push(("k", s("tuple")));
                o.push(("elems", J::Arr(ts.iter().map(|t| self.ty(t)).collect())));
            }
            ty::Param(p) => {
                o.push(("k", s("param")));
                o.push(("name", s(p.name.as_str())));
                o.push(("index", J::Int(p.index as i128)));
            }
            ty::FnDef(d, args) => {
                o.push(("k", s("fndef")));
                o.push(("def", s(self.def_key(*d))));
                o.push(("name", s(self.def_name(*d))));
                o.push(("args", self.gargs(args)));
            }
            ty::Closure(d, args) => {
                o.push(("k", s("closure")));
                o.push(("def", s(self.def_key(*d))));
                o.push(("args", self.gargs(args.as_closure().parent_args())));
            }
            ty::Never => o.push(("k", s("never"))),
            ty::Alias(..) => o.push(("k", s("alias"))),
            ty::Dynamic(..) => o.push(("k", s("dyn"))),
            ty::FnPtr(..) => o.push(("k", s("fnptr"))),
            _ => o.push(("k", s("other"))),
        }
        o.push(("s", s(st)));
        J::Obj(o)
    }

    fn tyconst(&self, c: ty::Const<'tcx>) -> J {
        if let Some(leaf) = c.try_to_leaf() {
            return J::UInt(leaf.to_bits_unchecked());
        }
        match c.kind() {
            ty::ConstKind::Param(p) => J::Obj(vec![
                ("param", s(p.name.as_str())),
                ("index", J::Int(p.index as i128)),
            ]),
            _ => J::Obj(vec![("expr", s(format!("{}", c)))]),
        }
    }

    fn gargs(&self, args: &[ty::GenericArg<'tcx>]) -> J {
        let mut v = vec![];
        for a in args.iter() {
            match a.kind() {
                GenericArgKind::Type(t) => v.push(self.ty(t)),
                GenericArgKind::Const(c) => {
                    v.push(J::Obj(vec![("k", s("const")), ("val", self.tyconst(c))]))
                }
                GenericArgKind::Lifetime(_) => {}
            }
        }
        J::Arr(v)
    }

    fn place(&self, body: &Body<'tcx>, p: &Place<'tcx>) -> J {
        let mut proj = vec![];
        let mut pty = mir::PlaceTy::from_ty(body.local_decls[p.local].ty);
        for e in p.projection.iter() {
            let j = match e {
                ProjectionElem::Deref => J::Obj(vec![("k", s("deref"))]),
                ProjectionElem::Field(f, t) => {
                    let mut fname = J::Null;
                    let mut parent = J::Null;
                    if let ty::Adt(def, _) = pty.ty.kind() {
                        parent = s(self.def_name(def.did()));
                    }
                    if let ty::Adt(def, _) = pty.ty.kind() {
                        let vi = pty.variant_index.unwrap_or(rustc_abi::FIRST_VARIANT);
                        if def.is_enum() || def.is_struct() || def.is_union() {
                            let v = def.variant(vi);
                            if f.index() < v.fields.len() {
                                fname = s(v.fields[f].name.as_str());
                            }
                        }
                    }
                    J::Obj(vec![
                        ("k", s("field")),
                        ("i", J::Int(f.index() as i128)),
                        ("name", fname),
                        ("parent", parent),
                        ("ty", self.ty(t)),
                    ])
                }
                ProjectionElem::Index(l) => {
                    J::Obj(vec![("k", s("index")), ("local", J::Int(l.index() as i128))])
                }
                ProjectionElem::ConstantIndex { offset, min_length, from_end } => J::Obj(vec![
                    ("k", s("constindex")),
                    ("offset", J::Int(offset as i128)),
                    ("min_length", J::Int(min_length as i128)),
                    ("from_end", J::Bool(from_end)),
                ]),
                ProjectionElem::Subslice { from, to, from_end } => J::Obj(vec![
                    ("k", s("subslice")),
                    ("from", J::Int(from as i128)),
                    ("to", J::Int(to as i128)),
                    ("from_end", J::Bool(from_end)),
                ]),
                ProjectionElem::Downcast(name, vi) => J::Obj(vec![
                    ("k", s("downcast")),
                    ("variant", J::Int(vi.index() as i128)),
                    ("name", name.map(|n| s(n.as_str())).unwrap_or(J::Null)),
                ]),
                ProjectionElem::OpaqueCast(_) => J::Obj(vec![("k", s("opaquecast"))]),
                ProjectionElem::UnwrapUnsafeBinder(_) => J::Obj(vec![("k", s("unwrapbinder"))]),
            };
            proj.push(j);
            pty = pty.projection_ty(self.tcx, e);
        }
        J::Obj(vec![
            ("local", J::Int(p.local.index() as i128)),
            ("proj", J::Arr(proj)),
            ("ty", self.ty(pty.ty)),
        ])
    }

    fn constant(&self, env: TypingEnv<'tcx>, c: &ConstOperand<'tcx>) -> J {
        let t = c.const_.ty();
        let mut o: Vec<(&'static str, J)> = vec![("k", s("const")), ("ty", self.ty(t))];
        let mut val = J::Null;
        let mut uneval = J::Null;
        if let mir::Const::Unevaluated(u, _) = c.const_ {
            uneval = J::Obj(vec![
                ("def", s(self.def_key(u.def))),
                ("name", s(self.def_name(u.def))),
                ("args", self.gargs(u.args)),
                ("promoted", u.promoted.map(|p| J::Int(p.index() as i128)).unwrap_or(J::Null)),
            ]);
        }
        if let mir::Const::Ty(_, tc) = c.const_ {
            if tc.try_to_leaf().is_none() {
                uneval = J::Obj(vec![("tyconst", self.tyconst(tc))]);
            }
        }
        match t.kind() {
            ty::Bool | ty::Char | ty::Int(_) | ty::Uint(_) => {
                if let Some(si) = c.const_.try_eval_scalar_int(self.tcx, env) {
                    let bits = si.to_bits_unchecked();
                    match t.kind() {
                        ty::Int(_) => {
                            let size = si.size();
                            val = J::Int(size.sign_extend(bits) as i128);
                        }
                        _ => val = J::UInt(bits),
                    }
                }
            }
            ty::FnDef(..) => {}
            _ => {
                // &[u8] / &str / &[u8; N] literals: try to get bytes.
                if let Ok(cv) = c.const_.eval(self.tcx, env, c.span) {
                    match cv {
                        ConstValue::Slice { .. } | ConstValue::Indirect { .. }
                            if matches!(t.kind(), ty::Ref(_, inner, _) if matches!(inner.kind(), ty::Slice(_) | ty::Str)) =>
                        {
                            if let Some(bytes) = cv.try_get_slice_bytes_for_diagnostics(self.tcx) {
                                val = J::Obj(vec![(
                                    "bytes",
                                    J::Arr(bytes.iter().map(|b| J::Int(*b as i128)).collect()),
                                )]);
                            }
                        }
                        ConstValue::ZeroSized => val = J::Obj(vec![("zst", J::Bool(true))]),
                        _ => {}
                    }
                }
            }
        }
        o.push(("val", val));
        o.push(("uneval", uneval));
        o.push(("s", s(format!("{}", c.const_))));
        J::Obj(o)
    }

    fn operand(&self, env: TypingEnv<'tcx>, body: &Body<'tcx>, op: &Operand<'tcx>) -> J {
        match op {
            Operand::Copy(p) => J::Obj(vec![("k", s("copy")), ("place", self.place(body, p))]),
            Operand::Move(p) => J::Obj(vec![("k", s("move")), ("place", self.place(body, p))]),
            Operand::Constant(c) => self.constant(env, c),
            Operand::RuntimeChecks(rc) => J::Obj(vec![
                ("k", s("runtimecheck")),
                ("which", s(format!("{:?}", rc))),
                ("value", J::Bool(rc.value(self.tcx.sess))),
            ]),
        }
    }

    fn callee(&self, env: TypingEnv<'tcx>, func: &Operand<'tcx>) -> J {
        if let Operand::Constant(c) = func {
            if let ty::FnDef(d, args) = c.const_.ty().kind() {
                let mut o: Vec<(&'static str, J)> = vec![
                    ("def", s(self.def_key(*d))),
                    ("name", s(self.def_name(*d))),
                    ("path", s(self.tcx.def_path_str_with_args(*d, args))),
                    ("args", self.gargs(args)),
                    ("local", J::Bool(d.is_local())),
                ];
                // trait method?
                if let Some(tr) = self.tcx.trait_of_assoc(*d) {
                    o.push(("trait", s(self.def_name(tr))));
                    o.push(("method", s(self.tcx.item_name(*d).as_str())));
                } else {
                    o.push(("trait", J::Null));
                    o.push(("method", s(self.tcx.item_name(*d).as_str())));
                }
                let mut resolved = J::Null;
                if let Ok(Some(inst)) = Instance::try_resolve(self.tcx, env, *d, args) {
                    let rd = inst.def_id();
                    resolved = J::Obj(vec![
                        ("def", s(self.def_key(rd))),
                        ("name", s(self.def_name(rd))),
                        ("path", s(self.tcx.def_path_str_with_args(rd, inst.args))),
                        ("args", self.gargs(inst.args)),
                        ("local", J::Bool(rd.is_local())),
                        ("kind", s(format!("{:?}", inst.def).split('(').next().unwrap_or(""))),
                    ]);
                }
                o.push(("resolved", resolved));
                return J::Obj(o);
            }
        }
        J::Null
    }

    fn rvalue(&self, env: TypingEnv<'tcx>, body: &Body<'tcx>, rv: &Rvalue<'tcx>) -> J {
        let op = |o: &Operand<'tcx>| self.operand(env, body, o);
        match rv {
            Rvalue::Use(o, _) => J::Obj(vec![("k", s("use")), ("op", op(o))]),
            Rvalue::Repeat(o, n) => {
                J::Obj(vec![("k", s("repeat")), ("op", op(o)), ("count", self.tyconst(*n))])
            }
            Rvalue::Ref(_, bk, p) => J::Obj(vec![
                ("k", s("ref")),
                ("mut", J::Bool(matches!(bk, BorrowKind::Mut { .. }))),
                ("place", self.place(body, p)),
            ]),
            Rvalue::RawPtr(_, p) => J::Obj(vec![("k", s("rawptr")), ("place", self.place(body, p))]),
            Rvalue::Cast(kind, o, t) => J::Obj(vec![
                ("k", s("cast")),
                ("kind", s(format!("{:?}", kind))),
                ("op", op(o)),
                ("ty", self.ty(*t)),
            ]),
            Rvalue::BinaryOp(b, ops) => J::Obj(vec![
                ("k", s("binop")),
                ("op", s(format!("{:?}", b))),
                ("a", op(&ops.0)),
                ("b", op(&ops.1)),
            ]),
            Rvalue::UnaryOp(u, o) => {
                J::Obj(vec![("k", s("unop")), ("op", s(format!("{:?}", u))), ("a", op(o))])
            }
            Rvalue::Discriminant(p) => {
                J::Obj(vec![("k", s("discriminant")), ("place", self.place(body, p))])
            }
            Rvalue::Aggregate(kind, ops) => {
                let mut o: Vec<(&'static str, J)> = vec![("k", s("aggregate"))];
                match &**kind {
                    AggregateKind::Array(t) => {
                        o.push(("agg", s("array")));
                        o.push(("elem", self.ty(*t)));
                    }
                    AggregateKind::Tuple => o.push(("agg", s("tuple"))),
                    AggregateKind::Adt(d, vi, args, _, active) => {
                        o.push(("agg", s("adt")));
                        o.push(("def", s(self.def_key(*d))));
                        o.push(("name", s(self.def_name(*d))));
                        o.push(("variant", J::Int(vi.index() as i128)));
                        let adt = self.tcx.adt_def(*d);
                        o.push(("variant_name", s(adt.variant(*vi).name.as_str())));
                        o.push(("args", self.gargs(args)));
                        o.push((
                            "active_field",
                            active.map(|f| J::Int(f.index() as i128)).unwrap_or(J::Null),
                        ));
                    }
                    AggregateKind::Closure(d, args) => {
                        o.push(("agg", s("closure")));
                        o.push(("def", s(self.def_key(*d))));
                        o.push(("args", self.gargs(args.as_closure().parent_args())));
                    }
                    other => {
                        o.push(("agg", s("other")));
                        o.push(("s", s(format!("{:?}", other))));
                    }
                }
                o.push(("ops", J::Arr(ops.iter().map(|x| op(x)).collect())));
                J::Obj(o)
            }
            Rvalue::CopyForDeref(p) => J::Obj(vec![
                ("k", s("use")),
                ("op", J::Obj(vec![("k", s("copy")), ("place", self.place(body, p))])),
            ]),
            other => J::Obj(vec![("k", s("other")), ("s", s(format!("{:?}", other)))]),
        }
    }

    fn assert_msg(&self, env: TypingEnv<'tcx>, body: &Body<'tcx>, m: &AssertMessage<'tcx>) -> J {
        let op = |o: &Operand<'tcx>| self.operand(env, body, o);
        match m {
            AssertKind::BoundsCheck { len, index } => J::Obj(vec![
                ("kind", s("BoundsCheck")),
                ("len", op(len)),
                ("index", op(index)),
            ]),
            AssertKind::Overflow(b, x, y) => J::Obj(vec![
                ("kind", s("Overflow")),
                ("op", s(format!("{:?}", b))),
                ("a", op(x)),
                ("b", op(y)),
            ]),
            AssertKind::OverflowNeg(x) => J::Obj(vec![("kind", s("OverflowNeg")), ("a", op(x))]),
            AssertKind::DivisionByZero(x) => {
                J::Obj(vec![("kind", s("DivisionByZero")), ("a", op(x))])
            }
            AssertKind::RemainderByZero(x) => {
                J::Obj(vec![("kind", s("RemainderByZero")), ("a", op(x))])
            }
            other => J::Obj(vec![("kind", s(format!("{:?}", other).split([' ', '(', '{']).next().unwrap_or("?").to_string()))]),
        }
    }

    fn body(&self, did: LocalDefId) -> Option<J> {
        let tcx = self.tcx;
        let def_id = did.to_def_id();
        let kind = tcx.def_kind(def_id);
        let body: &Body<'tcx> = match kind {
            DefKind::Fn | DefKind::AssocFn | DefKind::Closure => tcx.optimized_mir(def_id),
            _ => return None,
        };
        self.body_json(did, body, None)
    }

    fn promoted(&self, did: LocalDefId) -> Vec<J> {
        let tcx = self.tcx;
        let def_id = did.to_def_id();
        let kind = tcx.def_kind(def_id);
        let mut v = vec![];
        if matches!(kind, DefKind::Fn | DefKind::AssocFn | DefKind::Closure) {
            for (i, b) in tcx.promoted_mir(def_id).iter_enumerated() {
                if let Some(j) = self.body_json(did, b, Some(i.index())) {
                    v.push(j);
                }
            }
        }
        v
    }

    fn body_json(&self, did: LocalDefId, body: &Body<'tcx>, promoted: Option<usize>) -> Option<J> {
        let tcx = self.tcx;
        let def_id = did.to_def_id();
        let kind = tcx.def_kind(def_id);
        let env = TypingEnv::post_analysis(tcx, def_id);
        let mut o: Vec<(&'static str, J)> = vec![];
        match promoted {
            None => {
                o.push(("def", s(self.def_key(def_id))));
                o.push(("name", s(self.def_name(def_id))));
            }
            Some(i) => {
                o.push(("def", s(format!("{}::promoted[{}]", self.def_key(def_id), i))));
                o.push(("name", s(format!("{}::promoted[{}]", self.def_name(def_id), i))));
            }
        }
        o.push(("promoted", promoted.map(|i| J::Int(i as i128)).unwrap_or(J::Null)));
        o.push(("kind", s(format!("{:?}", kind))));
        o.push(("item", s(tcx.opt_item_name(def_id).map(|n| n.to_string()).unwrap_or_default())));
        // owner impl info
        let mut self_ty = J::Null;
        let mut trait_name = J::Null;
        let mut parent = J::Null;
        let typeck_root = tcx.typeck_root_def_id(def_id);
        if typeck_root != def_id {
            parent = s(self.def_key(typeck_root));
        }
        if let Some(impl_did) = tcx.impl_of_assoc(typeck_root) {
            self_ty = self.ty(tcx.type_of(impl_did).instantiate_identity().skip_norm_wip());
            if tcx.impl_opt_trait_ref(impl_did).is_some() {
                let tr = tcx.impl_trait_ref(impl_did).instantiate_identity().skip_norm_wip();
                trait_name = s(self.def_name(tr.def_id));
            }
        } else if let Some(tr) = tcx.trait_of_assoc(typeck_root) {
            trait_name = s(self.def_name(tr));
        }
        o.push(("self_ty", self_ty));
        o.push(("trait", trait_name));
        o.push(("parent", parent));
        let mut vis = J::Null;
        let mut reachable = J::Bool(false);
        if matches!(kind, DefKind::Fn | DefKind::AssocFn) {
            vis = s(format!("{:?}", tcx.visibility(def_id)));
            let ev = tcx.effective_visibilities(());
            reachable = J::Bool(ev.is_reachable(did));
        }
        o.push(("vis", vis));
        o.push(("reachable", reachable));
        o.push(("span", self.span(body.span)));
        o.push(("arg_count", J::Int(body.arg_count as i128)));
        // generics
        let generics = tcx.generics_of(def_id);
        let mut gps = vec![];
        let mut g = Some(generics);
        let mut all = vec![];
        while let Some(gg) = g {
            all.push(gg);
            g = gg.parent.map(|p| tcx.generics_of(p));
        }
        for gg in all.iter().rev() {
            for p in &gg.own_params {
                gps.push(J::Obj(vec![
                    ("name", s(p.name.as_str())),
                    ("index", J::Int(p.index as i128)),
                    ("kind", s(format!("{:?}", p.kind).split([' ', '{']).next().unwrap_or("").to_string())),
                ]));
            }
        }
        o.push(("generics", J::Arr(gps)));
        // locals
        let mut names: Vec<Option<String>> = vec![None; body.local_decls.len()];
        for vdi in &body.var_debug_info {
            if let VarDebugInfoContents::Place(p) = &vdi.value {
                if p.projection.is_empty() {
                    names[p.local.index()] = Some(vdi.name.to_string());
                }
            }
        }
        let mut locals = vec![];
        for (l, d) in body.local_decls.iter_enumerated() {
            locals.push(J::Obj(vec![
                ("ty", self.ty(d.ty)),
                ("name", names[l.index()].clone().map(J::Str).unwrap_or(J::Null)),
                ("user", J::Bool(names[l.index()].is_some())),
                ("span", self.span(d.source_info.span)),
            ]));
        }
        o.push(("locals", J::Arr(locals)));
        // upvars debug names for closures
        let mut upv = vec![];
        for vdi in &body.var_debug_info {
            if let VarDebugInfoContents::Place(p) = &vdi.value {
                if !p.projection.is_empty() {
                    upv.push(J::Obj(vec![
                        ("name", s(vdi.name.as_str())),
                        ("place", self.place(body, p)),
                    ]));
                }
            }
        }
        o.push(("debug_places", J::Arr(upv)));
        // blocks
        let mut blocks = vec![];
        for (_bb, data) in body.basic_blocks.iter_enumerated() {
            let mut stmts = vec![];
            for st in &data.statements {
                let sp = self.span(st.source_info.span);
                match &st.kind {
                    StatementKind::Assign(b) => {
                        let (p, rv) = &**b;
                        stmts.push(J::Obj(vec![
                            ("k", s("assign")),
                            ("place", self.place(body, p)),
                            ("rv", self.rvalue(env, body, rv)),
                            ("span", sp),
                        ]));
                    }
                    StatementKind::SetDiscriminant { place, variant_index } => {
                        stmts.push(J::Obj(vec![
                            ("k", s("setdiscr")),
                            ("place", self.place(body, place)),
                            ("variant", J::Int(variant_index.index() as i128)),
                            ("span", sp),
                        ]));
                    }
                    StatementKind::StorageLive(l) => stmts.push(J::Obj(vec![
                        ("k", s("live")),
                        ("local", J::Int(l.index() as i128)),
                    ])),
                    StatementKind::StorageDead(l) => stmts.push(J::Obj(vec![
                        ("k", s("dead")),
                        ("local", J::Int(l.index() as i128)),
                    ])),
                    StatementKind::Intrinsic(i) => stmts.push(J::Obj(vec![
                        ("k", s("intrinsic")),
                        ("s", s(format!("{:?}", i))),
                        ("span", sp),
                    ])),
                    _ => {}
                }
            }
            let term = data.terminator();
            let tsp = self.span(term.source_info.span);
            let unwind_bb = |u: &UnwindAction| match u {
                UnwindAction::Cleanup(b) => J::Int(b.index() as i128),
                _ => J::Null,
            };
            let t = match &term.kind {
                TerminatorKind::Goto { target } => {
                    J::Obj(vec![("k", s("goto")), ("target", J::Int(target.index() as i128))])
                }
                TerminatorKind::SwitchInt { discr, targets } => {
                    let mut tv = vec![];
                    for (v, b) in targets.iter() {
                        tv.push(J::Arr(vec![J::UInt(v), J::Int(b.index() as i128)]));
                    }
                    J::Obj(vec![
                        ("k", s("switch")),
                        ("discr", self.operand(env, body, discr)),
                        ("targets", J::Arr(tv)),
                        ("otherwise", J::Int(targets.otherwise().index() as i128)),
                    ])
                }
                TerminatorKind::Return => J::Obj(vec![("k", s("return"))]),
                TerminatorKind::Unreachable => J::Obj(vec![("k", s("unreachable"))]),
                TerminatorKind::UnwindResume => J::Obj(vec![("k", s("resume"))]),
                TerminatorKind::UnwindTerminate(_) => J::Obj(vec![("k", s("terminate"))]),
                TerminatorKind::Drop { place, target, unwind, .. } => J::Obj(vec![
                    ("k", s("drop")),
                    ("place", self.place(body, place)),
                    ("target", J::Int(target.index() as i128)),
                    ("unwind", unwind_bb(unwind)),
                ]),
                TerminatorKind::Call { func, args, destination, target, unwind, fn_span, .. } => {
                    J::Obj(vec![
                        ("k", s("call")),
                        ("func", self.operand(env, body, func)),
                        ("callee", self.callee(env, func)),
                        (
                            "args",
                            J::Arr(args.iter().map(|a| self.operand(env, body, &a.node)).collect()),
                        ),
                        ("dest", self.place(body, destination)),
                        ("target", target.map(|b| J::Int(b.index() as i128)).unwrap_or(J::Null)),
                        ("unwind", unwind_bb(unwind)),
                        ("fn_span", self.span(*fn_span)),
                    ])
                }
                TerminatorKind::Assert { cond, expected, msg, target, unwind } => J::Obj(vec![
                    ("k", s("assert")),
                    ("cond", self.operand(env, body, cond)),
                    ("expected", J::Bool(*expected)),
                    ("msg", self.assert_msg(env, body, msg)),
                    ("target", J::Int(target.index() as i128)),
                    ("unwind", unwind_bb(unwind)),
                ]),
                other => J::Obj(vec![("k", s("other")), ("s", s(format!("{:?}", other)))]),
            };
            let mut tobj = match t {
                J::Obj(v) => v,
                _ => vec![],
            };
            tobj.push(("span", tsp));
            blocks.push(J::Obj(vec![
                ("stmts", J::Arr(stmts)),
                ("term", J::Obj(tobj)),
                ("cleanup", J::Bool(data.is_cleanup)),
            ]));
        }
        o.push(("blocks", J::Arr(blocks)));
        // promoted bodies: emit their constant evaluation if scalar? keep count only
        Some(J::Obj(o))
    }

    fn adts(&self) -> J {
        let tcx = self.tcx;
        let mut v = vec![];
        for id in tcx.hir_free_items() {
            let did = id.owner_id.to_def_id();
            let kind = tcx.def_kind(did);
            if !matches!(kind, DefKind::Struct | DefKind::Enum | DefKind::Union) {
                continue;
            }
            let adt = tcx.adt_def(did);
            let mut variants = vec![];
            for (vi, var) in adt.variants().iter_enumerated() {
                let mut fields = vec![];
                for f in var.fields.iter() {
                    fields.push(J::Obj(vec![
                        ("name", s(f.name.as_str())),
                        ("ty", {
                            let env = TypingEnv::post_analysis(tcx, did);
                            let un = tcx.type_of(f.did).instantiate_identity();
                            match tcx.try_normalize_erasing_regions(env, un) {
                                Ok(t) => self.ty(t),
                                Err(_) => self.ty(tcx.type_of(f.did).instantiate_identity().skip_norm_wip()),
                            }
                        }),
                        ("vis", s(format!("{:?}", f.vis))),
                    ]));
                }
                let discr = if adt.is_enum() {
                    J::UInt(adt.discriminant_for_variant(tcx, vi).val)
                } else {
                    J::Null
                };
                variants.push(J::Obj(vec![
                    ("name", s(var.name.as_str())),
                    ("index", J::Int(vi.index() as i128)),
                    ("discr", discr),
                    ("fields", J::Arr(fields)),
                ]));
            }
            let mut gps = vec![];
            for p in &tcx.generics_of(did).own_params {
                gps.push(J::Obj(vec![
                    ("name", s(p.name.as_str())),
                    ("index", J::Int(p.index as i128)),
                    ("kind", s(format!("{:?}", p.kind).split([' ', '{']).next().unwrap_or("").to_string())),
                ]));
            }
            v.push(J::Obj(vec![
                ("def", s(self.def_key(did))),
                ("name", s(self.def_name(did))),
                ("kind", s(format!("{:?}", kind))),
                ("vis", s(format!("{:?}", tcx.visibility(did)))),
                ("generics", J::Arr(gps)),
                ("variants", J::Arr(variants)),
                ("span", self.span(tcx.def_span(did))),
            ]));
        }
        J::Arr(v)
    }

    fn consts(&self) -> J {
        let tcx = self.tcx;
        let mut v = vec![];
        for did in tcx.hir_body_owners() {
            let def_id = did.to_def_id();
            let kind = tcx.def_kind(def_id);
            if !matches!(kind, DefKind::Const { .. } | DefKind::AssocConst { .. }) {
                continue;
            }
            let generics = tcx.generics_of(def_id);
            let mut val = J::Null;
            let ty = tcx.type_of(def_id).instantiate_identity().skip_norm_wip();
            if generics.count() == 0 {
                if let Ok(cv) = tcx.const_eval_poly(def_id) {
                    match cv {
                        ConstValue::Scalar(sc) => {
                            if let Ok(si) = sc.try_to_scalar_int() {
                                val = J::UInt(si.to_bits_unchecked());
                            }
                        }
                        ConstValue::Slice { .. } | ConstValue::Indirect { .. } => {
                            if matches!(ty.kind(), ty::Ref(..)) {
                                if let ty::Ref(_, inner, _) = ty.kind() {
                                    if matches!(inner.kind(), ty::Slice(_) | ty::Str) {
                                        if let Some(b) = cv.try_get_slice_bytes_for_diagnostics(tcx) {
                                            val = J::Obj(vec![(
                                                "bytes",
                                                J::Arr(b.iter().map(|x| J::Int(*x as i128)).collect()),
                                            )]);
                                        }
                                    }
                                }
                            }
                        }
                        _ => {}
                    }
                }
            }
            v.push(J::Obj(vec![
                ("def", s(self.def_key(def_id))),
                ("name", s(self.def_name(def_id))),
                ("kind", s(format!("{:?}", kind).split([' ', '{']).next().unwrap_or("").to_string())),
                ("ty", self.ty(ty)),
                ("val", val),
                ("generic", J::Bool(generics.count() != 0)),
            ]));
        }
        J::Arr(v)
    }

    fn impls(&self) -> J {
        let tcx = self.tcx;
        let mut v = vec![];
        for id in tcx.hir_free_items() {
            let did = id.owner_id.to_def_id();
            if !matches!(tcx.def_kind(did), DefKind::Impl { .. }) {
                continue;
            }
            let self_ty = tcx.type_of(did).instantiate_identity().skip_norm_wip();
            let mut tr = J::Null;
            if tcx.impl_opt_trait_ref(did).is_some() {
                let t = tcx.impl_trait_ref(did).instantiate_identity().skip_norm_wip();
                tr = s(self.def_name(t.def_id));
            }
            let mut items = vec![];
            for it in tcx.associated_items(did).in_definition_order() {
                items.push(J::Obj(vec![
                    ("name", s(it.name().as_str())),
                    ("def", s(self.def_key(it.def_id))),
                    ("kind", s(format!("{:?}", it.kind).split([' ', '{', '(']).next().unwrap_or("").to_string())),
                ]));
            }
            v.push(J::Obj(vec![
                ("def", s(self.def_key(did))),
                ("self_ty", self.ty(self_ty)),
                ("trait", tr),
                ("items", J::Arr(items)),
                ("span", self.span(tcx.def_span(did))),
            ]));
        }
        J::Arr(v)
    }

    /// Evaluate associated consts of local generic ADTs for every concrete
    /// instantiation mentioned in a field type or a local of some body.
    fn assoc_consts(&self, insts: &[(DefId, GenericArgsRef<'tcx>)]) -> J {
        let tcx = self.tcx;
        let mut v = vec![];
        let mut seen = std::collections::HashSet::new();
        for (adt_did, args) in insts {
            let key = format!("{:?}{:?}", adt_did, args);
            if !seen.insert(key) {
                continue;
            }
            for impl_did in tcx.inherent_impls(*adt_did) {
                for it in tcx.associated_items(*impl_did).in_definition_order() {
                    if !matches!(it.kind, ty::AssocKind::Const { .. }) {
                        continue;
                    }
                    let env = TypingEnv::fully_monomorphized();
                    let uv = mir::UnevaluatedConst { def: it.def_id, args, promoted: None };
                    if let Ok(cv) = tcx.const_eval_resolve(env, uv, rustc_span::DUMMY_SP) {
                        if let ConstValue::Scalar(sc) = cv {
                            if let Ok(si) = sc.try_to_scalar_int() {
                                v.push(J::Obj(vec![
                                    ("def", s(self.def_key(it.def_id))),
                                    ("name", s(self.def_name(it.def_id))),
                                    ("adt", s(self.def_key(*adt_did))),
                                    ("args", self.gargs(args)),
                                    ("val", J::UInt(si.to_bits_unchecked())),
                                ]));
                            }
                        }
                    }
                }
            }
        }
        J::Arr(v)
    }
}

fn collect_insts<'tcx>(
    tcx: TyCtxt<'tcx>,
    t: Ty<'tcx>,
    out: &mut Vec<(DefId, GenericArgsRef<'tcx>)>,
) {
    for arg in t.walk() {
        if let GenericArgKind::Type(tt) = arg.kind() {
            if let ty::Adt(def, args) = tt.kind() {
                if def.did().is_local() && !args.is_empty() {
                    let concrete = args.iter().all(|a| match a.kind() {
                        GenericArgKind::Const(c) => c.try_to_leaf().is_some(),
                        GenericArgKind::Type(_) => false,
                        GenericArgKind::Lifetime(_) => true,
                    });
                    if concrete {
                        out.push((def.did(), args));
                    }
                }
            }
        }
    }
    let _ = tcx;
}

struct Cb;

impl rustc_driver::Callbacks for Cb {
    fn after_analysis<'tcx>(
        &mut self,
        _c: &rustc_interface::interface::Compiler,
        tcx: TyCtxt<'tcx>,
    ) -> Compilation {
        let want = std::env::var("LZFACTS_CRATE").unwrap_or_else(|_| "lzma_rs".to_string());
        let krate = tcx.crate_name(rustc_hir::def_id::LOCAL_CRATE).to_string();
        if krate != want {
            return Compilation::Continue;
        }
        let out_path = match std::env::var("LZFACTS_OUT") {
            Ok(p) => p,
            Err(_) => return Compilation::Continue,
        };
        let cx = Cx { tcx };
        let mut bodies = vec![];
        let mut insts = vec![];
        for did in tcx.hir_body_owners() {
            if let Some(b) = cx.body(did) {
                bodies.push(b);
            }
            bodies.extend(cx.promoted(did));
            let def_id = did.to_def_id();
            if matches!(tcx.def_kind(def_id), DefKind::Fn | DefKind::AssocFn | DefKind::Closure) {
                let body = tcx.optimized_mir(def_id);
                for d in body.local_decls.iter() {
                    collect_insts(tcx, d.ty, &mut insts);
                }
            }
        }
        for id in tcx.hir_free_items() {
            let did = id.owner_id.to_def_id();
            if matches!(tcx.def_kind(did), DefKind::Struct | DefKind::Enum) {
                let adt = tcx.adt_def(did);
                for var in adt.variants() {
                    for f in var.fields.iter() {
                        collect_insts(tcx, tcx.type_of(f.did).instantiate_identity().skip_norm_wip(), &mut insts);
                    }
                }
            }
        }
        // crate attributes
        let mut attrs = vec![];
        let sm = tcx.sess.source_map();
        let root_span = tcx.hir_span(rustc_hir::CRATE_HIR_ID);
        let _ = (sm, root_span);
        for a in tcx.hir_krate_attrs() {
            attrs.push(s(format!("{:?}", a)));
        }
        let features: Vec<J> = tcx
            .sess
            .config
            .iter()
            .filter(|(k, _)| k.as_str() == "feature")
            .filter_map(|(_, v)| v.map(|x| x.to_string()))
            .map(s)
            .collect();
        let top = J::Obj(vec![
            ("crate", s(krate)),
            ("features", J::Arr(features)),
            ("overflow_checks", J::Bool(tcx.sess.overflow_checks())),
            ("crate_attrs", J::Arr(attrs)),
            ("bodies", J::Arr(bodies)),
            ("adts", cx.adts()),
            ("consts", cx.consts()),
            ("impls", cx.impls()),
            ("assoc_consts", cx.assoc_consts(&insts)),
        ]);
        let mut out = String::new();
        top.write(&mut out);
        std::fs::write(&out_path, out).expect("lzfacts: cannot write output");
        Compilation::Continue
    }
}

fn main() {
    let mut args: Vec<String> = std::env::args().collect();
    // RUSTC_WORKSPACE_WRAPPER: argv[1] is the path of the real rustc.
    if args.len() > 1 && (args[1].ends_with("rustc") || args[1].contains("/rustc")) {
        args.remove(1);
    }
    let mut cb = Cb;
    rustc_driver::run_compiler(&args, &mut cb);
}
