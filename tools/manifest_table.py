TITLES = {}
WIP = "check under construction in this session (DESIGN.md section 9 order); not claimed until it passes on the unchanged tree and fires on its seeded mutants"
CLAIMED = {
    "C18": {
        "engine": "E-CFG/E-TERM",
        "technique": "static analysis: switch accept-sets, provenance terms, dominance over Ok exit class (MIR facts)",
        "design_ref": "DESIGN.md section 4 / C18",
        "text": "Decides statically, on the type-checked program: the check-id and filter-id tables accept exactly the assigned/supported ids; the SHA-256 refusal, the reserved-bit tests (block flags & 0x3C, null stream-flag byte, unmasked id byte) and the end-of-input test lead only to Err and dominate every successful return of the XZ decoder. All clauses of the property are covered structurally; the accept-sets are exhaustive over the 256/2^64 id values because they are read off SwitchInt terminators.",
        "note": "Trusts rustc's MIR and the documented Read/BufRead contracts; `is_eof` is taken to mean fill_buf().is_empty() (checked under C13).",
    },
}
NOT_APPLICABLE = {p: WIP for p in ["C01","C02","C03","C04","C05","C06","C07","C08","C09","C10","C11","C12","C13","C14","C15","C16","C17"]}
