TITLES = {}
WIP = "check under construction in this session (DESIGN.md section 9 order); not claimed until it passes on the unchanged tree and fires on its seeded mutants"
CLAIMED = {
    "C18": {
        "engine": "E-CFG/E-TERM",
        "technique": "static analysis: switch accept-sets, provenance terms, dominance over Ok exit class (MIR facts)",
        "design_ref": "DESIGN.md section 4 / C18",
        "text": "Decides statically, on the type-checked program: the check-id and filter-id tables accept exactly the assigned/supported ids; the SHA-256 refusal, the reserved-bit tests (block flags & 0x3C, null stream-flag byte, unmasked id byte) and the end-of-input test lead only to Err and dominate every successful return of the XZ decoder. All clauses of the property are covered structurally; the accept-sets are exhaustive over the 256/2^64 id values because they are read off SwitchInt terminators.",
        "note": "Trusts rustc's MIR and the documented Read/BufRead contracts; `is_eof` is taken to mean fill_buf().is_empty() (checked under C13).",
    },
}
CLAIMED["C12"] = {
    "engine": "E-CFG/E-TERM",
    "technique": "static analysis: def-use classification of every Result, provenance of raw read/write counts, dominance of flush/write_all, reachability after failed writes (MIR facts)",
    "design_ref": "DESIGN.md section 4 / C12",
    "text": "Decides statically for all ~200 fallible call sites of the crate: no Result<_, io::Error|error::Error> is dropped or swallowed (an explicit table of three accepted idioms, each proven to read an in-memory Cursor<&[u8]>); raw Write::write / Read::read counts are accounted exactly (adapters) or consumed (loops); every successful decompress/finish passes LzBuffer::finish, which write_all's the pending window and flushes; after a failed sink write only error conversion and drops follow. Declined: that the bytes already written are the correct prefix (value-level).",
    "note": "Trusts rustc's MIR and that Write::write_all loops over short writes (std contract).",
}
CLAIMED["C16"] = {
    "engine": "E-CFG/E-TERM",
    "technique": "static typestate analysis of the Option latch over the MIR control-flow graph; compile-fail witness (thorough)",
    "design_ref": "DESIGN.md section 4 / C16",
    "text": "Decides statically: at every error return of Stream::write the Option latch holding the run state is empty (dataflow with take/refill/None transfer functions), the refill is followed by success only, the None arms of write/finish touch nothing / return Err, and the shared decoding loop tests produced-length against the size with an ordering comparison before any consuming call. 'No sequence of calls panics' is covered by C07.R1 over the same bodies.",
    "note": "Trusts rustc's MIR; Option::take/replace semantics from std.",
}
CLAIMED["C06"] = {
    "engine": "E-CFG/E-TERM",
    "technique": "static analysis: 18-row obligation table matched by operand provenance, Err-only mismatch edges, must-pass-through to Ok, lossy-operation scan (MIR facts)",
    "design_ref": "DESIGN.md section 4 / C06",
    "text": "Decides the first sentence of the property statically: every integrity field of the XZ format (magics, 4 CRC32s, stream flags, declared sizes, paddings, block check CRC32/CRC64, index count/sizes, backward size, trailing data) is compared with the right counterpart (identified by data-flow provenance), a mismatch reaches only Err, no successful return is reachable from the field's read without the comparison, the finalized digest is the one the reads were routed through, and no comparison operand passes a narrowing cast or wrapping arithmetic. Declined: the 'consequently' clause (it rests on CRC32/CRC64 detecting every corruption).",
    "note": "Trusts rustc's MIR and the documented Read/BufRead contracts.",
}
NOT_APPLICABLE = {p: WIP for p in ["C01","C02","C03","C04","C05","C07","C08","C09","C10","C11","C13","C14","C15","C17"]}
