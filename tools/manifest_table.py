TITLES = {}
WIP = "check under construction in this session (DESIGN.md section 9 order); not claimed until it passes on the unchanged tree and fires on its seeded mutants"
CLAIMED = {
    "C18": {
        "engine": "E-CFG/E-TERM",
        "technique": "static analysis: switch accept-sets, provenance terms, dominance over Ok exit class (MIR facts)",
        "design_ref": "DESIGN.md section 4 / C18",
        "text": "Decides statically, on the type-checked program: the check-id and filter-id tables accept exactly the assigned/supported ids (classifier found by signature; switch or comparison chains, by regions) and the filter id classified is the multi-byte value as read, without narrowing - neither at the classifier nor inside the multi-byte decoder (7 bits per byte shifted in 64 bits, shared C03.R2); the SHA-256 refusal, the reserved-bit tests (block flags & 0x3C, null stream-flag byte, unmasked id byte) and the end-of-input test lead only to Err and dominate every successful return of the XZ decoder. All clauses of the property are covered structurally; the accept-sets are exhaustive over the 256/2^64 id values because they are read off SwitchInt terminators.",
        "note": "Trusts rustc's MIR and the documented Read/BufRead contracts; `is_eof` is taken to mean fill_buf().is_empty() (checked under C13).",
    },
}
CLAIMED["C12"] = {
    "engine": "E-CFG/E-TERM",
    "technique": "static analysis: def-use classification of every Result, provenance of raw read/write counts, dominance of flush/write_all, reachability after failed writes (MIR facts)",
    "design_ref": "DESIGN.md section 4 / C12",
    "text": "Decides statically for all ~200 fallible call sites of the crate: no Result<_, io::Error|error::Error> is dropped or swallowed (an explicit table of three accepted idioms, each proven to read an in-memory Cursor<&[u8]>); raw Write::write / Read::read counts are accounted exactly (adapters) or consumed (loops); every successful decompress/finish passes LzBuffer::finish, which write_all's the pending window and flushes; after a failed sink write only error conversion and drops follow; no std buffering writer over a caller's sink is dropped unflushed on a successful path (Drop discards write errors); the window's finish is reachable only from the success edge of the decoding step that fed it. Declined: that the bytes already written are the correct prefix (value-level).",
    "note": "Trusts rustc's MIR and that Write::write_all loops over short writes (std contract).",
}
CLAIMED["C16"] = {
    "engine": "E-CFG/E-TERM",
    "technique": "static typestate analysis of the Option latch over the MIR control-flow graph; compile-fail witness (thorough)",
    "design_ref": "DESIGN.md section 4 / C16",
    "text": "Decides statically: at every error return of Stream::write the Option latch holding the run state is empty (dataflow with take/refill/None transfer functions), the refill is followed by success only, the None arms of write/finish touch nothing / return Err, the shared decoding loop tests produced-length against the size with an ordering comparison before any consuming call, the streaming decoder's size in effect is params.unpacked_size of LzmaParams::read_header unconditionally, and read_data / process_stream / process touch the input only through the decoding core (whose first action is the size test). 'No sequence of calls panics' is covered by C07.R1 over the same bodies.",
    "note": "Trusts rustc's MIR; Option::take/replace semantics from std.",
}
CLAIMED["C06"] = {
    "engine": "E-CFG/E-TERM",
    "technique": "static analysis: 18-row obligation table matched by operand provenance, Err-only mismatch edges, must-pass-through to Ok, lossy-operation scan (MIR facts)",
    "design_ref": "DESIGN.md section 4 / C06",
    "text": "Decides the first sentence of the property statically: every integrity field of the XZ format (magics, 4 CRC32s, stream flags, declared sizes, paddings, block check CRC32/CRC64, index count/sizes, backward size, trailing data) is compared with the right counterpart (identified by data-flow provenance), a mismatch reaches only Err, no successful return is reachable from the field's read without the comparison, the finalized digest is the one the reads were routed through, no comparison operand passes a narrowing cast or wrapping arithmetic, read_tag returns the comparison of the whole tag with tag.len() bytes read exactly (never a constant true), a delegated padding check tests every byte for zero (no XOR/sum accumulation), and the header-padding scan loop judges every fragment the reader delivers (emptiness exit, consume(len), verdict carried over the refills - shared C13.R1). Declined: the 'consequently' clause (it rests on CRC32/CRC64 detecting every corruption).",
    "note": "Trusts rustc's MIR and the documented Read/BufRead contracts.",
}

AI_NOTE = "Trusts rustc's MIR, the std/byteorder/crc models of engine/models.py (documented Read/BufRead/Write contracts), assumptions A-COUNTER (byte counters < 2^63) and A-VEC (Vec length <= isize::MAX), and the argued entries of rules/justified.json (each with mechanically checked side-conditions)."
CLAIMED["C07"] = {
    "engine": "E-AI + E-CFG/E-TERM",
    "technique": "static analysis: abstract interpretation over MIR (linear forms + facts, tabulated inlining, most-general-client harness per public type) refuting every panic-capable site; loop classification; allocation-size bounds",
    "design_ref": "DESIGN.md section 4 / C07",
    "text": "Decides statically: (R1) each of the ~145 panic-capable MIR sites (overflow/bounds/division asserts with overflow checks on, panicking std calls, explicit panics) reachable from any public decoding entry point - one-shot functions, the streaming decoder under any call sequence, the raw decoders with any accepted parameters - is refuted by abstract interpretation or matches an argued entry of rules/justified.json whose side-conditions are re-checked (who-writes, validated stores, callers, and 'only from these entry points'); every construction of the circular window carries the obligation dict_size >= 1; BufRead::consume(n) counts as loop progress only with n >= 1; unmodelled external callees fail closed; (R2) every loop is iterator-driven, exactly unrolled, or cannot go round without a consuming/producing call; (R3) every sized allocation is bounded by 2^23 or is unit growth by data. Declined: that finite input cannot drive unbounded output (range-coder numerics); heap numbers.",
    "note": AI_NOTE,
}
CLAIMED["C08"] = {
    "engine": "E-CFG/E-TERM",
    "technique": "static analysis: per-arm read widths, provenance of the stored size, dominance/path checks of size test, final equality and end-marker acceptance (MIR facts)",
    "design_ref": "DESIGN.md section 4 / C08",
    "text": "Decides statically: LzmaParams.unpacked_size and DecoderState.unpacked_size are written (or lent mutably) only by read_header / the constructors / set_unpacked_size (or its two callers), and the setter stores its argument unchanged; read_header consumes 13/13/5 bytes per option (resolved read widths, through local helpers); the size in effect depends only on the header field resp. only on the caller's value per option arm; the size test opens every round of the decoding loop (ordering comparison); with a size in effect every Finish-mode success (from the Some edge of every test of the size, including the end-marker exit of the loop) passes a test whose truth table is produced == size and whose mismatch edge is Err; the streaming API's final pass is skipped by allow_incomplete only and its header staging loses nothing whatever the option's header length; the end marker is accepted only behind distance == 0xFFFF_FFFF and a true is_finished_ok (code == 0 and end of input), and that test exists in the symbol decoder on rep[0] (shared C01.R2 clause); match lengths handed to the window never depend on the size in effect. Declined: that the produced count equals the declared one for a given stream (value-level).",
    "note": "Trusts rustc's MIR.",
}
CLAIMED["C11"] = {
    "engine": "E-AI + E-CFG/E-TERM",
    "technique": "static analysis: E-AI reachability from one-shot entries + classification of consuming calls by resolved callee and reader type; dominance of the 5-byte preamble; path checks after size / end byte",
    "design_ref": "DESIGN.md section 4 / C11",
    "text": "Decides statically: on every path reachable from the one-shot decoders (abstract interpretation proves the streaming carry-over code dead there) input is consumed only by exact-width reads, peeks, adapters' own reads or on Take-limited readers; the size test stops the loop before any further consumption and nothing touches the input afterwards; RangeDecoder::new reads exactly 1+4 bytes and dominates every success of its creators; normalisation reads one byte only under range < 2^24; nothing is read after the LZMA2 end byte; XZ rejects trailing bytes; the one-shot LZMA/LZMA2 entry points hand their reader to the header parser and the decoder only. Declined: lock-step with a conforming encoder (numerics).",
    "note": AI_NOTE,
}
CLAIMED["C13"] = {
    "engine": "E-AI + E-CFG/E-TERM",
    "technique": "static analysis: provenance of fill_buf slices and raw read counts, loop-shape check of the padding scan, effect check of counting/digesting adapters, E-AI reachability of variable-length reads",
    "design_ref": "DESIGN.md section 4 / C13",
    "text": "Decides statically, under the documented Read/BufRead contracts: the size/content of a peeked buffer flows only into emptiness tests, the scan-consume-all loop (which must loop back to fill_buf), forwarders, or the Partial-mode look-ahead; variable-length reads occur only in adapters, on in-memory cursors, or in code unreachable from the one-shot entries; the counting adapter counts exactly what it forwards and a digesting adapter updates its digest once with exactly buf[..n] of its single inner call and returns n; the block-header reader is drained before its digest is compared. Declined: the streaming decoder under arbitrary write chunking (C05).",
    "note": AI_NOTE,
}
CLAIMED["C14"] = {
    "engine": "E-CFG/E-TERM",
    "technique": "static sibling agreement: per-field provenance terms of reset_state vs constructor (field list from the ADT), dominance of reset_state in the reset entry points",
    "design_ref": "DESIGN.md section 4 / C14",
    "text": "Decides statically: for every field of the decoder state (taken from the ADT definition, so a new field becomes an obligation) reset_state stores on every path the same value the constructor builds (an in-place reset method is compared recursively with the field type's constructor, element loops must cover the whole array), with two documented exceptions, one of which (the streaming carry-over buffer) is decided rather than cited: input is staged into it only under mode == Partial or as a top-up of a non-empty buffer, so a Finish-mode-only decoder keeps it empty; the size in effect is written only by the constructors and set_unpacked_size; every other field of LzmaDecoder / Lzma2Decoder is configuration (never written after construction) or restored by reset; the literal table is refilled or re-created on both branches; LzmaDecoder::reset / Lzma2Decoder::reset call reset_state unconditionally with the constructor's properties; sizes cannot leak across LZMA2 resets; the construction-time copy of the size in LzmaParams is read only to build the decoder state (it is stale after reset(Some(size))); window and range decoder are per-call locals.",
    "note": "Trusts rustc's MIR.",
}

CLAIMED["C09"] = {
    "engine": "E-CFG/E-TERM",
    "technique": "static analysis: distance guards located by operand provenance in every implementor of the window trait, Err-only failing edges, dominance over every buffer access; field privacy",
    "design_ref": "DESIGN.md section 4 / C09",
    "text": "Decides statically for both window implementations (enumerated from the impl list): last_n and append_lz test dist > bytes produced (and dist > dict_size for the circular window), the failing edges reach only Err, and the tests dominate every access to the buffer and every append in the function; the guards are decided by truth table (reject exactly dist > bound) and may live in a ?-applied helper; the buffer field is private to the window module, the symbol decoder uses only the guarded trait methods and propagates last_n's verdict with ?; the circular copy reads at the wrapped running offset; the dictionary bound is max(header field, 4096) (C01.R1 evaluation); the LZMA2 window is emptied (buf cleared, len zeroed) at exactly the dictionary resets the format prescribes (C02.R1); the distance handed to the window is rep[0] + 1 with nothing else applied (shared C01.R2 clause). Declined: that guarded cells hold the right bytes (value-level).",
    "note": "Trusts rustc's MIR and privacy checking.",
}
CLAIMED["C10"] = {
    "engine": "E-CFG/E-TERM",
    "technique": "static analysis: provenance of the limit argument, who-may-grow enumeration with dominance of the limit test, equality of tested and grown length, who-reads enumeration, limit taint against the guards of every error construction",
    "design_ref": "DESIGN.md section 4 / C10",
    "text": "Decides statically: at both constructions of the circular window (one-shot and streaming) the limit is Options.memlimit.unwrap_or(usize::MAX) with no cast, clamp or arithmetic; every call that can grow the window buffer sits on the true edge of new_len <= memlimit whose other edge is Err, and the grown length is exactly the tested index + 1; the limit is read by that guard only and only when the buffer must grow (so a sufficient limit leaves the control flow unchanged); Options.memlimit is read only by functions that construct a window; no error is built behind a test on a limit-derived value (taint through fields by name and parameters by position) except at the growth test itself; the ring wraps exactly at dict_size and grows only within [index + 1, dict_size] (shared C01.R4), so it never holds more than min(dictionary size, bytes produced). Declined: heap measurements.",
    "note": "Trusts rustc's MIR.",
}
CLAIMED["C17"] = {
    "engine": "E-CFG/E-TERM",
    "technique": "static analysis: guards of the LZMA2 chunk parser by operand provenance with Err-only edges and dominance; provenance of the io::Take limit and of the output target; shared C08 final-equality / copy-length rules",
    "design_ref": "DESIGN.md section 4 / C17",
    "text": "Decides statically: status bytes other than 0/1/2 reach only the LZMA chunk parser, whose first action is status & 0x80 == 0 -> Err; props >= 225 and lc + lp > 4 lead to Err and dominate the construction of the properties; the range decoder of a chunk reads from input.take(be16 + 1); the output target ((status & 0x1F) << 16 | be16) + 1 + produced is set before decoding and the produced-length read that enters the target is not followed by the dictionary reset, and the Finish-mode final equality with unclamped copy lengths makes over/under-production an error; uncompressed chunks are one read_exact of be16 + 1 bytes. Input ending early surfaces as the read error that C12.R1 shows is propagated.",
    "note": "Trusts rustc's MIR; io::Take yields EOF at its limit (std contract).",
}

PARTIAL = "PARTIAL CLAIM - decides the named structural clauses, each a necessary condition of the property (breaking one breaks decoding of some well-formed input); it does NOT decide the behaviour itself: "
CLAIMED["C01"] = {
    "engine": "E-CFG/E-TERM",
    "technique": "static analysis: header-field map, symbol-automaton constants, context-index terms, who-writes enumeration of the circular window, table shapes (MIR facts, provenance terms)",
    "design_ref": "DESIGN.md section 4 / C01",
    "text": PARTIAL + "the properties byte is split as lc = b % 9, lp = b / 9 % 5, pb = b / 45 with the only rejection b >= 225 and the dictionary size in effect is max(header field, 4096) (gated evaluation on 10 values); the 12-state automaton (each store to `state` evaluated as a function of the old state, per symbol kind read off the dominating decision bits), the length coder per kind, the repeat-distance rotations (replayed in execution order), the +2 / end-marker terms; the nine steps of literal decoding and the decoded distance for all 64 slots (evaluation with symbolic sub-decodings); every DecoderState field is written only by the symbol-decoder family, the constructor and reset_state; the window's distance guards reject exactly dist > bound; every window is constructed with params.dict_size unmodified; cursor/len/buf of the circular window are written only by append_literal/set (wrap at dict_size), the buffer grows to a length in [index+1, dict_size], finish slices [0, cursor), last_or reads the default iff nothing was produced and otherwise cell (dict_size + cursor - 1) % dict_size, last_n(dist) reads cell (dict_size + cursor - dist) % dict_size (both evaluated over cursor x distance / produced x dict_size); probability tables have the format's shapes and 0x400 initialiser; the decision bits is_match / is_rep_0long are indexed injectively by (state, produced length mod 2^pb) inside their 192 entries for every pb 0..=4 and the four per-state tables by the state itself (evaluation over 12 states x pos_state x pb); every range-decoder step term (bound, bit test, both probability updates for all 2047 probabilities, normalisation, direct bits, bit-tree recurrences and indices, length-coder offsets, initial state) evaluates to the reference formula. Declined (not static): that the range-coder arithmetic yields the encoder's bits, i.e. byte-exact output - this needs value-level reasoning over 2^32-range arithmetic on every path.",
    "note": "Trusts rustc's MIR; the constants in rules/C01.py transcribe the LZMA specification.",
}
CLAIMED["C02"] = {
    "engine": "E-CFG/E-TERM",
    "technique": "static analysis: reset-class table read off the SwitchInt on (status >> 5) & 3, size-field provenance terms, control dependence of resets on the flags, order of the produced-length read vs the dictionary reset, sibling agreement reset_state/constructor (MIR facts)",
    "design_ref": "DESIGN.md section 4 / C02",
    "text": PARTIAL + "for all 128 control bytes 0x80..0xFF the dictionary reset / state reset / read of new properties happen exactly for >= 0xE0 / >= 0xA0 / >= 0xC0 (gated evaluation of the decisions found by what they guard - independent of how the table is spelled) and status 1/2 map to uncompressed chunks with/without dictionary reset; the chunk parser (with its classification helpers) builds an error only for control byte < 0x80, properties >= 225 or lc + lp > 4; the output target and the packed-size limit evaluate to the format's terms on grids that include the 0xFFFF carry cases; the accumulating window's accessors read buf[len-1], buf[len-dist] and copy from offset len-dist upwards; unpacked/packed/uncompressed sizes are the format's big-endian terms; the window is reset iff reset_dict and a reset empties it (buffer cleared, length zeroed on every path, shared C09.R4), the decoder state iff reset_state with new-or-stored properties, and nothing else in the chunk parser modifies the state; the output target reads the produced length after the dictionary reset; a state reset re-initialises every field of the decoder state; uncompressed bytes extend the same history and advance the produced length by the slice length. Declined: the payload of compressed chunks (C01's declined part).",
    "note": "Trusts rustc's MIR; the table in rules/C02.py transcribes the LZMA2 format.",
}
CLAIMED["C03"] = {
    "engine": "E-CFG/E-TERM",
    "technique": "static analysis: extraction of the container-arithmetic terms from MIR and their exhaustive/residue-covering evaluation under the compiled integer widths against the format's formulas; control dependence; must-pass-through (MIR facts)",
    "design_ref": "DESIGN.md section 4 / C03",
    "text": PARTIAL + "block and index padding is (-count) mod 4 (term evaluated on all residues and near 2^32); multi-byte integers use (byte & 0x7F) << 7i, continuation bit 0x80 (all 256 byte values), at most 9 bytes; the block header spans 4b - 1 bytes for all 255 size bytes with no overflow in the compiled widths; the byte counter feeding a block's index record is created per block and the record is (count after the check field - padding, decoded length); the check field is 0/4/8 bytes little-endian compared with the checksum of the block's bytes; the compressed-size field of the header is present iff flag bit 0x40 and the uncompressed-size field iff 0x80 (gated evaluation of the two Option fields for every flag byte), compressed first, and the filter count is (flags & 3) + 1 for all 256 flag bytes; the block loop dispatches 0 -> index (leave) / other -> block (continue) and every Ok path of read_block writes the block to the sink once; the container parser lets no peeked-buffer size decide anything (C13.R1 on the container code) and builds an XzError only behind an integrity comparison of the C06 table, a C18 refusal, or one of five listed format tests. Declined: payload decoding (C02/C01), CRC arithmetic (crc crate).",
    "note": "Trusts rustc's MIR; the formulas in rules/C03.py transcribe xz-file-format 1.0.4; evaluates extracted expression terms (not the program).",
}

CLAIMED["C04"] = {
    "engine": "E-CFG/E-TERM",
    "technique": "static analysis: guards and emitted-byte terms of the writers extracted from MIR (flow-sensitive provenance terms) and evaluated over finite domains against the format; composition with the reader's extracted terms (inverse checks); sibling agreement encoder contexts / header; control dependence; must-pass-through",
    "design_ref": "DESIGN.md section 4 / C04",
    "text": PARTIAL + "the LZMA2 writer emits the end byte exactly when read() returned 0 (short reads continue), chunks are control 1, big-endian n-1 (fits: buffer <= 65536) and buf[..n], and reads again afterwards; the multi-byte writer partitions on value >= 0x80 with bytes 0x80|(v&0x7F) / v and carries v >> 7 (inverse of C03.R2); the XZ block header written is 4*(size byte+1) bytes with one accepted filter id, one property byte and zero padding; writer paddings are (-count) mod 4 zero bytes; reader_term(writer_term(s)) = s for the backward size and the index record / footer size come unmodified from the counting adapters; the .lzma header's properties byte decodes to the lc/lp/pb the encoder's own context indices use, the size field is all-ones / caller's value / absent per option, the end marker is written iff the size is declared unknown with the format's 1+1+4+6+30 bits and in the position state of the number of bytes encoded (gated evaluation for 10 lengths), every Ok finish flushes; the digesting / counting write adapters account exactly the bytes the sink accepted (shared C12.R2); encode_bit's stores to low/range and encode_literal's MSB-first bit and tree recurrence evaluate to the reference; range-encoder constants (11-bit probabilities, shift 5 for all 2047 probabilities, top 2^24, 5-byte flush, initial state, carry constants) are the decoder's; the carry flush of write_low hands the sink single bytes whose values are exactly cache + carry first and 0xFF + carry afterwards (evaluated, wrapping in u8), one per decrement of cachesz until it is 0, and the new cached byte (low >> 24) is stored once, in the flush branch, after the bytes went out. Declined (not static): that the range-coded payload round-trips for every input (2^32-range numerics), interoperability of the payload.",
    "note": "Trusts rustc's MIR; constants in rules/C04.py transcribe the formats; evaluates extracted expression terms (not the program).",
}

CLAIMED["C05"] = {
    "engine": "E-CFG/E-TERM",
    "technique": "static effect analysis of the update-flag family (caller-visible stores and mutable loans control dependent on the flag or forwarding it); provenance terms of staged slices and fill-position updates; finite evaluation of the refill guards; path checks of the dry-run/commit protocol; ADT capacity constants (MIR facts)",
    "design_ref": "DESIGN.md section 4 / C05",
    "text": PARTIAL + "a dry run (update = false) stores nothing through caller-visible references and lends none mutably except to its temporary range decoder, in all functions of the symbol decoder reached from process_next_inner, and try_process_next passes false with a decoder over the look-ahead slice; both look-ahead tests use the carry-over capacity 20 and the header staging holds >= 18 bytes; every slice of a staging array handed to a reader ends at its fill position and fill positions move only by fill / first fill at 0 / compaction after copying [consumed, end) to the front / drain after the decoder consumed the bytes; the carry-over buffer is refilled at every fill level below capacity; with < 20 bytes in Partial mode a symbol is committed only after its dry run succeeded and a failed dry run commits nothing and leaves the loop; the range decoder is rebuilt from and saved back to (range, code), the carry-over decoder's state is copied back, staged bytes are decoded before new input and write returns its cursor position; every read of LzmaParams::read_header (through local helpers) fails with Error::HeaderTooShort, which Stream::read_header turns into 'stay in the Header state' - and it answers so for no other cause; staging fills reach the end of the array; in Partial mode the decoder stops early only after a failed dry run; every DecoderState field has its writers table. Declined (not static): that 20 bytes always suffice and value-level equality with the one-shot decoder over all chunkings (symbol semantics, range-coder numerics).",
    "note": "Trusts rustc's MIR; T = 20 transcribes the worst-case symbol (22 coded + 26 direct bits).",
}
CLAIMED["C15"] = {
    "engine": "E-CFG/E-TERM",
    "technique": "static who-may-emit enumeration with control dependence on the update flag; shared C05 rules (commit protocol, staged-slice provenance, refill guard evaluation); who-reads enumeration and control dependence / must-pass-through of allow_incomplete in Stream::finish (MIR facts)",
    "design_ref": "DESIGN.md section 4 / C15",
    "text": PARTIAL + "the window is extended only by append calls of the symbol decoder under update = true (a dry run cannot emit, committed symbols are never revised); symbols are committed only after a successful dry run or with the full look-ahead; readers over staging arrays never see bytes beyond the fill position and staged bytes are neither dropped nor duplicated; the carry-over buffer is refilled whenever it has room (so the decoder lags by at most one symbol's input); allow_incomplete is read only in Stream::finish where it guards only the final end-of-stream process call, and every Ok path of the Data arm passes the window flush; window bytes reach the sink at exactly two sites (whole buffer at the wrap, [0, cursor) at finish) and cursor/len/buf of the window are written only by append_literal/set (C01.R4); across write calls the range-decoder state and the staged bytes are carried and the Data arm decodes staged bytes before, and separately from, the new input (shared C05.R6). Declined (not static): the 64-byte lag figure and prefix equality at value level.",
    "note": "Trusts rustc's MIR.",
}
NOT_APPLICABLE = {}
