#!/usr/bin/env python3
"""matrix.py <patch.diff|--none> <out.json> <prop...>
Tooling (not a registered check): applies one patch to a scratch copy of /repo, extracts the facts once and runs
the listed rule modules on it; writes {prop: {"rc":..., "findings":[rule key ...]}}."""
import importlib, io, json, os, shutil, subprocess, sys, tempfile, time, contextlib
ROOT = os.path.dirname(os.path.dirname(os.path.abspath(__file__)))
sys.path.insert(0, ROOT)
from engine import run as runlib

patch, out = sys.argv[1], sys.argv[2]
props = sys.argv[3:]
T = tempfile.mkdtemp(prefix="verif-matrix-")
res = {}
try:
    subprocess.check_call(["rsync", "-a", "--exclude", "target", "--exclude", ".git", "/repo/", T + "/repo/"])
    if patch != "--none":
        subprocess.check_call(["patch", "-p1", "-s", "-i", os.path.abspath(patch)], cwd=T + "/repo")
    os.environ["VERIF_EVIDENCE_DIR"] = T + "/ev"
    ctx0 = runlib.Context(T + "/repo", "quick", 0, "matrix")
    ctx0.prepare(None)
    for p in props:
        mod = importlib.import_module("rules.%s" % p)
        ctx = runlib.Context(T + "/repo", "quick", 0, p)
        ctx.tmp, ctx.fact_paths, ctx.fact_hash, ctx._facts = ctx0.tmp, ctx0.fact_paths, ctx0.fact_hash, ctx0._facts
        buf = io.StringIO()
        t0 = time.time()
        try:
            with contextlib.redirect_stdout(buf):
                rc = mod.run(ctx, t0)
        except Exception as e:
            rc = 2
            buf.write("EXC %r" % e)
        lines = [l.strip() for l in buf.getvalue().splitlines() if l.strip().startswith(("VIOLATED", "UNVERIFIABLE", "EXC"))]
        res[p] = {"rc": rc, "wall_s": round(time.time() - t0, 1), "findings": [l[:300] for l in lines[:6]]}
    ctx0.cleanup()
finally:
    shutil.rmtree(T, ignore_errors=True)
json.dump(res, open(out, "w"), indent=1)
print(out, {p: v["rc"] for p, v in res.items()})
