#!/usr/bin/env python3
"""Fills the <!-- TABLEn --> blocks of DESIGN.md section 10.4 from the detection data merged into seeded/*/meta.json
by tools/seeded_detect.py."""
import glob, json, os, re
ROOT = os.path.dirname(os.path.dirname(os.path.abspath(__file__)))


def table(rounds):
    rows = ["| change | own check reports it | first rule of the own check | also reported by | what was changed (abridged) |",
            "|--------|----------------------|-----------------------------|------------------|------------------------------|"]
    n = ok = 0
    for mp in sorted(glob.glob(os.path.join(ROOT, "seeded", "*", "meta.json"))):
        m = json.load(open(mp))
        if m.get("round") not in rounds or "detected_by" not in m:
            continue
        own = m["property"]
        det = m["detected_by"]
        n += 1
        ok += own in det
        first = det[own][0].split(":")[0] if own in det and det[own] else ""
        others = " ".join(p for p in sorted(det) if p != own) or "—"
        what = (m.get("summary") or "")[:120].replace("|", "/").replace("\n", " ")
        rows.append("| %s | %s | %s | %s | %s |" % (m["id"], "yes" if own in det else "**no**", first, others, what))
    rows.append("")
    rows.append("%d of %d reported by the property's own check." % (ok, n))
    return "\n".join(rows)


p = os.path.join(ROOT, "DESIGN.md")
s = open(p).read()
for tag, rounds in (("TABLE1", (1,)), ("TABLE2", (2,)), ("TABLE3", (3,)), ("TABLE4", (4,)), ("TABLE5", (5,)), ("TABLE6", (6,)), ("TABLE7", (7,)), ("TABLE8", (8,))):
    if "<!-- %s -->" % tag in s:
        s = re.sub(r"<!-- %s -->.*?<!-- /%s -->" % (tag, tag), "<!-- %s -->\n%s\n<!-- /%s -->" % (tag, table(rounds), tag), s, flags=re.S)
open(p, "w").write(s)
print("tables written")
