#!/bin/bash
# usage: mkfacts.sh <repo> <features-comma-list|none> <out.json>
# Runs the lzfacts driver over <repo>'s library with a fresh target dir.
set -u
REPO="$1"; FEATS="$2"; OUT="$3"
HERE="$(cd "$(dirname "$0")" && pwd)"
DRV="$HERE/lzfacts/target/release/lzfacts"
if [ ! -x "$DRV" ]; then echo "lzfacts driver not built (run setup_cmd)" >&2; exit 2; fi
SYSROOT="$(rustc +nightly --print sysroot)"
TD="$(mktemp -d "${TMPDIR:-/tmp}/lzfacts-td.XXXXXX")"
trap 'rm -rf "$TD"' EXIT
rm -f "$OUT"
FARGS=()
if [ "$FEATS" != "none" ]; then FARGS=(--features "$FEATS"); fi
( cd "$REPO" && \
  CARGO_NET_OFFLINE=true \
  LD_LIBRARY_PATH="$SYSROOT/lib" \
  RUSTFLAGS="-Zmir-opt-level=0 -Coverflow-checks=on -Cdebug-assertions=off -Awarnings" \
  RUSTC_WORKSPACE_WRAPPER="$DRV" \
  CARGO_TARGET_DIR="$TD" \
  LZFACTS_OUT="$OUT" LZFACTS_CRATE=lzma_rs \
  cargo +nightly check --offline --lib "${FARGS[@]}" ) > "$TD/log" 2>&1
RC=$?
if [ $RC -ne 0 ]; then echo "cargo check failed:" >&2; tail -40 "$TD/log" >&2; exit 2; fi
if [ ! -s "$OUT" ]; then echo "fact file missing" >&2; tail -20 "$TD/log" >&2; exit 2; fi
exit 0
